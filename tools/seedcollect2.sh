#!/bin/sh
for p in "$@"; do
  for m in m3 m4; do
    mkdir -p /verif/seeded/$p/$m
    cp /tmp/seed2-$p-out/$m/patch.diff /tmp/seed2-$p-out/$m/meta.json /verif/seeded/$p/$m/ 2>/dev/null
    cp /tmp/seed2-$p-out/$m/demo.* /verif/seeded/$p/$m/ 2>/dev/null
  done
  git -C /repo worktree remove --force /tmp/seed2-$p
  rm -rf /tmp/seed2-$p /tmp/seed2-$p-out
  echo "$p: $(ls /verif/seeded/$p/m3 2>/dev/null | tr '\n' ' ') | $(ls /verif/seeded/$p/m4 2>/dev/null | tr '\n' ' ')"
done
