#!/bin/sh
# usage: tools/seedprep.sh C16 C17 ...   create scratch worktrees + task files for seeded-mutation sub-agents
for p in "$@"; do
  git -C /repo worktree add --detach /tmp/seed-$p HEAD -q 2>&1 | tail -1
  mkdir -p /tmp/seed-$p-out
  cp /verif/tmp/seedprompts/$p.txt /tmp/seed-$p-out/TASK.md
done
