#!/bin/sh
# usage: tools/seedcollect.sh C16 ...   copy a finished sub-agent's deliverables to /verif/seeded and drop its worktree
for p in "$@"; do
  for m in m1 m2; do
    mkdir -p /verif/seeded/$p/$m
    cp /tmp/seed-$p-out/$m/patch.diff /tmp/seed-$p-out/$m/meta.json /verif/seeded/$p/$m/ 2>/dev/null
    cp /tmp/seed-$p-out/$m/demo.* /verif/seeded/$p/$m/ 2>/dev/null
  done
  git -C /repo worktree remove --force /tmp/seed-$p
  rm -rf /tmp/seed-$p /tmp/seed-$p-out
  echo "$p: $(ls /verif/seeded/$p/m1 | tr '\n' ' ') | $(ls /verif/seeded/$p/m2 | tr '\n' ' ')"
done
