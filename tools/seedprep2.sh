#!/bin/sh
# second-round worktrees: tools/seedprep2.sh C01 C02 ...
for p in "$@"; do
  git -C /repo worktree add --detach /tmp/seed2-$p HEAD -q 2>&1 | tail -1
  mkdir -p /tmp/seed2-$p-out
  cp /verif/tmp/seedprompts/$p-r2.txt /tmp/seed2-$p-out/TASK.md
done
