#!/bin/sh
# usage: tools/seedingest.sh <ID> <m> <worktree>
# Copies a sub-agent's seed_out/ (patch.diff, demo.rs, meta.json) into seeded/<ID>/<m>/,
# checks that the patch applies to /repo, and removes the scratch worktree.
set -eu
id=$1; m=$2; wt=$3
d=/verif/seeded/$id/$m
mkdir -p "$d"
cp "$wt"/seed_out/patch.diff "$wt"/seed_out/meta.json "$d"/
cp "$wt"/seed_out/demo.* "$d"/ 2>/dev/null || true
git -C /repo apply --check "$d/patch.diff"
git -C /repo worktree remove --force "$wt"
echo "ingested $id/$m"
