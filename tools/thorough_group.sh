#!/bin/sh
# usage (inside a `vp run --with-repo` snapshot): tools/thorough_group.sh C01 C02 ...
# Points the harness at the repo snapshot and runs the thorough tier of each property in turn.
set -u
if [ -n "${VP_RUN_REPO:-}" ]; then
  sed -i "s#\"/repo#\"$VP_RUN_REPO#g" harness/Cargo.toml
fi
for p in "$@"; do
  echo "=== $p $(date +%H:%M:%S)"
  VERIF_TIER=thorough ./check $p --tier thorough 2>&1 | grep -E "^# $p|VIOLATION|KNOWN-FINDING|INCONCLUSIVE|rc=[1-9]|timed_out=True" | cut -c1-300
done
echo "=== done $(date +%H:%M:%S)"
