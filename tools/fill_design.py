#!/usr/bin/env python3
"""Regenerate the seeded-changes table in DESIGN.md (between the SEEDED-TABLE markers)."""
import os
import subprocess
import sys

ROOT = os.path.dirname(os.path.dirname(os.path.abspath(__file__)))
p = os.path.join(ROOT, "DESIGN.md")
s = open(p).read()
a = s.index("<!-- SEEDED-TABLE-BEGIN -->") + len("<!-- SEEDED-TABLE-BEGIN -->")
b = s.index("<!-- SEEDED-TABLE-END -->")
table = subprocess.run([sys.executable, os.path.join(ROOT, "tools", "seedtable.py")], capture_output=True, text=True).stdout
open(p, "w").write(s[:a] + "\n" + table + s[b:])
print("DESIGN.md section 7 table regenerated")
