#!/usr/bin/env python3
"""Print the markdown table of seeded changes and which checks caught them
(from seeded/<ID>/<m>/{meta.json,result.json}). Used for DESIGN.md section 7."""
import glob
import json
import os

VERIF = os.path.dirname(os.path.dirname(os.path.abspath(__file__)))


def main():
    rows = []
    n = caught = 0
    for d in sorted(glob.glob(os.path.join(VERIF, "seeded", "C*", "m*"))):
        meta = json.load(open(os.path.join(d, "meta.json")))
        rp = os.path.join(d, "result.json")
        res = json.load(open(rp)) if os.path.exists(rp) else {"runs": {}}
        pid = os.path.basename(os.path.dirname(d))
        m = os.path.basename(d)
        det = []
        missed = []
        for key, r in sorted(res.get("runs", {}).items()):
            prop, tier, seed = key.split(":")
            label = prop + ("" if tier == "quick" else "(" + tier + ")")
            if r.get("detected"):
                if label not in det:
                    det.append(label)
            elif r.get("exit") == 0:
                if label not in missed:
                    missed.append(label)
            else:
                missed.append(label + "?exit" + str(r.get("exit")))
        missed = [x for x in missed if x not in det]
        n += 1
        if det:
            caught += 1
        mech = meta.get("mechanism", "").replace("|", "/").replace("\n", " ")
        if len(mech) > 230:
            mech = mech[:227] + "..."
        files = ", ".join(os.path.basename(f) for f in meta.get("files", []))
        note = res.get("note", "")
        rows.append(f"| {pid}/{m} | {files} | {mech} | {', '.join(det) or '-'} | {', '.join(missed) or '-'} | {note} |")
    print(f"{caught} of {n} seeded changes are reported by at least one registered check.\n")
    print("| change | file(s) | what was changed | caught by | run, silent | note |")
    print("|---|---|---|---|---|---|")
    for r in rows:
        print(r)


if __name__ == "__main__":
    main()
