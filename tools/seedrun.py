#!/usr/bin/env python3
"""Run registered checks against a seeded change.

usage: tools/seedrun.py <seeded dir> [--props C01,C15] [--tier quick|thorough] [--seed N]

<seeded dir> is /verif/seeded/<ID>/<mutation>/ holding patch.diff and meta.json.
The patch is applied to /repo's working tree (which must be clean), the checks
are run, and the patch is undone again whatever happens. The outcome is written
to <seeded dir>/result.json. Nothing is ever committed to /repo.
"""
import json
import os
import subprocess
import sys
import time

REPO = "/repo"
VERIF = os.path.dirname(os.path.dirname(os.path.abspath(__file__)))


def sh(cmd, **kw):
    return subprocess.run(cmd, shell=True, stdout=subprocess.PIPE, stderr=subprocess.STDOUT, text=True, **kw)


def main():
    args = sys.argv[1:]
    if not args:
        print(__doc__)
        return 2
    d = os.path.abspath(args[0])
    props = None
    tier = "quick"
    seed = os.environ.get("VERIF_SEED", "1")
    i = 1
    while i < len(args):
        if args[i] == "--props":
            props = args[i + 1].split(",")
            i += 2
        elif args[i] == "--tier":
            tier = args[i + 1]
            i += 2
        elif args[i] == "--seed":
            seed = args[i + 1]
            i += 2
        else:
            raise SystemExit("unknown arg " + args[i])
    meta = json.load(open(os.path.join(d, "meta.json")))
    if props is None:
        props = [meta["property"]]
    patch = os.path.join(d, "patch.diff")
    dirty = sh(f"git -C {REPO} status --porcelain --untracked-files=no").stdout.strip()
    if dirty:
        print("refusing: /repo working tree is not clean:\n" + dirty)
        return 2
    r = sh(f"git -C {REPO} apply --check {patch}")
    if r.returncode != 0:
        print("patch does not apply:\n" + r.stdout)
        return 2
    results = {}
    sh(f"git -C {REPO} apply {patch}")
    try:
        for p in props:
            t0 = time.time()
            env = dict(os.environ, VERIF_SEED=str(seed))
            r = sh(f"{VERIF}/check {p} --tier {tier}", env=env, cwd=VERIF)
            lines = r.stdout.splitlines()
            viol = [l for l in lines if l.startswith("VIOLATION")]
            inconc = [l for l in lines if l.startswith("INCONCLUSIVE")]
            summary = [l for l in lines if l.startswith(f"# {p} ")]
            sigs = []
            for v in viol[:6]:
                path = v.split("replay=")[-1].strip()
                try:
                    w = json.load(open(path))
                    sigs.append({"signature": w.get("signature", "")[:300], "summary": w.get("summary", "")[:400]})
                except Exception:
                    pass
            results[p] = {
                "exit": r.returncode,
                "detected": r.returncode == 1 and bool(viol),
                "violations": len(viol),
                "inconclusive": inconc[:3],
                "wall_s": round(time.time() - t0, 1),
                "summary_line": summary[-1] if summary else "",
                "first_violations": sigs,
                "tail": lines[-6:] if r.returncode not in (0, 1) else [],
            }
            print(f"{os.path.relpath(d, VERIF)} {p} {tier}: exit={r.returncode} violations={len(viol)} wall={results[p]['wall_s']}s")
            for s in sigs[:2]:
                print("   ", s["signature"][:160])
                print("      ", s["summary"][:240])
    finally:
        sh(f"git -C {REPO} checkout -- .")
    out = os.path.join(d, "result.json")
    prev = {}
    if os.path.exists(out):
        try:
            prev = json.load(open(out))
        except Exception:
            prev = {}
    prev.setdefault("runs", {})
    for p, v in results.items():
        prev["runs"][f"{p}:{tier}:seed{seed}"] = v
    prev["repo_head"] = sh(f"git -C {REPO} rev-parse --short HEAD").stdout.strip()
    json.dump(prev, open(out, "w"), indent=1)
    return 0


if __name__ == "__main__":
    sys.exit(main())
