#!/usr/bin/env python3
"""Regenerate MANIFEST.json from checks_table.py and the texts below."""
import json, os, sys
ROOT = os.path.dirname(os.path.dirname(os.path.abspath(__file__)))
sys.path.insert(0, ROOT)
from checks_table import PROPS

T = {
 "C01": ("differential monitoring: optimised / shape-inferred loads vs the un-optimised load, graph-rewrite observed through a hook",
         "Exploration: thousands (quick) to hundreds of thousands (thorough) of generated ONNX models - one family per graph rewrite in the optimiser with near-miss grids, shape-arithmetic chains, random DAGs - each loaded under {optimise} x {shape inference off/on/strict} and run on several input bindings; outputs must equal the un-optimised load's. Evidence counts the runs in which the optimiser provably rewrote the graph.",
         "A defect shared by all configurations is invisible (C15 covers operator semantics). Reach is the generator's reach."),
 "C02": ("differential monitoring of execution strategies vs an operator-at-a-time reference; executor events observed through a hook",
         "Exploration: random DAGs and control-flow models run under dozens of strategies each (owned/borrowed inputs, pool on/off, 1-16 threads, prepacked weights, optimisation, extra outputs, output order); each result compared with an operator-at-a-time evaluation through the public API and with sibling strategies bit-exactly. Evidence counts cases where in-place decisions really differed between strategies.",
         "The reference runs rten's own operators one at a time; operator semantics themselves are C15's business."),
 "C03": ("bounded-exhaustive and random planning requests validated by an independent dependency relation; executor cross-check; child-process termination probe",
         "Exploration, exhaustive within bounds: all graphs with <=2 (quick) / <=3 (thorough) mock operators and up to 6 values (cycles included), every input subset, output list and option combination, plus random graphs and long chains; every plan validated step by step (once, ready, complete, minimal), every unplannable request refused, validated plans executed, planning observed to return.",
         "Not proof beyond the bounds; graphs with two producers per value and constants as operator outputs are not generated."),
 "C04": ("closed-loop differential monitoring: run(partial_run(S) + rest) vs run(all); taint check for random operators",
         "Exploration: for generated DAGs (optimised and not) and every subset of inputs, the values partial_run returns are fed back and the result compared with a single full run; models containing unseeded random operators are checked for random values leaking into partial_run results or being folded at load time.",
         "Random-operator reachability is computed by the generator."),
 "C05": ("structure-aware mutation of valid ONNX and .rten models run through the real loader in forked batch children (panic capture, abort/signal/alarm capture, allocation-request monitor, ASan), plus a well-formedness monitor over every constant of every loaded model via the graph hook",
         "Exploration: tens of thousands (quick) to millions (thorough) of mutants of generated ONNX models, the repo's .rten files and .rten files built with the schema builders (V1/V2, inline and offset constants) - extreme dims, short/long raw data, swapped types, extreme varints, header offsets around the file size and 2^64, dangling node indices, byte noise - each loaded through Model load (optimiser on/off, pre-packing), load_file and load_mmap. Every model that loads has all its constants (sub-graphs included) checked: checked 128-bit shape product vs reported length vs backing storage, all elements read (an out-of-bounds detector under ASan), constants re-requested through run(), and the model run once.",
         "Allocation failure is simulated at 1 GiB; time-outs are wall-clock with confirmation; run-time behaviour of loaded models is not judged; mmap over-reads inside the last page are invisible."),
 "C06": ("address monitor + AddressSanitizer + Miri over random safe-API programs; constructor acceptance vs 128-bit arithmetic",
         "Exploration: adversarial constructor calls, view-operation chains and iterator histories run natively with every handed-out reference address-checked before use, and again under ASan and Miri (Stacked Borrows, bounds, uninitialised reads).",
         "Trusts the harness's u128 extent computation; ASan misses non-instrumented and far accesses, which the address monitor and Miri cover for the generic code paths."),
 "C07": ("reference deque model over recorded iterator histories; bounded-exhaustive small histories; Miri",
         "Exploration: random and bounded-exhaustive histories of next/next_back/nth/len/split_at/fold over every iterator kind on harness-built layouts compared item by item with a double-ended-queue model, plus rayon parallel consumption; mutable iterators stamp through every retained reference.",
         "Expected sequences are computed from shape/strides by the harness, not by rten."),
 "C08": ("brute-force injectivity oracle over exhaustive small grids and wrapping strides",
         "Exploration: every (shape, strides) pair in a small grid plus large/wrapping strides and random higher ranks decided by enumerating all indices in 128-bit arithmetic; layouts derived from contiguous tensors through rten's own operations must be accepted.",
         "Grid bounds limit what is enumerated."),
 "C09": ("step-by-step comparison with a naive nd-array reference model",
         "Exploration: random chains of layout operations on contiguous and non-contiguous sources, each intermediate compared with a naive shape+Vec model through get(), iter() and to_vec().",
         "The naive model's numpy-style slicing semantics are the reference."),
 "C10": ("runtime monitoring of shape-inference claims against execution: symbolic tensors captured from the real inference driver through a hook, evaluated under the symbol binding of concrete runs",
         "Exploration: tens of thousands (quick) to hundreds of thousands (thorough) of generated models - every catalogue operator alone with fixed/symbolic/mixed input declarations and all attribute settings, shape-arithmetic chains (Shape/Gather/Concat/arithmetic/Equal/Where/Range with negated and scaled dims), fusion patterns, control flow, random DAGs - run with every value requested; each claimed rank, fixed or symbolic dimension and element value is evaluated exactly and compared with the value execution produced. Evidence counts decided claims per operator.",
         "Reach is the generator's catalogue and the shapes it draws; a claim that is not decidable (unbound synthetic symbol, i32 overflow, division by zero) is counted, not judged."),
 "C11": ("reference-model monitoring: 128-bit evaluator vs simplify/range/is_positive on exhaustive and random expressions",
         "Exploration, exhaustive for depth <= 2: all 26.8M expression trees over nine operators and 15 leaves, rewrite-rule templates and seeded random trees to depth 5, each evaluated on a grid of admissible assignments.",
         "Negative inexact Div quotients (doc says floor, implementation truncates) and overflow inside the simplified expression are excluded / read leniently."),
 "C12": ("invariant monitoring: declared output-type rule and node_info type vs the dtype actually produced",
         "Exploration: every operator/attribute/dtype case of the generator's catalogue is run; the operator's output-type rule (read through a hook) and the public node_info dtype are compared with the produced dtype.",
         "Catalogue operators only; sequence operators are not generated."),
 "C13": ("differential monitoring: owned (in-place) vs borrowed execution, with the in-place path confirmed by executor events",
         "Exploration: every catalogue case whose operator declares in-place inputs is run with the designated input owned (exact, spare capacity, permuted) and compared bit-exactly with the borrowed run; commutative operators are also called with swapped operands.",
         "Cases where the executor chose not to run in place are counted separately."),
 "C14": ("differential monitoring across input memory layouts",
         "Exploration: every catalogue case re-run with each input as a permuted view, a stepped slice of a poisoned buffer and a broadcast view; compared with the contiguous run.",
         "Accumulating operators are compared with a tolerance, others bit-exactly."),
 "C15": ("reference-semantics monitoring against a numpy transcription of the ONNX operator specifications",
         "Exploration: ~115 operators x sampled attributes, opsets, shapes, dtypes and special values; rten's un-optimised output compared with a naive numpy reference.",
         "The reference is new code written from the spec; settings rten refuses with an error are counted as unsupported; unspecified corners are not generated."),
 "C16": ("f64 reference oracle, poisoned outputs, guard pages in forked children, ASan, Miri (generic kernel)",
         "Exploration: every f32 kernel the hook reports run on generated problems covering tile-boundary shapes, layouts, alpha/beta/bias, prepacked/im2col forms and the three APIs; every output element compared with an f64 reference under a forward error bound; outputs pre-poisoned so unwritten elements and beta=0 leaks are visible; a quarter of the problems run flush against PROT_NONE pages.",
         "Kernels limited to those usable on the host (Generic, Fma, Avx512). NaN/inf operands are not generated."),
 "C17": ("exact i64 reference oracle for every int8 kernel; guard pages; quantize round trip through public functions",
         "Exploration: every u8 x i8 -> i32 kernel on problems with per-row/per-column zero points and extreme values, exact where the kernel cannot saturate or operands are in the reduced range; DynamicQuantizeLinear followed by DequantizeLinear within one step.",
         "MatMulInteger/ConvInteger operators are covered by the model-level checks; full-range results on a saturating kernel are only counted."),
 "C18": ("scalar-definition oracle, cross-ISA comparison, PROT_NONE guard pages and canaries in a forked child",
         "Exploration: every primitive of the public rten-simd traits x element type x ISA (generic, AVX2, AVX-512) compared lane by lane with a scalar definition (exhaustive for 8-bit, sampled/exhaustive 16-bit); 19 slice helpers run for lengths 0..=4*lanes+3 flush against guard pages and between canaries.",
         "Cases the docs leave unspecified are skipped or only compared across ISAs. No aarch64 / wasm."),
 "C19": ("differential monitoring against two references over structured (quick) / all 2^32 (thorough) bit patterns",
         "Exploration, exhaustive in thorough: Exp, Sigmoid, Tanh, Erf, Sin, Cos under each ISA checked with the in-tree tests' own error definition and bounds; a violation only when the bound fails against both the f32 and the f64 reference. Softmax non-negativity and sum.",
         "Sign of zero not compared; Sin/Cos bounded only on |x| <= 48000."),
 "C21": ("invariant monitoring of the real loaders in forked children plus system-call monitoring (strace -f open/openat/openat2) of loading processes, with a harness-made positive control; ASan on the result monitor in thorough",
         "Exploration: generated ONNX models with external initialisers (8 dtypes, shapes equal/smaller/larger than the range) loaded through load_file, load_mmap and external_data+load from a scratch tree (recognised/unrecognised/nested/backslash/unicode/255-byte/empty/symlinked names, secret.data one level up, cwd outside the model dir); ~150 hand-written locations, a component grammar over '/' and '\\', name mutations, random strings, an offset x length grid with 2^31/2^32/2^63/2^64-1, negative, non-numeric and u64-wrapping sums. Load Ok implies an acceptable single file name that exists in the model directory, a range inside the file (u128) and constant == file[offset..offset+length] read back two ways; anything else must be Err (panic/abort/signal/hang flagged); every successful open in a traced load must be <model dir>/<one acceptable component>.",
         "Unix host only; symlink targets, extension-prefix names (w.database), NUL and non-UTF-8 locations are counted, not judged; a refusal of an acceptable case is never flagged."),
 "C22": ("concurrent stress against precomputed sequential results; plan-cache events and seeded yields through hooks; ThreadSanitizer in thorough",
         "Exploration: 2-8 threads share one model and issue run/partial_run requests with mutually different plan keys (forcing plan-cache replacement, also in nested subgraph caches) with seeded delays between plan hand-off and execution; every result compared bit-exactly with the same request executed alone. Evidence counts plan replacements that happened while another call was in flight and distinct event interleavings.",
         "Schedules are sampled, not enumerated; an unfinished group is inconclusive."),
 "C23": ("real-thread stress with seeded schedule perturbation at in-crate yield points; ownership ledger; layout-checking counting allocator; ASan (quick), TSan and Miri (thorough)",
         "Exploration: thousands of multi-threaded alloc/add/drop histories over 11 element types on one BufferPool; every hand-out checked for capacity, alignment, allocation layout and exclusive ownership; every free checked against its allocation layout; nothing leaked.",
         "Interleavings are sampled, not enumerated; the pool mutex is not model-checked."),
 "C24": ("differential monitoring: control-flow model vs generator-inlined model; capture mode observed through executor events",
         "Exploration: generated If/Loop models (nested, captures of inputs/constants/node outputs, reuse after the operator, trip counts and early exits, scan outputs) compared with the inlined equivalent, un-optimised bit-exactly and optimised within tolerance, inputs borrowed and owned.",
         "Zero-iteration loops with scan outputs are not generated."),
 "C25": ("invariant monitoring over run histories: byte snapshots of borrowed inputs and constants, first == last",
         "Exploration: histories of runs with varying inputs/outputs/ownership per generated model; repeat of the first request must be bit-identical, borrowed storage (including gaps) and constants unchanged.",
         "Deterministic operators only."),
 "C26": ("fault enumeration of invalid run requests with panic capture",
         "Exploration: every generated model's valid request mutated in ten ways (unknown/operator/duplicate ids, missing input, wrong dtype/rank/fixed dim) through run and partial_run; each must return Err without panicking.",
         "A missing input is only counted, since whether it is required depends on the requested outputs."),
 "C27": ("round-trip and offset invariant monitoring with trainer-produced merge tables",
         "Exploration: byte-level BPE tokenizers built through every construction route and pre-tokenizer family, random Unicode texts; decode(encode(t)) == t and offset invariants.",
         "Lossy configurations (end-of-word suffix, removing splits, text-changing normalizers) are excluded."),
 "C28": ("bounded-exhaustive differential monitoring against the reference merge procedure",
         "Exploration, exhaustive within bounds: all merge tables of <=2 (quick) / <=3 (thorough) rules over five operands x all inputs of length <=6/7, plus random larger alphabets.",
         "Not a proof beyond the bounded space."),
 "C29": ("window reconstruction from the un-chunked encoding",
         "Exploration: WordPiece and BPE tokenizers, single and paired inputs, all limits and overlaps; chunk lengths, contiguity, exact overlap and coverage checked at forced window positions.",
         "No-room corner cases are counted, not flagged."),
 "C30": ("invariant monitoring of normalizer offset maps and tokenizer offsets",
         "Exploration: every normalizer type and sequences of them, directly and through tokenizer.json configs; structural invariants of the offset map.",
         "Exactness of each offset is not checked."),
 "C31": ("reference monitoring against a sort-based oracle under each forced ISA; panic capture",
         "Exploration: every logit filter on dense/sparse logits of length 0-70 (NaN, inf, ties) under generic/AVX2/AVX-512; systematic (n,K), (n,p) and chain-order grids plus random cases.",
         "Sign of zero and NaN payload ignored in the order."),
 "C32": ("recording mock model + reference state machine over exhaustive bounded histories",
         "Exploration, exhaustive for histories <=4 (quick) / <=6 (thorough): six mock models (KV-cache layouts, encoder-decoder, no cache); every run call's ids, positions and cache stamps compared with the reference; prev_tokens after every operation.",
         "A mock stands in for rten::Model."),
 "C33": ("invariant monitoring plus a deterministic directed search for zero-probability picks",
         "Exploration: ArgMax maximality and Multinomial membership/non-zero probability/seed reproducibility on 1-200 candidates under three ISAs.",
         "NaN/+inf logits and all -inf sets are outside the statement."),
 "C34": ("differential round trip against a naive array model; spec-built NumPy files; format-aware malformed-file fuzzing in children with catch_unwind, alarm and allocation monitor; ASan in thorough",
         "Exploration: round trips per format and dtype from contiguous, permuted, sliced and broadcast sources read back with the same shape, dtype and elements; mutated files read without panic, abort or hang.",
         "Allocation amplification on malformed input is recorded, not judged."),
 "C35": ("exact (i128) and toleranced geometric oracles over exhaustive small grids and random point sets",
         "Exploration, exhaustive for small grids: convex_hull, min_area_rect, simplify_polyline/polygon checked against the stated geometric properties.",
         "A hull wrong by less than 5e-3*max|coord| on non-integer input is accepted."),
 "C36": ("exhaustive small-mask enumeration against a flood-fill labelling; drawing on guard-page-backed images in forked children with before/after diffs",
         "Exploration, exhaustive for masks up to 4x4 (quick) / 5x5 (thorough): contours compared with an independent component labelling; drawing primitives with coordinates far outside the image must only change pixels inside the clipped shape bounds, faults observed as signals.",
         "The strict reading that stroke_rect stays inside the rect is counted, not asserted."),
 "C37": ("reference oracle: dequantize-then-multiply in f64, with forced ISAs; guard pages",
         "Exploration: BlockQuantizedGemm (Float under generic/AVX2/AVX-512, Int8) and GemmExecutor with a block-quantized B vs dequantize-then-multiply in f64; a wrong scales shape must not fault or return unwritten output.",
         "Zero points and partial blocks exist only at the MatMulNBits operator."),
 "C38": ("counting reader and byte-level I/O monitors (logical linear-time bounds), catch_unwind, global-allocator monitor, forked children, ASan; Miri in thorough",
         "Exploration: structure-aware mutants of valid ONNX models (hostile lengths at every length site, wire types, varints, deep nesting, byte noise) decoded from a buffer, a file and through the sniffing path; position monotonic, bytes read <= 2*len, calls <= 4*len, no allocation sized by a length beyond the input, Err whenever a field exceeds the rest of the input.",
         "Clock-free bounds; timeouts are never verdicts; lengths exceeding only the enclosing message are not judged."),
 "C39": ("reference monitoring against brute-force alignment enumeration and the forward algorithm in f64",
         "Exploration: greedy and beam decoding on small matrices (exact enumeration) and larger ones (forward algorithm); distinctness, finiteness, upper bound and exactness when nothing is pruned.",
         "Tolerance scaled with T for long f32 log-sum-exp chains."),
}

ENGINES = {
 "tensorcheck": "random and bounded-exhaustive API programs against rten-tensor (address monitor, deque model, injectivity oracle, naive nd-array); native, ASan, Miri",
 "modelcheck": "model-level monitors driven by case packs from gen/modelgen.py (differential, reference, invariant oracles; executor events through hooks)",
 "symcheck": "SymExpr simplify/range/is_positive vs a 128-bit reference evaluator",
 "simdcheck": "SIMD primitives and vectorised math under each ISA; guard pages",
 "textcheck": "tokenizer / normalizer monitors",
 "gencheck": "logit filters, samplers, generator histories",
 "ctccheck": "CTC decoding vs exact references",
 "plancheck": "execution planner vs an independent dependency relation",
 "poolcheck": "buffer pool under real threads with ledger and counting allocator",
 "gemmcheck": "GEMM kernels vs f64 / exact integer references; poison and guard pages",
 "loadfuzz": "structure-aware fuzzing of model / tensor file loaders with counting reader and allocation monitor",
 "imgcheck": "geometry and image monitors",
}

def main():
    man = json.load(open(os.path.join(ROOT, "MANIFEST.json")))
    props = [json.loads(l) for l in open(os.path.join(ROOT, "properties.jsonl"))]
    checks = []
    engines = {}
    for pid in sorted(PROPS):
        if pid not in T:
            continue
        tech, text, note = T[pid]
        spec = PROPS[pid]
        eng = spec["steps"][0]["bin"]
        engines.setdefault(eng, []).append(pid)
        flav = sorted({s.get("flavour", "native") for s in spec["steps"]})
        checks.append({
            "property_id": pid,
            "quick_cmd": f"./check {pid} --tier quick",
            "thorough_cmd": f"./check {pid} --tier thorough",
            "evidence_file": f"/verif/evidence/{pid}.json",
            "replay_cmd_template": f"./check {pid} --replay {{path}}",
            "engine": eng,
            "level_claimed": {"category": "exploration", "text": text + f" Build flavours: {', '.join(flav)}.", "design_ref": f"DESIGN.md section 3 {pid}"},
            "level_note": note,
            "technique": tech,
        })
    man["checks"] = checks
    man["engines"] = [{"name": e, "path": f"harness/src/bin/{e}", "serves_properties": sorted(p), "kind_free_text": ENGINES.get(e, "")} for e, p in sorted(engines.items())]
    claimed = {c["property_id"] for c in checks}
    na = []
    for p in props:
        if p["id"] in claimed:
            continue
        if p["id"] == "C20":
            na.append({"property_id": "C20", "reason": "rten-convert cannot run in this sandbox: the python packages onnx and flatbuffers it imports are absent from every interpreter and from the offline wheelhouse (DESIGN.md section 4)"})
        else:
            na.append({"property_id": p["id"], "reason": "check not registered yet (engine under construction; see DESIGN.md)"})
    man["not_applicable"] = na
    json.dump(man, open(os.path.join(ROOT, "MANIFEST.json"), "w"), indent=1)
    print(f"{len(checks)} checks, {len(na)} not applicable")

main()
