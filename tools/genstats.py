#!/usr/bin/env python3-vt
"""Produced / attempted cases per pattern family: a family that produces nothing
(or far fewer cases than it attempts) points at a reference that raises for every
binding, which the generator would otherwise drop silently."""
import collections
import os
import sys
import warnings

warnings.filterwarnings("ignore")
sys.path.insert(0, os.path.join(os.path.dirname(os.path.dirname(os.path.abspath(__file__))), "gen"))
from onnxgen import patterns  # noqa: E402
from onnxgen.core import Invalid, Rng  # noqa: E402

tot, ok = collections.Counter(), collections.Counter()
for fi, (name, fam) in enumerate(patterns.FAMILIES):
    rng = Rng(9176 + fi)
    try:
        for g, variant, outs in fam(rng):
            tot[name] += 1
            try:
                rec = patterns.finish(g, rng, "x", name, variant, outs)
            except Invalid:
                rec = None
            if rec is not None:
                ok[name] += 1
    except Invalid:
        pass
bad = 0
for n in tot:
    flag = "" if ok[n] * 2 >= tot[n] else "   <-- mostly dropped"
    bad += bool(flag)
    print(f"{n:24s} {ok[n]:5d} / {tot[n]:5d}{flag}")
sys.exit(1 if bad else 0)
