"""Per-property check definitions used by ./check.

Each entry: steps = list of engine invocations. A step has
  bin      engine binary (harness/src/bin/<bin>)
  args     sub-command and fixed arguments
  flavour  native | asan | tsan | miri            (default native)
  tiers    which tiers run it                      (default both)
  shards   number of parallel processes            (default 1)
  extra    {tier: {key: value}} extra --key value arguments (e.g. n = budget)
  timeout  {tier: seconds}
floor = minimum number of distinct non-trivial cases below which the run is
inconclusive.
"""

Q, T = "quick", "thorough"


def native(bin_, args, shards=1, **kw):
    return dict(bin=bin_, args=args, flavour="native", shards=shards, **kw)


def asan(bin_, args, shards=1, **kw):
    return dict(bin=bin_, args=args, flavour="asan", shards=shards, **kw)


def tsan(bin_, args, shards=1, **kw):
    return dict(bin=bin_, args=args, flavour="tsan", shards=shards, **kw)


def miri(bin_, args, shards=1, **kw):
    return dict(bin=bin_, args=args, flavour="miri", shards=shards, **kw)


PROPS = {
    "C06": dict(
        steps=[
            native("tensorcheck", ["safety"], shards=4),
            asan("tensorcheck", ["safety"], shards=4, extra={Q: {"n": 20000}, T: {"n": 1000000}}),
            miri("tensorcheck", ["safety"], shards=6, extra={Q: {"n": 240}, T: {"n": 6000}},
                 timeout={Q: 1500, T: 6 * 3600}),
        ],
        floor={Q: 1000, T: 100000},
        parallel_steps=3,
        assumptions=[
            "the harness's 128-bit extent computation and address arithmetic are correct",
            "ASan only sees heap accesses it instruments; Miri runs the generic (non-SIMD) code paths",
        ],
    ),
    "C07": dict(
        steps=[
            native("tensorcheck", ["iters"], shards=4),
            miri("tensorcheck", ["iters"], shards=6, extra={Q: {"n": 240}, T: {"n": 6000}},
                 timeout={Q: 1500, T: 6 * 3600}),
        ],
        floor={Q: 1000, T: 100000},
        parallel_steps=2,
        assumptions=["expected sequences are computed by the harness from shape and strides, independently of rten's layout code"],
    ),
    "C08": dict(
        steps=[native("tensorcheck", ["overlap"], shards=4)],
        floor={Q: 1000, T: 100000},
        assumptions=["brute-force injectivity over all indices in u128 arithmetic is the ground truth"],
    ),
    "C09": dict(
        steps=[native("tensorcheck", ["model"], shards=4)],
        floor={Q: 1000, T: 100000},
        assumptions=["the naive nd-array in harness/src/naive.rs (numpy slicing semantics) is the reference"],
    ),
    "C15": dict(
        gen=dict(script="modelgen.py", args=["--family", "singleop"]),
        steps=[native("modelcheck", ["c15"], shards=4)],
        floor={Q: 1000, T: 5000},
        assumptions=[
            "the numpy transcription of the ONNX operator specifications in gen/onnxgen/ops.py is the reference (the onnx package's reference implementation is not installed)",
            "operator/attribute settings that rten refuses with an error are counted as unsupported, not as violations",
            "inputs for which the specification leaves the result open (NaN ordering in max/min/top-k style operators, out-of-range casts, align_corners with a size-1 output, Gemm with beta=0 and non-finite C) are not generated",
        ],
    ),
    "C01": dict(
        gen=dict(script="modelgen.py", args=["--family", "patterns,dag"]),
        steps=[native("modelcheck", ["c01"], shards=8)],
        floor={Q: 2000, T: 50000},
        assumptions=[
            "the un-optimised load without shape inference is the baseline; a defect shared by every configuration is invisible here (C15 covers operator semantics)",
            "float tolerance 1e-4 + 1e-3*|b| (fused kernels may reassociate); generated constants are either exact pattern constants or off by >= 1e-2",
        ],
    ),
    "C11": dict(
        steps=[native("symcheck", ["c11"], shards=4)],
        floor={Q: 100000, T: 1000000},
        assumptions=[
            "the harness's 128-bit evaluator of the ORIGINAL expression is the reference",
            "Div is compared only where flooring (documented) and truncation (implemented) agree; Broadcast only on operands >= 0 that are equal or 1, excluding (0,1)",
            "a simplified expression that itself overflows i32 is accepted if exact or wrapped evaluation at that node yields the reference value",
        ],
    ),
    "C12": dict(
        gen=dict(script="modelgen.py", args=["--family", "singleop"]),
        steps=[native("modelcheck", ["c12"], shards=4)],
        floor={Q: 40, T: 60},
        assumptions=["operators and attribute settings come from the generator's catalogue (gen/onnxgen/ops.py); sequence operators and control flow are not in it"],
    ),
    "C13": dict(
        gen=dict(script="modelgen.py", args=["--family", "singleop"]),
        steps=[native("modelcheck", ["c13"], shards=4)],
        floor={Q: 1000, T: 10000},
        assumptions=["in-place execution is driven through Model::run with an owned input; whether it really happened is read from the executor's OpRun event (hook)"],
    ),
    "C14": dict(
        gen=dict(script="modelgen.py", args=["--family", "singleop"]),
        steps=[native("modelcheck", ["c14"], shards=4)],
        floor={Q: 1000, T: 10000},
        assumptions=["matmul/conv/reduction/normalisation operators are compared with an accumulation tolerance, everything else bit-exactly"],
    ),
    "C18": dict(
        steps=[native("simdcheck", ["isa"], timeout={Q: 600, T: 3 * 3600})],
        floor={Q: 1500, T: 1500},
        assumptions=["scalar definitions in simdcheck/oracle.rs are written from the trait doc comments",
                     "cases the docs leave open are skipped or only compared across ISAs (listed in oracle.rs)",
                     "guard pages see any access outside the page-flush side; the other side is covered by canaries and the opposite placement"],
    ),
    "C19": dict(
        steps=[native("simdcheck", ["math"], timeout={Q: 600, T: 3 * 3600})],
        floor={Q: 5000, T: 5000},
        assumptions=["an argument is a violation only if the documented bound fails against both the in-tree f32 reference and the libm-crate f64 reference rounded to f32",
                     "ULP and absolute error definitions copied from rten-vecmath/src/testing.rs and ulp.rs"],
    ),
    "C27": dict(steps=[native("textcheck", ["c27"], shards=4)], floor={Q: 2000, T: 100000},
        assumptions=["harness GPT-2 byte table and BPE trainer are independent of rten",
                     "round trip is only promised when a configured normalizer leaves the text unchanged; Remove-type splits are only generated with patterns that match every character"]),
    "C28": dict(steps=[native("textcheck", ["c28"], shards=4)], floor={Q: 10000, T: 500000},
        assumptions=["the string-level reference (lowest rank, leftmost, one occurrence at a time) is the ground truth; tables with duplicate pairs are not generated"]),
    "C29": dict(steps=[native("textcheck", ["c29"], shards=4)], floor={Q: 2000, T: 100000},
        assumptions=["for pairs the statement is read as: windows of the second sequence, an identical prefix of the first sequence repeated in every chunk"]),
    "C30": dict(steps=[native("textcheck", ["c30"], shards=4)], floor={Q: 5000, T: 500000},
        assumptions=["only the structural invariants of the statement are checked, not that each offset points at the character the byte was derived from"]),
    "C31": dict(steps=[native("gencheck", ["c31"], shards=4)], floor={Q: 20000, T: 1000000},
        assumptions=["f32::total_cmp ordering with zero sign / NaN payload ignored is the reference",
                     "top-p thresholds decided exactly where all partial sums are f32-exact, else with a 5e-5 band"]),
    "C32": dict(steps=[native("gencheck", ["c32"], shards=1, timeout={Q: 600, T: 3600})], floor={Q: 2000, T: 500000},
        assumptions=["a mock Model stands in for rten::Model; the 30-line reference state machine is the specification"]),
    "C33": dict(steps=[native("gencheck", ["c33"], shards=4)], floor={Q: 300, T: 5000}),
    "C39": dict(steps=[native("ctccheck", ["c39"], shards=1, timeout={Q: 600, T: 3600})], floor={Q: 5000, T: 300000},
        assumptions=["f64 enumeration of all alignments / f64 forward algorithm are exact (they are cross-checked against each other on every small case)"]),
    "C02": dict(
        gen=dict(script="modelgen.py", args=["--family", "dag,cflow"]),
        steps=[native("modelcheck", ["c02"], shards=8)],
        floor={Q: 200, T: 5000},
        assumptions=["operator-at-a-time evaluation of the un-optimised model through Model::run (borrowed inputs, fresh pool, one operator per call) is the naive reference",
                     "float comparison with the reference uses 1e-4 + 1e-3*|b| because multi-threaded reductions may reorder; strategies in the same (threads, prepack, optimise) group are compared bit-exactly"],
    ),
    "C04": dict(
        gen=dict(script="modelgen.py", args=["--family", "dag,dagrand,cflow"]),
        steps=[native("modelcheck", ["c04"], shards=8)],
        floor={Q: 200, T: 5000},
        assumptions=["values downstream of random operators are identified by the generator's own reachability computation"],
    ),
    "C25": dict(
        gen=dict(script="modelgen.py", args=["--family", "dag,cflow"]),
        steps=[native("modelcheck", ["c25"], shards=8)],
        floor={Q: 200, T: 5000},
        assumptions=["borrowed-input immutability is observed on the bytes of the backing storage including gaps of stepped views; constants are read back through run([], [const])"],
    ),
    "C26": dict(
        gen=dict(script="modelgen.py", args=["--family", "dag,cflow"]),
        steps=[native("modelcheck", ["c26"], shards=8)],
        floor={Q: 2000, T: 50000},
        assumptions=["a request without a required input is only demanded to fail when run (not partial_run) is used and is otherwise counted, since whether an input is required depends on the requested outputs"],
    ),
    "C24": dict(
        gen=dict(script="modelgen.py", args=["--family", "cflow"]),
        steps=[native("modelcheck", ["c24"], shards=4)],
        floor={Q: 500, T: 10000},
        assumptions=["the inlined model is produced by the generator from the same body functions; a zero-iteration loop with a scan output is not generated (its shape is undefined and rten reports an error)"],
    ),
    "C03": dict(
        steps=[native("plancheck", ["c03"], shards=1, timeout={Q: 900, T: 3 * 3600})],
        floor={Q: 100000, T: 100000},
        assumptions=[
            "the harness's dependency relation (inputs + by-name captures; one producer per value) is the ground truth",
            "mock operators never fail",
            "a 0.7 s + 3 s time limit in a child process decides non-termination of planning graphs with <= 10 operators",
        ],
    ),
    "C23": dict(
        steps=[
            native("poolcheck", ["c23"], shards=4),
            asan("poolcheck", ["c23"], shards=4, extra={Q: {"n": 400}, T: {"n": 20000}}, env={"VERIF_TRACK": "0"}),
            tsan("poolcheck", ["c23"], tiers=(T,), shards=4, extra={T: {"n": 2000}}),
            miri("poolcheck", ["c23"], tiers=(T,), shards=8, extra={T: {"n": 256}}, timeout={T: 3600}),
        ],
        floor={Q: 500, T: 20000},
        parallel_steps=2,
        assumptions=[
            "a holder de-registers before it gives a buffer back, so a registered pointer returned by alloc is a genuine double hand-out",
            "all workload allocations happen inside track::scope",
            "ASan run has the tracker off",
        ],
    ),
    "C22": dict(
        gen=dict(script="modelgen.py", args=["--family", "dag,cflow"]),
        steps=[
            native("modelcheck", ["c22"], shards=4, extra={Q: {"n": 600}, T: {"n": 16000}}),
            tsan("modelcheck", ["c22"], tiers=(T,), shards=4, extra={T: {"n": 400}}, timeout={T: 7200}),
        ],
        floor={Q: 100, T: 2000},
        parallel_steps=1,
        assumptions=["each call uses its own single-thread pool so that results are comparable bit-exactly with the sequential run",
                     "a group of threads that does not finish within the watchdog makes the run inconclusive, never a violation",
                     "ThreadSanitizer reports whose stacks lie inside crossbeam-epoch (rayon's deque reclamation) are suppressed through harness/tsan.supp: the tool does not model the stand-alone fences it synchronises with; any other race report is a violation"],
    ),
    "C16": dict(steps=[native("gemmcheck", ["f32"], shards=8),
                       asan("gemmcheck", ["f32"], shards=4, tiers=(T,), extra={T: {"n": 60000}}),
                       miri("gemmcheck", ["f32"], shards=4, extra={Q: {"n": 100}, T: {"n": 3000}}, timeout={Q: 1500, T: 6 * 3600})],
                floor={Q: 3000, T: 300000}, parallel_steps=3,
                assumptions=["the f64 reference and the forward bound 4(K+2)eps*sum|a_i b_i| are the ground truth",
                             "guard pages see every access outside an operand; ASan only instrumented heap accesses; Miri runs the generic kernel only"]),
    "C17": dict(steps=[native("gemmcheck", ["int8"], shards=8),
                       asan("gemmcheck", ["int8"], shards=4, tiers=(T,), extra={T: {"n": 40000}})],
                floor={Q: 3000, T: 300000},
                assumptions=["exact i64 arithmetic is the reference", "a full-range result on a kernel reporting may_saturate() is not judged"]),
    "C37": dict(steps=[native("gemmcheck", ["bq"], shards=8),
                       asan("gemmcheck", ["bq"], shards=4, tiers=(T,), extra={T: {"n": 40000}})],
                floor={Q: 1500, T: 150000},
                assumptions=["int8-activation bound = 0.5*(block max|a|/127)*|w| per term, as implied by rten's per-block quantisation"]),
    "C38": dict(
        steps=[
            native("loadfuzz", ["c38"], shards=4, extra={T: {"n": 2000000}}, timeout={Q: 900, T: 4 * 3600}),
            asan("loadfuzz", ["c38"], shards=4, extra={Q: {"n": 1500}, T: {"n": 100000}}, timeout={Q: 1500, T: 4 * 3600}),
            miri("loadfuzz", ["c38"], shards=2, tiers=(T,), extra={T: {"n": 600}}, timeout={T: 6 * 3600}),
        ],
        floor={Q: 1000, T: 100000}, parallel_steps=2,
        assumptions=["the counting ReadValue/BufRead shims do not change decoder behaviour",
                     "the shadow schema table equals onnx.rs (self-tested on seeds and by trace equality)"]),
    "C34": dict(
        steps=[native("loadfuzz", ["c34"], shards=4),
               asan("loadfuzz", ["c34"], shards=2, tiers=(T,), extra={T: {"n": 100000}})],
        floor={Q: 1000, T: 100000},
        assumptions=["naive::Arr is the reference for source layouts", "spec-built npy files follow the NumPy format document"]),
    "C35": dict(steps=[native("imgcheck", ["c35"], shards=4)],
        floor={Q: 100000, T: 2000000},
        assumptions=["hull containment and convexity are decided in exact i128 arithmetic for integer coordinates |v|<=64 and in f64 with tolerance 5e-3*max|coord| otherwise; min_area_rect with 1e-3*(1+M) / 6e-3*M; simplification with epsilon + 1e-4*M + 1e-3*epsilon",
                     "collinear hull vertices and zero-width folds are accepted as convex; documented panics are 'no result'"]),
    "C36": dict(steps=[native("imgcheck", ["c36"], shards=4, timeout={Q: 600, T: 3600})],
        floor={Q: 50000, T: 1000000},
        assumptions=["'adjacent' is read as 8-adjacent to background or the image edge; in External mode a contour is required only for components not enclosed by another component",
                     "shape bounds: fill_rect = the rect; stroke_rect = rect grown by the stroke width; lines/polygons = inclusive vertex bounding box grown by the width when width > 1",
                     "coordinates with |c| > 2^30-8 are run on guard pages but bounds disagreements are only counted; index panics are 'no result'"]),
    "C10": dict(
        gen=dict(script="modelgen.py", args=["--family", "singleop,patterns,dag,cflow"]),
        steps=[native("modelcheck", ["c10"], shards=4)],
        floor={Q: 20000, T: 200000},
        assumptions=[
            "claims are read from the real graph-level driver through the capture_sym_values hook, i.e. after simplification and complexity capping, exactly as the optimiser consumes them",
            "symbols are bound from the declared input dims of the concrete inputs; an unbound synthetic symbol is bound by its first bare sighting and must then be used consistently",
            "expressions whose exact value leaves the i32 range, divide by zero or broadcast incompatible sizes claim nothing here (C11 owns expression arithmetic); Div with a negative operand accepts floor or truncation",
            "operators and attribute settings come from the generator's catalogue (gen/onnxgen/ops.py)",
        ],
    ),
    "C05": dict(
        gen=dict(script="modelgen.py", args=["--family", "singleop,dag,cflow"]),
        steps=[
            native("loadfuzz", ["c05"], shards=8, extra={Q: {"n": 16000}, T: {"n": 2400000}}, timeout={Q: 1200, T: 3 * 3600}),
            asan("loadfuzz", ["c05"], shards=8, extra={Q: {"n": 800}, T: {"n": 100000}}, timeout={Q: 1500, T: 4 * 3600}),
        ],
        floor={Q: 2000, T: 300000},
        parallel_steps=2,
        assumptions=[
            "allocation requests above 1 GiB + 64 KiB made while a load call is in flight are refused by the harness allocator (deterministic abort); such an abort counts only if the request exceeds 16*input_len + 1 MiB and was not made by an operator that constant propagation evaluates (docs/security.md: operator memory use is not bounded)",
            "a load killed by the per-case alarm (15 s native / 40 s ASan) counts only when it repeats alone with 4x the alarm and made no allocation request above that bound (slow loads that work on gigabytes are resource use, not judged)",
            "panics, errors, aborts and time-outs while RUNNING a loaded model are counted, not judged; a crash there is reported only after a malformed constant was seen",
            "RTEN_NUM_THREADS=1 in the engine; file entry points use scratch files under /verif/tmp/c05-<pid>",
        ],
    ),
    "C21": dict(
        steps=[
            native("extcheck", ["c21"], shards=8, timeout={Q: 900, T: 3 * 3600}),
            asan("extcheck", ["c21"], shards=4, tiers=(T,), extra={T: {"n": 20000}}, timeout={T: 3 * 3600}),
        ],
        floor={Q: 2000, T: 50000},
        assumptions=[
            "the harness's location predicate is a string-level reading of 'single plain file name with a recognised data extension' under Unix path rules: recognised = data, onnx_data, optionally followed by [_.-]digits; extensions that merely start with 'data'/'onnx_data' (database, DATA), '.data', names containing NUL and non-UTF-8 strings are undecided by the statement and only counted",
            "Windows-style strings (backslashes, drive prefixes) are ordinary file-name characters on this host; accepting one that names a file directly inside the model directory is counted, not flagged; Windows path semantics are not exercised",
            "a symlink with an acceptable name directly inside the model directory is 'a file directly inside the directory' whatever its target (statement and docs/security.md are silent on links); the system-call monitor resolves links only in the directory part of an opened path",
            "for the in-memory loader the 'file' is the buffer registered under exactly the location string; the harness registers a buffer under every location it tests so that a missing check is exposed",
            "refusals are never violations; /proc, /sys, /dev files opened by the runtime (cpu/cgroup discovery) are excused only when no location of the case names them",
        ],
    ),
}
