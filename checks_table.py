"""Per-property check definitions used by ./check.

Each entry: steps = list of engine invocations. A step has
  bin      engine binary (harness/src/bin/<bin>)
  args     sub-command and fixed arguments
  flavour  native | asan | tsan | miri            (default native)
  tiers    which tiers run it                      (default both)
  shards   number of parallel processes            (default 1)
  extra    {tier: {key: value}} extra --key value arguments (e.g. n = budget)
  timeout  {tier: seconds}
floor = minimum number of distinct non-trivial cases below which the run is
inconclusive.
"""

Q, T = "quick", "thorough"


def native(bin_, args, shards=1, **kw):
    return dict(bin=bin_, args=args, flavour="native", shards=shards, **kw)


def asan(bin_, args, shards=1, **kw):
    return dict(bin=bin_, args=args, flavour="asan", shards=shards, **kw)


def tsan(bin_, args, shards=1, **kw):
    return dict(bin=bin_, args=args, flavour="tsan", shards=shards, **kw)


def miri(bin_, args, shards=1, **kw):
    return dict(bin=bin_, args=args, flavour="miri", shards=shards, **kw)


PROPS = {
    "C06": dict(
        steps=[
            native("tensorcheck", ["safety"], shards=4),
            asan("tensorcheck", ["safety"], shards=4, extra={Q: {"n": 20000}, T: {"n": 1000000}}),
            miri("tensorcheck", ["safety"], shards=6, extra={Q: {"n": 240}, T: {"n": 6000}},
                 timeout={Q: 1500, T: 6 * 3600}),
        ],
        floor={Q: 1000, T: 100000},
        parallel_steps=3,
        assumptions=[
            "the harness's 128-bit extent computation and address arithmetic are correct",
            "ASan only sees heap accesses it instruments; Miri runs the generic (non-SIMD) code paths",
        ],
    ),
    "C07": dict(
        steps=[
            native("tensorcheck", ["iters"], shards=4),
            miri("tensorcheck", ["iters"], shards=6, extra={Q: {"n": 240}, T: {"n": 6000}},
                 timeout={Q: 1500, T: 6 * 3600}),
        ],
        floor={Q: 1000, T: 100000},
        parallel_steps=2,
        assumptions=["expected sequences are computed by the harness from shape and strides, independently of rten's layout code"],
    ),
    "C08": dict(
        steps=[native("tensorcheck", ["overlap"], shards=4)],
        floor={Q: 1000, T: 100000},
        assumptions=["brute-force injectivity over all indices in u128 arithmetic is the ground truth"],
    ),
    "C09": dict(
        steps=[native("tensorcheck", ["model"], shards=4)],
        floor={Q: 1000, T: 100000},
        assumptions=["the naive nd-array in harness/src/naive.rs (numpy slicing semantics) is the reference"],
    ),
    "C15": dict(
        gen=dict(script="modelgen.py", args=["--family", "singleop"]),
        steps=[native("modelcheck", ["c15"], shards=4)],
        floor={Q: 1000, T: 5000},
        assumptions=[
            "the numpy transcription of the ONNX operator specifications in gen/onnxgen/ops.py is the reference (the onnx package's reference implementation is not installed)",
            "operator/attribute settings that rten refuses with an error are counted as unsupported, not as violations",
            "inputs for which the specification leaves the result open (NaN ordering in max/min/top-k style operators, out-of-range casts, align_corners with a size-1 output, Gemm with beta=0 and non-finite C) are not generated",
        ],
    ),
    "C01": dict(
        gen=dict(script="modelgen.py", args=["--family", "patterns,dag"]),
        steps=[native("modelcheck", ["c01"], shards=8)],
        floor={Q: 2000, T: 50000},
        assumptions=[
            "the un-optimised load without shape inference is the baseline; a defect shared by every configuration is invisible here (C15 covers operator semantics)",
            "float tolerance 1e-4 + 1e-3*|b| (fused kernels may reassociate); generated constants are either exact pattern constants or off by >= 1e-2",
        ],
    ),
    "C11": dict(
        steps=[native("symcheck", ["c11"], shards=4)],
        floor={Q: 100000, T: 1000000},
        assumptions=[
            "the harness's 128-bit evaluator of the ORIGINAL expression is the reference",
            "Div is compared only where flooring (documented) and truncation (implemented) agree; Broadcast only on operands >= 0 that are equal or 1, excluding (0,1)",
            "a simplified expression that itself overflows i32 is accepted if exact or wrapped evaluation at that node yields the reference value",
        ],
    ),
}
