//! A deliberately naive nd-array: shape + row-major Vec. Reference model for
//! layout operations.

#[derive(Clone, Debug, PartialEq)]
pub struct Arr<T: Clone> {
    pub shape: Vec<usize>,
    pub data: Vec<T>,
}

pub fn numel(shape: &[usize]) -> usize {
    shape.iter().product()
}

/// Row-major strides (in elements) for `shape`.
pub fn row_major_strides(shape: &[usize]) -> Vec<usize> {
    let mut s = vec![0; shape.len()];
    let mut acc = 1;
    for i in (0..shape.len()).rev() {
        s[i] = acc;
        acc *= shape[i];
    }
    s
}

/// Iterate all indices of `shape` in row-major order.
pub fn indices(shape: &[usize]) -> Vec<Vec<usize>> {
    let n = numel(shape);
    let mut out = Vec::with_capacity(n);
    if n == 0 {
        return out;
    }
    let mut idx = vec![0usize; shape.len()];
    loop {
        out.push(idx.clone());
        let mut d = shape.len();
        loop {
            if d == 0 {
                return out;
            }
            d -= 1;
            idx[d] += 1;
            if idx[d] < shape[d] {
                break;
            }
            idx[d] = 0;
        }
    }
}

impl<T: Clone> Arr<T> {
    pub fn new(shape: Vec<usize>, data: Vec<T>) -> Arr<T> {
        assert_eq!(numel(&shape), data.len());
        Arr { shape, data }
    }

    pub fn from_fn(shape: &[usize], mut f: impl FnMut(&[usize]) -> T) -> Arr<T> {
        let data = indices(shape).iter().map(|i| f(i)).collect();
        Arr {
            shape: shape.to_vec(),
            data,
        }
    }

    pub fn ndim(&self) -> usize {
        self.shape.len()
    }

    pub fn offset(&self, idx: &[usize]) -> usize {
        assert_eq!(idx.len(), self.shape.len());
        let st = row_major_strides(&self.shape);
        idx.iter().zip(&st).map(|(i, s)| i * s).sum()
    }

    pub fn at(&self, idx: &[usize]) -> &T {
        for (i, s) in idx.iter().zip(&self.shape) {
            assert!(i < s, "index {:?} out of range for shape {:?}", idx, self.shape);
        }
        &self.data[self.offset(idx)]
    }

    /// New array whose element at `idx` is `self[f(idx)]`.
    pub fn gather(&self, new_shape: &[usize], f: impl Fn(&[usize]) -> Vec<usize>) -> Arr<T> {
        Arr::from_fn(new_shape, |idx| self.at(&f(idx)).clone())
    }

    pub fn permuted(&self, perm: &[usize]) -> Arr<T> {
        let new_shape: Vec<usize> = perm.iter().map(|&p| self.shape[p]).collect();
        self.gather(&new_shape, |idx| {
            let mut src = vec![0; idx.len()];
            for (d, &p) in perm.iter().enumerate() {
                src[p] = idx[d];
            }
            src
        })
    }

    pub fn reshaped(&self, shape: &[usize]) -> Arr<T> {
        assert_eq!(numel(shape), self.data.len());
        Arr {
            shape: shape.to_vec(),
            data: self.data.clone(),
        }
    }

    /// Slice one axis with python semantics already resolved: elements
    /// `start, start+step, ...` (count `n`) where step may be negative.
    pub fn slice_axis(&self, axis: usize, start: usize, step: isize, n: usize) -> Arr<T> {
        let mut new_shape = self.shape.clone();
        new_shape[axis] = n;
        self.gather(&new_shape, |idx| {
            let mut src = idx.to_vec();
            src[axis] = (start as isize + step * idx[axis] as isize) as usize;
            src
        })
    }

    pub fn index_axis(&self, axis: usize, i: usize) -> Arr<T> {
        let mut new_shape = self.shape.clone();
        new_shape.remove(axis);
        self.gather(&new_shape, |idx| {
            let mut src = idx.to_vec();
            src.insert(axis, i);
            src
        })
    }

    pub fn broadcast(&self, shape: &[usize]) -> Arr<T> {
        let pad = shape.len() - self.shape.len();
        self.gather(shape, |idx| {
            (0..self.shape.len())
                .map(|d| if self.shape[d] == 1 { 0 } else { idx[d + pad] })
                .collect()
        })
    }
}

/// Python-style slice resolution: returns (start, count) for a dim of `len`
/// given optional start/end and non-zero step. Mirrors numpy.
pub fn resolve_slice(len: usize, start: Option<isize>, end: Option<isize>, step: isize) -> (usize, usize) {
    assert!(step != 0);
    let len = len as isize;
    let clamp = |v: isize, lo: isize, hi: isize| v.max(lo).min(hi);
    if step > 0 {
        let s = match start {
            None => 0,
            Some(s) => clamp(if s < 0 { s + len } else { s }, 0, len),
        };
        let e = match end {
            None => len,
            Some(e) => clamp(if e < 0 { e + len } else { e }, 0, len),
        };
        let n = if e > s { (e - s + step - 1) / step } else { 0 };
        (s as usize, n as usize)
    } else {
        let s = match start {
            None => len - 1,
            Some(s) => clamp(if s < 0 { s + len } else { s }, -1, len - 1),
        };
        let e = match end {
            None => -1,
            Some(e) => clamp(if e < 0 { e + len } else { e }, -1, len - 1),
        };
        let n = if s > e { (s - e + (-step) - 1) / (-step) } else { 0 };
        (s.max(0) as usize, n as usize)
    }
}
