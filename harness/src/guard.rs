//! Allocations placed flush against PROT_NONE guard pages, so that any read
//! or write outside the slice - by any instruction, including raw SIMD
//! intrinsics that sanitizers do not instrument - faults immediately.

use std::marker::PhantomData;

const PAGE: usize = 4096;

/// Where the guard page is relative to the data.
#[derive(Clone, Copy, Debug, PartialEq)]
pub enum GuardPos {
    /// Data ends exactly at the start of the guard page (catches overruns).
    After,
    /// Data starts exactly after the guard page (catches underruns).
    Before,
}

/// A `[T]` of fixed length with a guard page on one side.
pub struct Guarded<T: Copy> {
    base: *mut u8,
    map_len: usize,
    data: *mut T,
    len: usize,
    _marker: PhantomData<T>,
}

unsafe impl<T: Copy + Send> Send for Guarded<T> {}
unsafe impl<T: Copy + Sync> Sync for Guarded<T> {}

impl<T: Copy> Guarded<T> {
    /// Allocate `len` elements, all set to `fill`.
    pub fn new(len: usize, fill: T, pos: GuardPos) -> Guarded<T> {
        let bytes = len * std::mem::size_of::<T>();
        let data_pages = bytes.div_ceil(PAGE).max(1);
        let map_len = (data_pages + 1) * PAGE;
        // Safety: plain anonymous mapping.
        let base = unsafe {
            libc::mmap(
                std::ptr::null_mut(),
                map_len,
                libc::PROT_READ | libc::PROT_WRITE,
                libc::MAP_PRIVATE | libc::MAP_ANONYMOUS,
                -1,
                0,
            )
        };
        assert!(base != libc::MAP_FAILED, "mmap failed");
        let base = base as *mut u8;
        let (guard_off, data_off) = match pos {
            GuardPos::After => {
                let end = data_pages * PAGE;
                // Align the start down to T's alignment; the end then may not
                // be flush if size is not a multiple of align, which never
                // happens for primitive T.
                (end, end - bytes)
            }
            GuardPos::Before => (0, PAGE),
        };
        unsafe {
            let rc = libc::mprotect(base.add(guard_off) as *mut _, PAGE, libc::PROT_NONE);
            assert_eq!(rc, 0, "mprotect failed");
        }
        let data = unsafe { base.add(data_off) } as *mut T;
        assert_eq!(data as usize % std::mem::align_of::<T>(), 0);
        for i in 0..len {
            unsafe { data.add(i).write(fill) };
        }
        Guarded {
            base,
            map_len,
            data,
            len,
            _marker: PhantomData,
        }
    }

    pub fn from_slice(src: &[T], pos: GuardPos) -> Guarded<T> {
        let mut g = Guarded::new(src.len(), src.first().copied().unwrap_or_else(|| unsafe { std::mem::zeroed() }), pos);
        g.as_mut_slice().copy_from_slice(src);
        g
    }

    pub fn as_slice(&self) -> &[T] {
        unsafe { std::slice::from_raw_parts(self.data, self.len) }
    }

    pub fn as_mut_slice(&mut self) -> &mut [T] {
        unsafe { std::slice::from_raw_parts_mut(self.data, self.len) }
    }
}

impl<T: Copy> Drop for Guarded<T> {
    fn drop(&mut self) {
        unsafe {
            libc::munmap(self.base as *mut _, self.map_len);
        }
    }
}

/// Run `f` in a forked child so that a fault (SIGSEGV/SIGBUS/abort) is
/// observed rather than fatal. Returns Ok(exit code) or Err(signal number).
/// The child must not rely on other threads (only the calling thread exists
/// after fork), so `f` must be single-threaded.
pub fn in_child(f: impl FnOnce() -> i32) -> Result<i32, i32> {
    unsafe {
        let pid = libc::fork();
        assert!(pid >= 0, "fork failed");
        if pid == 0 {
            let code = f();
            libc::_exit(code);
        }
        let mut status = 0;
        loop {
            let r = libc::waitpid(pid, &mut status, 0);
            if r == pid {
                break;
            }
            if r < 0 && *libc::__errno_location() != libc::EINTR {
                return Err(-1);
            }
        }
        if libc::WIFEXITED(status) {
            Ok(libc::WEXITSTATUS(status))
        } else if libc::WIFSIGNALED(status) {
            Err(libc::WTERMSIG(status))
        } else {
            Err(-1)
        }
    }
}
