//! Minimal protobuf wire-format writer, enough to emit ONNX models and
//! deliberately malformed variants of them.

#[derive(Clone, Debug, Default)]
pub struct Pb {
    pub buf: Vec<u8>,
}

pub fn varint(mut v: u64, out: &mut Vec<u8>) {
    loop {
        let b = (v & 0x7f) as u8;
        v >>= 7;
        if v == 0 {
            out.push(b);
            return;
        }
        out.push(b | 0x80);
    }
}

impl Pb {
    pub fn new() -> Pb {
        Pb { buf: Vec::new() }
    }
    pub fn key(&mut self, field: u32, wire: u8) -> &mut Self {
        varint(((field as u64) << 3) | wire as u64, &mut self.buf);
        self
    }
    pub fn int(&mut self, field: u32, v: i64) -> &mut Self {
        self.key(field, 0);
        varint(v as u64, &mut self.buf);
        self
    }
    pub fn uint(&mut self, field: u32, v: u64) -> &mut Self {
        self.key(field, 0);
        varint(v, &mut self.buf);
        self
    }
    pub fn bytes(&mut self, field: u32, b: &[u8]) -> &mut Self {
        self.key(field, 2);
        varint(b.len() as u64, &mut self.buf);
        self.buf.extend_from_slice(b);
        self
    }
    /// Length-delimited field with a *claimed* length that may differ from the
    /// bytes actually written.
    pub fn bytes_with_len(&mut self, field: u32, claimed: u64, b: &[u8]) -> &mut Self {
        self.key(field, 2);
        varint(claimed, &mut self.buf);
        self.buf.extend_from_slice(b);
        self
    }
    pub fn str(&mut self, field: u32, s: &str) -> &mut Self {
        self.bytes(field, s.as_bytes())
    }
    pub fn msg(&mut self, field: u32, m: &Pb) -> &mut Self {
        self.bytes(field, &m.buf)
    }
    pub fn f32(&mut self, field: u32, v: f32) -> &mut Self {
        self.key(field, 5);
        self.buf.extend_from_slice(&v.to_le_bytes());
        self
    }
    pub fn fixed64(&mut self, field: u32, v: u64) -> &mut Self {
        self.key(field, 1);
        self.buf.extend_from_slice(&v.to_le_bytes());
        self
    }
    pub fn packed_ints(&mut self, field: u32, vs: &[i64]) -> &mut Self {
        let mut inner = Vec::new();
        for v in vs {
            varint(*v as u64, &mut inner);
        }
        self.bytes(field, &inner)
    }
    pub fn packed_f32(&mut self, field: u32, vs: &[f32]) -> &mut Self {
        let mut inner = Vec::new();
        for v in vs {
            inner.extend_from_slice(&v.to_le_bytes());
        }
        self.bytes(field, &inner)
    }
    pub fn raw(&mut self, b: &[u8]) -> &mut Self {
        self.buf.extend_from_slice(b);
        self
    }
}

// ONNX data types
pub const FLOAT: i64 = 1;
pub const UINT8: i64 = 2;
pub const INT8: i64 = 3;
pub const INT32: i64 = 6;
pub const INT64: i64 = 7;
pub const BOOL: i64 = 9;
pub const DOUBLE: i64 = 11;

/// TensorProto { dims=1, data_type=2, name=8, raw_data=9 }
pub fn tensor_raw(name: &str, dtype: i64, dims: &[i64], raw: &[u8]) -> Pb {
    let mut t = Pb::new();
    for d in dims {
        t.int(1, *d);
    }
    t.int(2, dtype).str(8, name).bytes(9, raw);
    t
}

pub fn tensor_f32(name: &str, dims: &[i64], vals: &[f32]) -> Pb {
    let raw: Vec<u8> = vals.iter().flat_map(|v| v.to_le_bytes()).collect();
    tensor_raw(name, FLOAT, dims, &raw)
}

pub fn tensor_i64(name: &str, dims: &[i64], vals: &[i64]) -> Pb {
    let raw: Vec<u8> = vals.iter().flat_map(|v| v.to_le_bytes()).collect();
    tensor_raw(name, INT64, dims, &raw)
}

pub fn tensor_i32(name: &str, dims: &[i64], vals: &[i32]) -> Pb {
    let raw: Vec<u8> = vals.iter().flat_map(|v| v.to_le_bytes()).collect();
    tensor_raw(name, INT32, dims, &raw)
}

#[derive(Clone, Debug)]
pub enum Dim {
    Fixed(i64),
    Sym(String),
}

/// ValueInfoProto { name=1, type=2 { tensor_type=1 { elem_type=1, shape=2 { dim=1 { dim_value=1 | dim_param=2 } } } } }
pub fn value_info(name: &str, dtype: i64, shape: Option<&[Dim]>) -> Pb {
    let mut tt = Pb::new();
    tt.int(1, dtype);
    if let Some(shape) = shape {
        let mut sh = Pb::new();
        for d in shape {
            let mut dim = Pb::new();
            match d {
                Dim::Fixed(v) => dim.int(1, *v),
                Dim::Sym(s) => dim.str(2, s),
            };
            sh.msg(1, &dim);
        }
        tt.msg(2, &sh);
    }
    let mut ty = Pb::new();
    ty.msg(1, &tt);
    let mut vi = Pb::new();
    vi.str(1, name).msg(2, &ty);
    vi
}

#[derive(Clone, Debug)]
pub enum Attr {
    Int(i64),
    Float(f32),
    Str(String),
    Ints(Vec<i64>),
    Floats(Vec<f32>),
    Tensor(Pb),
    Graph(Pb),
}

/// AttributeProto { name=1, f=2, i=3, s=4, t=5, g=6, floats=7, ints=8, type=20 }
pub fn attribute(name: &str, a: &Attr) -> Pb {
    let mut p = Pb::new();
    p.str(1, name);
    match a {
        Attr::Float(v) => {
            p.f32(2, *v).int(20, 1);
        }
        Attr::Int(v) => {
            p.int(3, *v).int(20, 2);
        }
        Attr::Str(s) => {
            p.str(4, s).int(20, 3);
        }
        Attr::Tensor(t) => {
            p.msg(5, t).int(20, 4);
        }
        Attr::Graph(g) => {
            p.msg(6, g).int(20, 5);
        }
        Attr::Floats(vs) => {
            for v in vs {
                p.f32(7, *v);
            }
            p.int(20, 6);
        }
        Attr::Ints(vs) => {
            for v in vs {
                p.int(8, *v);
            }
            p.int(20, 7);
        }
    }
    p
}

/// NodeProto { input=1, output=2, name=3, op_type=4, attribute=5, domain=7 }
pub fn node(op_type: &str, name: &str, inputs: &[&str], outputs: &[&str], attrs: &[(&str, Attr)]) -> Pb {
    node_domain(op_type, "", name, inputs, outputs, attrs)
}

pub fn node_domain(
    op_type: &str,
    domain: &str,
    name: &str,
    inputs: &[&str],
    outputs: &[&str],
    attrs: &[(&str, Attr)],
) -> Pb {
    let mut n = Pb::new();
    for i in inputs {
        n.str(1, i);
    }
    for o in outputs {
        n.str(2, o);
    }
    n.str(3, name).str(4, op_type);
    for (k, a) in attrs {
        n.msg(5, &attribute(k, a));
    }
    if !domain.is_empty() {
        n.str(7, domain);
    }
    n
}

/// GraphProto { node=1, name=2, initializer=5, input=11, output=12, value_info=13 }
pub fn graph(name: &str, nodes: &[Pb], initializers: &[Pb], inputs: &[Pb], outputs: &[Pb]) -> Pb {
    let mut g = Pb::new();
    for n in nodes {
        g.msg(1, n);
    }
    g.str(2, name);
    for t in initializers {
        g.msg(5, t);
    }
    for i in inputs {
        g.msg(11, i);
    }
    for o in outputs {
        g.msg(12, o);
    }
    g
}

/// ModelProto { ir_version=1, producer_name=2, graph=7, opset_import=8 { domain=1, version=2 } }
pub fn model(graph: &Pb, opset: i64) -> Vec<u8> {
    let mut m = Pb::new();
    m.int(1, 8).str(2, "verif");
    m.msg(7, graph);
    let mut op = Pb::new();
    op.str(1, "").int(2, opset);
    m.msg(8, &op);
    let mut op2 = Pb::new();
    op2.str(1, "com.microsoft").int(2, 1);
    m.msg(8, &op2);
    m.buf
}
