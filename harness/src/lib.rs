//! Shared plumbing for the verification engines: PRNG, argument parsing,
//! report (result-file) writer, panic capture, guard-page allocations, a
//! counting allocator and a naive nd-array reference model.

pub mod guard;
pub mod naive;
pub mod onnxpb;

use std::collections::{BTreeMap, HashSet};
use std::hash::{Hash, Hasher};
use std::panic::{AssertUnwindSafe, catch_unwind};
use std::sync::Mutex;
use std::time::Instant;

pub use serde_json::{Value as Json, json};

// ---------------------------------------------------------------- PRNG

/// xoshiro256** seeded through splitmix64. Deterministic across platforms.
#[derive(Clone, Debug)]
pub struct Rng {
    s: [u64; 4],
}

fn splitmix(x: &mut u64) -> u64 {
    *x = x.wrapping_add(0x9e3779b97f4a7c15);
    let mut z = *x;
    z = (z ^ (z >> 30)).wrapping_mul(0xbf58476d1ce4e5b9);
    z = (z ^ (z >> 27)).wrapping_mul(0x94d049bb133111eb);
    z ^ (z >> 31)
}

impl Rng {
    pub fn new(seed: u64) -> Rng {
        let mut x = seed ^ 0x5851f42d4c957f2d;
        Rng {
            s: [
                splitmix(&mut x),
                splitmix(&mut x),
                splitmix(&mut x),
                splitmix(&mut x),
            ],
        }
    }

    /// Derive an independent generator for a sub-stream (case index, shard...).
    pub fn derive(seed: u64, stream: u64) -> Rng {
        Rng::new(seed.wrapping_mul(0x9e3779b97f4a7c15) ^ stream.wrapping_mul(0xd1342543de82ef95))
    }

    pub fn next_u64(&mut self) -> u64 {
        let s = &mut self.s;
        let result = s[1].wrapping_mul(5).rotate_left(7).wrapping_mul(9);
        let t = s[1] << 17;
        s[2] ^= s[0];
        s[3] ^= s[1];
        s[1] ^= s[2];
        s[0] ^= s[3];
        s[2] ^= t;
        s[3] = s[3].rotate_left(45);
        result
    }

    pub fn next_u32(&mut self) -> u32 {
        (self.next_u64() >> 32) as u32
    }

    /// Uniform in `0..n` (n > 0).
    pub fn below(&mut self, n: usize) -> usize {
        assert!(n > 0);
        (self.next_u64() % n as u64) as usize
    }

    /// Uniform in `lo..=hi`.
    pub fn range(&mut self, lo: i64, hi: i64) -> i64 {
        assert!(lo <= hi);
        let span = (hi - lo) as u64 + 1;
        lo + (self.next_u64() % span) as i64
    }

    pub fn irange(&mut self, lo: isize, hi: isize) -> isize {
        self.range(lo as i64, hi as i64) as isize
    }

    pub fn urange(&mut self, lo: usize, hi: usize) -> usize {
        self.range(lo as i64, hi as i64) as usize
    }

    /// True with probability `num/den`.
    pub fn chance(&mut self, num: u32, den: u32) -> bool {
        (self.next_u64() % den as u64) < num as u64
    }

    pub fn bool(&mut self) -> bool {
        self.next_u64() & 1 == 1
    }

    pub fn choose<'a, T>(&mut self, xs: &'a [T]) -> &'a T {
        &xs[self.below(xs.len())]
    }

    /// Uniform float in [0, 1).
    pub fn unit_f64(&mut self) -> f64 {
        (self.next_u64() >> 11) as f64 / (1u64 << 53) as f64
    }

    /// Uniform float in [lo, hi).
    pub fn f32_in(&mut self, lo: f32, hi: f32) -> f32 {
        lo + (hi - lo) * self.unit_f64() as f32
    }

    /// A "nice" small float: multiples of 1/8 in [-4, 4].
    pub fn small_f32(&mut self) -> f32 {
        self.range(-32, 32) as f32 / 8.0
    }

    /// Random f32 bit pattern biased towards special values.
    pub fn weird_f32(&mut self) -> f32 {
        match self.below(12) {
            0 => f32::NAN,
            1 => f32::INFINITY,
            2 => f32::NEG_INFINITY,
            3 => 0.0,
            4 => -0.0,
            5 => f32::MIN_POSITIVE / 2.0,
            6 => f32::MAX,
            7 => f32::MIN,
            8 => f32::from_bits(self.next_u32()),
            _ => self.f32_in(-10.0, 10.0),
        }
    }

    pub fn shuffle<T>(&mut self, xs: &mut [T]) {
        for i in (1..xs.len()).rev() {
            let j = self.below(i + 1);
            xs.swap(i, j);
        }
    }
}

// ---------------------------------------------------------------- args

#[derive(Clone, Debug)]
pub struct Args {
    /// First positional argument (sub-command).
    pub cmd: String,
    pub seed: u64,
    pub thorough: bool,
    pub out: Option<String>,
    pub replay: Option<String>,
    pub shard: usize,
    pub shards: usize,
    kv: BTreeMap<String, String>,
}

impl Args {
    /// Parse `cmd --seed N --tier quick|thorough --out F [--replay F]
    /// [--shard i/n] [--key value ...]`.
    pub fn parse() -> Args {
        let raw: Vec<String> = std::env::args().skip(1).collect();
        let mut args = Args {
            cmd: String::new(),
            seed: 1,
            thorough: false,
            out: None,
            replay: None,
            shard: 0,
            shards: 1,
            kv: BTreeMap::new(),
        };
        let mut i = 0;
        while i < raw.len() {
            let a = &raw[i];
            if let Some(key) = a.strip_prefix("--") {
                let val = raw.get(i + 1).cloned().unwrap_or_default();
                i += 2;
                match key {
                    "seed" => args.seed = val.parse().expect("--seed"),
                    "tier" => args.thorough = val == "thorough",
                    "out" => args.out = Some(val),
                    "replay" => args.replay = Some(val),
                    "shard" => {
                        let (a, b) = val.split_once('/').expect("--shard i/n");
                        args.shard = a.parse().unwrap();
                        args.shards = b.parse().unwrap();
                    }
                    _ => {
                        args.kv.insert(key.to_string(), val);
                    }
                }
            } else {
                if args.cmd.is_empty() {
                    args.cmd = a.clone();
                }
                i += 1;
            }
        }
        args
    }

    pub fn get(&self, key: &str) -> Option<&str> {
        self.kv.get(key).map(|s| s.as_str())
    }

    pub fn get_u64(&self, key: &str, default: u64) -> u64 {
        self.get(key).map(|v| v.parse().expect(key)).unwrap_or(default)
    }

    /// Number of cases: `--n` if given, else the tier default.
    pub fn budget(&self, quick: u64, thorough: u64) -> u64 {
        let n = self.get_u64("n", if self.thorough { thorough } else { quick });
        // Split across shards.
        n.div_ceil(self.shards as u64)
    }

    pub fn tier(&self) -> &'static str {
        if self.thorough { "thorough" } else { "quick" }
    }
}

// ---------------------------------------------------------------- report

#[derive(Clone, Debug)]
pub struct Violation {
    /// Canonical, deterministic description of the (shrunk) failing case.
    /// Used to match known findings.
    pub signature: String,
    pub summary: String,
    /// Everything needed to replay the case.
    pub witness: Json,
}

/// Accumulates what an engine run observed and writes the result file.
pub struct Report {
    pub property: String,
    pub engine: String,
    pub flavour: String,
    pub rule: String,
    pub evaluations: u64,
    nontrivial: HashSet<u64>,
    pub samples: Vec<Json>,
    pub max_samples: usize,
    pub counters: BTreeMap<String, u64>,
    pub notes: BTreeMap<String, Json>,
    pub violations: Vec<Violation>,
    pub max_violations: usize,
    pub max_per_group: usize,
    pub suppressed_violations: u64,
    pub inconclusive: Option<String>,
    pub exhaustive: bool,
    start: Instant,
    out: Option<String>,
    seed: u64,
    tier: &'static str,
}

pub fn hash_of<T: Hash>(x: &T) -> u64 {
    let mut h = Fnv(0xcbf29ce484222325);
    x.hash(&mut h);
    h.finish()
}

struct Fnv(u64);
impl Hasher for Fnv {
    fn finish(&self) -> u64 {
        self.0
    }
    fn write(&mut self, bytes: &[u8]) {
        for b in bytes {
            self.0 ^= *b as u64;
            self.0 = self.0.wrapping_mul(0x100000001b3);
        }
    }
}

impl Report {
    pub fn new(property: &str, engine: &str, args: &Args, rule: &str) -> Report {
        let flavour = if cfg!(miri) {
            "miri".to_string()
        } else {
            std::env::var("VERIF_FLAVOUR").unwrap_or_else(|_| "native".to_string())
        };
        Report {
            property: property.to_string(),
            engine: engine.to_string(),
            flavour,
            rule: rule.to_string(),
            evaluations: 0,
            nontrivial: HashSet::new(),
            samples: Vec::new(),
            max_samples: 6,
            counters: BTreeMap::new(),
            notes: BTreeMap::new(),
            violations: Vec::new(),
            max_violations: 60,
            max_per_group: 4,
            suppressed_violations: 0,
            inconclusive: None,
            exhaustive: false,
            start: Instant::now(),
            out: args.out.clone(),
            seed: args.seed,
            tier: args.tier(),
        }
    }

    /// Record one executed case.
    pub fn eval(&mut self) {
        self.evaluations += 1;
    }

    /// Record that a case with the given identity hash was non-trivial.
    pub fn nontrivial<T: Hash>(&mut self, identity: &T) {
        self.nontrivial.insert(hash_of(identity));
    }

    pub fn nontrivial_count(&self) -> usize {
        self.nontrivial.len()
    }

    pub fn count(&mut self, key: &str) {
        self.add(key, 1);
    }

    pub fn add(&mut self, key: &str, n: u64) {
        *self.counters.entry(key.to_string()).or_insert(0) += n;
    }

    pub fn max(&mut self, key: &str, n: u64) {
        let e = self.counters.entry(key.to_string()).or_insert(0);
        *e = (*e).max(n);
    }

    /// Keep a sample if there is room. `f` is only evaluated if kept.
    pub fn sample(&mut self, f: impl FnOnce() -> Json) {
        if self.samples.len() < self.max_samples {
            self.samples.push(f());
        }
    }

    pub fn wants_sample(&self) -> bool {
        self.samples.len() < self.max_samples
    }

    pub fn note(&mut self, key: &str, v: Json) {
        self.notes.insert(key.to_string(), v);
    }

    pub fn violation(&mut self, signature: String, summary: String, witness: Json) {
        // Keep one violation per signature, at most a few per group (first
        // two `|`-separated fields of the signature, e.g. property + family /
        // operator) so that one noisy family cannot hide the others; count
        // the rest.
        let group = |s: &str| s.split('|').take(2).collect::<Vec<_>>().join("|");
        let g = group(&signature);
        let in_group = self.violations.iter().filter(|v| group(&v.signature) == g).count();
        if self.violations.iter().any(|v| v.signature == signature)
            || self.violations.len() >= self.max_violations
            || in_group >= self.max_per_group
        {
            self.suppressed_violations += 1;
            return;
        }
        self.violations.push(Violation {
            signature,
            summary,
            witness,
        });
    }

    pub fn n_violations(&self) -> usize {
        self.violations.len()
    }

    pub fn to_json(&self) -> Json {
        let mut hashes: Vec<String> = Vec::new();
        if self.nontrivial.len() <= 200_000 {
            hashes = self.nontrivial.iter().map(|h| format!("{:016x}", h)).collect();
            hashes.sort();
        }
        json!({
            "property": self.property,
            "engine": self.engine,
            "flavour": self.flavour,
            "tier": self.tier,
            "seed": self.seed,
            "rule": self.rule,
            "evaluations": self.evaluations,
            "distinct_nontrivial": self.nontrivial.len(),
            "nontrivial_hashes": hashes,
            "samples": self.samples,
            "counters": self.counters,
            "notes": self.notes,
            "exhaustive": self.exhaustive,
            "violations": self.violations.iter().map(|v| json!({
                "signature": v.signature, "summary": v.summary, "witness": v.witness,
            })).collect::<Vec<_>>(),
            "suppressed_violations": self.suppressed_violations,
            "inconclusive": self.inconclusive,
            "wall_s": self.start.elapsed().as_secs_f64(),
        })
    }

    /// Write the result file (or print it when no `--out` was given).
    pub fn finish(self) {
        let text = serde_json::to_string(&self.to_json()).unwrap();
        match &self.out {
            Some(path) => {
                let tmp = format!("{}.tmp", path);
                std::fs::write(&tmp, &text).expect("write result");
                std::fs::rename(&tmp, path).expect("rename result");
            }
            None => println!("{}", text),
        }
        eprintln!(
            "[{} {} {}] evaluations={} nontrivial={} violations={} (+{} suppressed){}",
            self.engine,
            self.property,
            self.flavour,
            self.evaluations,
            self.nontrivial.len(),
            self.violations.len(),
            self.suppressed_violations,
            self.inconclusive
                .as_ref()
                .map(|r| format!(" INCONCLUSIVE: {}", r))
                .unwrap_or_default()
        );
    }
}

// ---------------------------------------------------------------- panics

static PANIC_MSG: Mutex<Option<String>> = Mutex::new(None);

/// Install a panic hook that records the message and location instead of
/// printing it. Call once at engine start.
pub fn quiet_panics() {
    std::panic::set_hook(Box::new(|info| {
        let msg = if let Some(s) = info.payload().downcast_ref::<&str>() {
            s.to_string()
        } else if let Some(s) = info.payload().downcast_ref::<String>() {
            s.clone()
        } else {
            "<non-string panic>".to_string()
        };
        let loc = info
            .location()
            .map(|l| format!("{}:{}", l.file(), l.line()))
            .unwrap_or_default();
        if std::env::var_os("VERIF_BT").is_some() && loc.contains("naive.rs") {
            eprintln!("panic: {} @ {}\n{}", msg, loc, std::backtrace::Backtrace::force_capture());
        }
        if let Ok(mut slot) = PANIC_MSG.lock() {
            *slot = Some(format!("{} @ {}", msg, loc));
        }
    }));
}

/// Run `f`, converting a panic into `Err(message @ file:line)`.
pub fn catch<T>(f: impl FnOnce() -> T) -> Result<T, String> {
    match catch_unwind(AssertUnwindSafe(f)) {
        Ok(v) => Ok(v),
        Err(_) => {
            let msg = PANIC_MSG
                .lock()
                .ok()
                .and_then(|mut m| m.take())
                .unwrap_or_else(|| "<panic>".to_string());
            Err(msg)
        }
    }
}

/// Run an engine's main body; an uncaught panic is a harness error (exit 3,
/// which the driver maps to "inconclusive"), reported on stderr.
pub fn run_main(f: impl FnOnce()) {
    quiet_panics();
    if let Err(msg) = catch(f) {
        eprintln!("HARNESS-ERROR: uncaught panic: {}", msg);
        std::process::exit(3);
    }
}

/// Strip numbers from a panic message so that it can be used in signatures.
pub fn panic_class(msg: &str) -> String {
    let mut out = String::new();
    let mut last_digit = false;
    for c in msg.chars() {
        if c.is_ascii_digit() {
            if !last_digit {
                out.push('N');
            }
            last_digit = true;
        } else {
            out.push(c);
            last_digit = false;
        }
    }
    // Keep location file but not line.
    if out.len() > 160 {
        out.truncate(160);
    }
    out
}

// ---------------------------------------------------------------- hex

pub fn to_hex(bytes: &[u8]) -> String {
    let mut s = String::with_capacity(bytes.len() * 2);
    for b in bytes {
        s.push_str(&format!("{:02x}", b));
    }
    s
}

pub fn from_hex(s: &str) -> Vec<u8> {
    let b = s.as_bytes();
    (0..b.len() / 2)
        .map(|i| {
            let h = (b[2 * i] as char).to_digit(16).unwrap() as u8;
            let l = (b[2 * i + 1] as char).to_digit(16).unwrap() as u8;
            (h << 4) | l
        })
        .collect()
}

// ---------------------------------------------------------------- float compare

/// ULP distance between two finite floats of the same sign class.
pub fn ulp_diff(a: f32, b: f32) -> u64 {
    fn key(x: f32) -> i64 {
        let b = x.to_bits() as i32;
        (if b < 0 { i32::MIN.wrapping_sub(b) } else { b }) as i64
    }
    (key(a) - key(b)).unsigned_abs()
}

/// Bit equality where any NaN equals any NaN (DESIGN 1.7).
pub fn bits_eq_f32(a: f32, b: f32) -> bool {
    (a.is_nan() && b.is_nan()) || a.to_bits() == b.to_bits()
}

/// Tolerant equality: NaN positions and infinities must coincide, -0 == +0.
pub fn close_f32(a: f32, b: f32, atol: f32, rtol: f32) -> bool {
    if a.is_nan() || b.is_nan() {
        return a.is_nan() && b.is_nan();
    }
    if a.is_infinite() || b.is_infinite() {
        return a == b;
    }
    (a - b).abs() <= atol + rtol * b.abs()
}
