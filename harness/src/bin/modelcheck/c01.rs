//! C01: optimisation and shape inference never change a successful result.
//!
//! Differential oracle: the un-optimised, no-shape-inference load is the
//! baseline; every other load configuration must give the same outputs for
//! every input set on which the baseline succeeds.
use std::collections::BTreeMap;

use rten::Model;
use vcommon::*;

use crate::common::*;

pub const CONFIGS: [LoadCfg; 5] = [
    LoadCfg { optimize: true, shape_mode: 0, prepack: false },
    LoadCfg { optimize: true, shape_mode: 1, prepack: false },
    LoadCfg { optimize: true, shape_mode: 2, prepack: false },
    LoadCfg { optimize: false, shape_mode: 1, prepack: false },
    LoadCfg { optimize: false, shape_mode: 2, prepack: false },
];

/// Operator type multiset of the loaded (possibly rewritten) graph.
pub fn op_multiset(model: &Model) -> BTreeMap<String, usize> {
    let mut m = BTreeMap::new();
    #[cfg(rten_verif)]
    {
        let g = rten::verif::model_graph(model);
        for (_, node) in g.iter() {
            if let rten::verif::Node::Operator(op) = node {
                *m.entry(op.operator().name().to_string()).or_insert(0) += 1;
            }
        }
    }
    let _ = model;
    m
}

fn ops_sig(c: &Case) -> String {
    let mut ops: Vec<&str> = c.topo.iter().map(|t| t.3.as_str()).collect();
    ops.sort();
    ops.dedup();
    ops.join(",")
}

pub fn check_case(rep: &mut Report, c: &Case) {
    for (which, bytes) in [("plain", &c.model), ("value_info", &c.model_vi)] {
        if bytes.is_empty() {
            continue;
        }
        let base = match load(bytes, LoadCfg::BASE) {
            Ok(m) => m,
            Err(e) => {
                rep.eval();
                rep.count(if e.starts_with("PANIC") { "base_load_panic" } else { "base_load_error" });
                continue;
            }
        };
        let base_ops = op_multiset(&base);
        // Baseline results per input set.
        let mut base_out: Vec<Option<Vec<TData>>> = Vec::new();
        for k in 0..c.input_sets.len() {
            base_out.push(run_simple(&base, &c.input_set(k), &c.outputs, None).ok());
        }
        if base_out.iter().all(|b| b.is_none()) {
            rep.eval();
            rep.count("base_run_failed_for_all_input_sets");
            continue;
        }
        for cfg in CONFIGS {
            let sig_head = format!("C01|{}|{}|ops={}|model={}|cfg={}", c.family, c.variant, ops_sig(c), which, cfg.name());
            let model = match load(bytes, cfg) {
                Ok(m) => m,
                Err(e) => {
                    rep.eval();
                    if e.starts_with("PANIC") {
                        rep.violation(
                            format!("{}|load_panic:{}", sig_head, panic_class(&e)),
                            format!("loading with {} panicked although the un-optimised load succeeds: {}", cfg.name(), e),
                            json!({"case": small_case_json(c), "model": which, "cfg": cfg.name()}),
                        );
                    } else if cfg.shape_mode == 2 {
                        // Strict mode is documented to refuse models it cannot fully infer.
                        rep.count("strict_load_refused");
                    } else {
                        rep.violation(
                            format!("{}|load_error", sig_head),
                            format!("loading with {} failed although the un-optimised load succeeds: {}", cfg.name(), e),
                            json!({"case": small_case_json(c), "model": which, "cfg": cfg.name()}),
                        );
                    }
                    continue;
                }
            };
            let rewritten = op_multiset(&model) != base_ops;
            #[cfg(rten_verif)]
            if std::env::var_os("VERIF_DUMP").is_some() {
                let g = rten::verif::model_graph(&model);
                eprintln!("--- graph under {}", cfg.name());
                for (id, node) in g.iter() {
                    match node {
                        rten::verif::Node::Operator(op) => eprintln!(
                            "  op {:?} {} {:?} in={:?} out={:?}",
                            id,
                            op.operator().name(),
                            op.operator(),
                            op.input_ids().iter().map(|i| i.map(|i| g.node_name(i))).collect::<Vec<_>>(),
                            op.output_ids().iter().map(|i| i.map(|i| g.node_name(i))).collect::<Vec<_>>()
                        ),
                        rten::verif::Node::Constant(c) => eprintln!("  const {:?} {:?} shape {:?}", id, c.name(), c.shape()),
                        rten::verif::Node::Value(v) => eprintln!("  value {:?} {:?} shape {:?}", id, g.node_name(id), v.shape()),
                    }
                }
            }
            for k in 0..c.input_sets.len() {
                let Some(expected) = &base_out[k] else { continue };
                rep.eval();
                rep.count(&format!("runs_{}", cfg.name()));
                if rewritten {
                    rep.nontrivial(&(&c.id, which, cfg, k));
                    rep.count("runs_on_rewritten_graph");
                }
                match run_simple(&model, &c.input_set(k), &c.outputs, None) {
                    Err(e) => {
                        let kind = if e.starts_with("PANIC") { format!("run_panic:{}", panic_class(&e)) } else { "run_error".to_string() };
                        rep.violation(
                            format!("{}|{}", sig_head, kind),
                            format!("run with {} failed although the un-optimised model succeeds on the same input: {}", cfg.name(), e),
                            json!({"case": small_case_json(c), "model": which, "cfg": cfg.name(), "input_set": k}),
                        );
                    }
                    Ok(got) => {
                        for (g, e) in got.iter().zip(expected) {
                            if let Some(diff) = compare(g, e, Tol::for_class("model")) {
                                rep.violation(
                                    format!("{}|{}", sig_head, mismatch_kind(&diff)),
                                    format!(
                                        "{} [{}] output {} under {} differs from the un-optimised result: {} (graph rewritten: {})",
                                        c.family, c.variant, g.name, cfg.name(), diff, rewritten
                                    ),
                                    json!({"case": small_case_json(c), "model": which, "cfg": cfg.name(), "input_set": k, "output": g.name,
                                           "got": g.to_json(), "baseline": e.to_json(),
                                           "numpy": c.expected.get(k).and_then(|m| m.get(&g.name)).and_then(|t| t.as_ref()).map(|t| t.to_json())}),
                                );
                                break;
                            }
                        }
                    }
                }
            }
            if rewritten && rep.wants_sample() {
                let after = op_multiset(&model);
                rep.sample(|| json!({"case": c.id, "family": c.family, "variant": c.variant, "cfg": cfg.name(), "ops_before": base_ops, "ops_after": after}));
            }
        }
    }
}

pub fn run(args: &Args) {
    let mut rep = Report::new(
        "C01",
        "modelcheck c01",
        args,
        "ONNX models from three generators (fusion-pattern families with near-miss grids, shape-arithmetic chains, random DAGs; with and without value_info; several bindings of symbolic dims incl. 0/1 and NaN/inf values) loaded un-optimised without shape inference as baseline and under {optimise on/off} x {shape inference off/on/strict}; outputs compared (integers exact, floats 1e-4+1e-3 rel, NaN positions equal). non-trivial = the configuration's operator multiset differs from the baseline's (observed through the graph hook), i.e. the optimiser really rewrote the graph; distinct by (case, model variant, configuration, input set)",
    );
    let cases: Vec<Case> = if let Some(p) = &args.replay {
        let w: Json = serde_json::from_str(&std::fs::read_to_string(p).unwrap()).unwrap();
        let w = if w.get("witness").is_some() { w["witness"].clone() } else { w };
        let w = if w.get("witness").is_some() { w["witness"].clone() } else { w };
        vec![Case::from_json(w["case"].clone())]
    } else {
        let dir = pack_dir(args);
        let mut v = Vec::new();
        for fam in args.get("families").unwrap_or("patterns,dag").split(',') {
            if std::path::Path::new(&format!("{}/{}.jsonl", dir, fam)).exists() {
                v.extend(read_pack(&dir, fam, args.shard, args.shards));
            }
        }
        v
    };
    for c in &cases {
        check_case(&mut rep, c);
    }
    for c in pinned_cases(args) {
        check_case(&mut rep, &c);
        rep.count("pinned_witnesses_run");
    }
    if args.replay.is_some() {
        rep.nontrivial(&0u8);
        rep.nontrivial(&1u8);
    }
    rep.finish();
}
