//! C14 (input memory layouts), C13 (in-place / commuted execution) and C12
//! (declared output types) on single-operator models.
use std::sync::Mutex;

use rten::{Model, NodeId, Value, ValueOrView};
use vcommon::*;

use crate::common::*;

fn replay_or_pack(args: &Args) -> Vec<Case> {
    if let Some(p) = &args.replay {
        let w: Json = serde_json::from_str(&std::fs::read_to_string(p).unwrap()).unwrap();
        let w = if w.get("witness").is_some() { w["witness"].clone() } else { w };
        let w = if w.get("witness").is_some() { w["witness"].clone() } else { w };
        vec![Case::from_json(w["case"].clone())]
    } else {
        let mut v = read_pack(&pack_dir(args), "singleop", args.shard, args.shards);
        v.extend(pinned_cases(args));
        v
    }
}

fn in_shapes(inputs: &[&TData]) -> String {
    inputs.iter().map(|t| format!("{}{:?}", t.dtype, t.shape)).collect::<Vec<_>>().join(",")
}

// ------------------------------------------------------------------ C14

fn tol_for_layout(class: &str) -> Tol {
    match class {
        // Layout-dependent kernels may legitimately sum in another order.
        "accum" => Tol::Close(1e-4, 1e-4),
        _ => Tol::Exact,
    }
}

pub fn run_c14(args: &Args) {
    let mut rep = Report::new(
        "C14",
        "modelcheck c14",
        args,
        "every single-operator case re-run with each input independently passed as a permuted view (all axes reversed; last two axes swapped), a stepped slice (step 2 along the last axis; step 3 along the first) of a larger buffer whose gaps hold NaN / i32::MIN, a stride-0 broadcast view over the leading axis when its slices are equal, and - for every axis - a stride-0 broadcast along that axis after making the input constant along it (with its own contiguous baseline); outputs compared with the all-contiguous run (values exactly, -0 = +0 and NaN = NaN; accumulation tolerance for matmul/conv/reduction/normalisation operators). non-trivial = the alternative layout could be constructed for that input and the operator ran; distinct by (case, input set, input, layout)",
    );
    rep.max_samples = 10;
    let cases = replay_or_pack(args);
    for c in &cases {
        let op = c.op.clone().unwrap_or_default();
        if c.raw["random"].as_bool().unwrap_or(false) {
            continue;
        }
        let Ok(model) = load(&c.model, LoadCfg::BASE) else {
            rep.count(&format!("load_error:{}", op));
            continue;
        };
        for k in 0..c.input_sets.len() {
            let inputs = c.input_set(k);
            let Ok(base) = run_simple(&model, &inputs, &c.outputs, None) else {
                rep.count(&format!("run_error:{}", op));
                continue;
            };
            // (input position, layout, axis, replacement logical tensor, stored tensor)
            let mut variants: Vec<(usize, LayoutKind, usize, Option<TData>, Option<TData>)> = Vec::new();
            for (pos, t) in inputs.iter().enumerate() {
                for kind in [LayoutKind::Permuted, LayoutKind::Swapped, LayoutKind::Stepped, LayoutKind::SteppedOuter, LayoutKind::Broadcast] {
                    variants.push((pos, kind, 0, None, None));
                }
                // Stride-0 along every axis: the logical input is first made constant
                // along that axis, and gets its own contiguous baseline.
                for axis in 0..t.shape.len() {
                    if let Some((flat, reduced)) = flatten_axis(t, axis) {
                        variants.push((pos, LayoutKind::BroadcastAxis, axis, Some(flat), Some(reduced)));
                    }
                }
            }
            for (pos, kind, axis, flat, reduced) in &variants {
                let (pos, kind, axis) = (*pos, *kind, *axis);
                {
                    let mut inputs: Vec<&TData> = inputs.clone();
                    let flat_base;
                    let base: &Vec<TData> = if let Some(flat) = flat {
                        inputs[pos] = flat;
                        match run_simple(&model, &inputs, &c.outputs, None) {
                            Ok(b) => {
                                flat_base = b;
                                &flat_base
                            }
                            Err(_) => continue,
                        }
                    } else {
                        &base
                    };
                    let Some(staged) = Staged::new(reduced.as_ref().unwrap_or(inputs[pos]), kind) else { continue };
                    rep.eval();
                    let others: Vec<Value> = inputs.iter().map(|t| t.to_value()).collect();
                    let mut ins: Vec<(NodeId, ValueOrView)> = Vec::new();
                    let mut ok = true;
                    for (i, t) in inputs.iter().enumerate() {
                        let Some(id) = node_id(&model, &t.name) else {
                            ok = false;
                            break;
                        };
                        if i == pos {
                            ins.push((id, staged.view(&t.shape, kind)));
                        } else {
                            ins.push((id, ValueOrView::from(&others[i])));
                        }
                    }
                    if !ok {
                        continue;
                    }
                    rep.count(&format!("layout_{:?}", kind));
                    let kind_name = if kind == LayoutKind::BroadcastAxis { format!("BroadcastAxis{}of{}", axis, inputs[pos].shape.len()) } else { format!("{:?}", kind) };
                    match run_prepared(&model, ins, &c.outputs, None) {
                        Err(e) => {
                            // The contiguous run succeeded, so failing for another layout of the
                            // same logical input is a layout dependence.
                            rep.violation(
                                format!("C14|{}|{}|{}|input{}|error|in={}", op, c.variant["attrs"], kind_name, pos, in_shapes(&inputs)),
                                format!("{} fails when input {} is passed as a {} view but succeeds with contiguous inputs: {}", op, pos, kind_name, e),
                                json!({"case": small_case_json(c), "input_set": k, "input": pos, "layout": kind_name}),
                            );
                        }
                        Ok(got) => {
                            rep.nontrivial(&(&c.id, k, pos, kind, axis));
                            rep.count(&format!("op:{}", op));
                            for (g, b) in got.iter().zip(base) {
                                if let Some(diff) = compare(g, b, tol_for_layout(&c.tol)) {
                                    rep.violation(
                                        format!("C14|{}|{}|{}|input{}|{}|in={}", op, c.variant["attrs"], kind_name, pos, mismatch_kind(&diff), in_shapes(&inputs)),
                                        format!("{} ({}) with input {} as a {} view differs from the contiguous run: {}", op, c.variant["attrs"], pos, kind_name, diff),
                                        json!({"case": small_case_json(c), "input_set": k, "input": pos, "layout": kind_name,
                                               "got": g.to_json(), "contiguous": b.to_json()}),
                                    );
                                    break;
                                }
                            }
                            if rep.wants_sample() && rep.samples.iter().all(|s| s["op"] != json!(op)) {
                                rep.sample(|| json!({"op": op, "case": c.id, "input": pos, "layout": kind_name, "in": in_shapes(&inputs)}));
                            }
                        }
                    }
                }
            }
        }
    }
    let n_ops = rep.counters.keys().filter(|k| k.starts_with("op:")).count();
    rep.add("operators_covered", n_ops as u64);
    if args.replay.is_some() {
        rep.nontrivial(&0u8);
        rep.nontrivial(&1u8);
    }
    rep.finish();
}

// ------------------------------------------------------------------ C13

static EVENTS: Mutex<Vec<(String, Vec<usize>)>> = Mutex::new(Vec::new());

fn install_sink() {
    #[cfg(rten_verif)]
    {
        rten::verif::set_event_sink(Box::new(|ev| {
            if let rten::verif::Event::OpRun { op, in_place, .. } = ev {
                EVENTS.lock().unwrap().push((op, in_place));
            }
        }));
    }
}

fn take_events() -> Vec<(String, Vec<usize>)> {
    std::mem::take(&mut *EVENTS.lock().unwrap())
}

/// In-place input positions of the single operator in the model.
fn op_info(model: &Model, op_name: &str) -> Option<(Vec<usize>, bool)> {
    #[cfg(rten_verif)]
    {
        let g = rten::verif::model_graph(model);
        let id = g.get_node_id(op_name)?;
        if let Some(rten::verif::Node::Operator(op)) = g.get_node(id) {
            let set = op.operator().in_place_inputs();
            let idx: Vec<usize> = set.iter().map(|i| i as usize).collect();
            return Some((idx, op.operator().is_commutative()));
        }
    }
    let _ = (model, op_name);
    None
}

#[derive(Clone, Copy, Debug, PartialEq, Eq, Hash)]
enum OwnedKind {
    Exact,
    SpareCapacity,
    Permuted,
}

fn owned_value(t: &TData, kind: OwnedKind) -> Option<ValueOrView<'static>> {
    use rten_tensor::Tensor;
    use rten_tensor::prelude::*;
    match kind {
        OwnedKind::Exact => Some(t.to_value().into()),
        OwnedKind::Permuted => Staged::new(t, LayoutKind::Permuted).map(|s| s.into_owned()),
        OwnedKind::SpareCapacity => {
            if t.shape.is_empty() || t.shape[0] == 0 {
                return None;
            }
            fn with_cap<T: Copy + Default>(shape: &[usize], vals: Vec<T>) -> Tensor<T> {
                let mut cap_shape = shape.to_vec();
                cap_shape[0] += 3;
                let mut out: Tensor<T> = Tensor::with_capacity(&cap_shape, 0);
                let src = Tensor::from_data(shape, vals);
                out.append(0, &src).expect("append into capacity");
                out
            }
            Some(match t.dtype.as_str() {
                "f32" => with_cap(&t.shape, t.f32s()).into(),
                "i32" => with_cap(&t.shape, t.i32s()).into(),
                "u8" => with_cap(&t.shape, t.data.clone()).into(),
                "i8" => with_cap(&t.shape, t.data.iter().map(|b| *b as i8).collect::<Vec<i8>>()).into(),
                _ => return None,
            })
        }
    }
}

pub fn run_c13(args: &Args) {
    let mut rep = Report::new(
        "C13",
        "modelcheck c13",
        args,
        "for every single-operator case whose operator declares in-place inputs (read through the graph hook): the designated input is passed as an owned value (exact capacity, spare capacity, permuted) with the other inputs borrowed, so that the executor runs the operator in place; the result must equal the all-borrowed run in shape, dtype and values exactly (-0 = +0, NaN = NaN). For operators reporting is_commutative the operands are also swapped. non-trivial = the executor's OpRun event confirms the operator really ran in place; distinct by (case, input set, in-place input, owned layout)",
    );
    rep.max_samples = 10;
    install_sink();
    let cases = replay_or_pack(args);
    for c in &cases {
        let op = c.op.clone().unwrap_or_default();
        if c.raw["random"].as_bool().unwrap_or(false) || c.topo.len() != 1 {
            continue;
        }
        let Ok(model) = load(&c.model, LoadCfg::BASE) else { continue };
        let node_name = c.topo[0].0.clone();
        let node_inputs = c.topo[0].1.clone();
        let Some((in_place_idx, commutative)) = op_info(&model, &node_name) else {
            rep.count("operator_node_not_found");
            continue;
        };
        if in_place_idx.is_empty() {
            rep.count("ops_without_in_place_support");
            continue;
        }
        for k in 0..c.input_sets.len() {
            let inputs = c.input_set(k);
            let Ok(base) = run_simple(&model, &inputs, &c.outputs, None) else { continue };
            take_events();

            // Candidate positions: declared in-place inputs; for commutative
            // operators the executor may pick any operand.
            let mut positions = in_place_idx.clone();
            if commutative {
                positions = (0..node_inputs.len()).collect();
            }
            for &pos in &positions {
                // The operator input at `pos` must be a graph input (not a constant).
                let Some(vname) = node_inputs.get(pos) else { continue };
                let Some(ipos) = inputs.iter().position(|t| &t.name == vname) else { continue };
                // If the same value feeds the operator twice it cannot be taken.
                if node_inputs.iter().filter(|n| *n == vname).count() > 1 {
                    continue;
                }
                for okind in [OwnedKind::Exact, OwnedKind::SpareCapacity, OwnedKind::Permuted] {
                    let Some(owned) = owned_value(inputs[ipos], okind) else { continue };
                    rep.eval();
                    let others: Vec<Value> = inputs.iter().map(|t| t.to_value()).collect();
                    let mut ins: Vec<(NodeId, ValueOrView)> = Vec::new();
                    let mut owned = Some(owned);
                    for (i, t) in inputs.iter().enumerate() {
                        let id = node_id(&model, &t.name).unwrap();
                        if i == ipos {
                            ins.push((id, owned.take().unwrap()));
                        } else {
                            ins.push((id, ValueOrView::from(&others[i])));
                        }
                    }
                    let res = run_prepared(&model, ins, &c.outputs, None);
                    let events = take_events();
                    let ran_in_place = events.iter().any(|(_, ip)| !ip.is_empty());
                    let taken_pos: Vec<usize> = events.iter().flat_map(|(_, ip)| ip.clone()).collect();
                    if ran_in_place {
                        rep.nontrivial(&(&c.id, k, pos, okind));
                        rep.count(&format!("in_place:{}", op));
                        rep.count("ran_in_place");
                    } else {
                        rep.count("executor_chose_not_in_place");
                    }
                    match res {
                        Err(e) => {
                            rep.violation(
                                format!("C13|{}|{}|input{}|{:?}|error|in={}", op, c.variant["attrs"], pos, okind, in_shapes(&inputs)),
                                format!(
                                    "{} fails when input {} is owned ({:?}; in place: {}, taken positions {:?}) but succeeds with borrowed inputs: {}",
                                    op, pos, okind, ran_in_place, taken_pos, e
                                ),
                                json!({"case": small_case_json(c), "input_set": k, "input": pos, "owned": format!("{:?}", okind)}),
                            );
                        }
                        Ok(got) => {
                            for (g, b) in got.iter().zip(&base) {
                                if let Some(diff) = compare(g, b, Tol::Exact) {
                                    rep.violation(
                                        format!("C13|{}|{}|input{}|{:?}|{}|in={}", op, c.variant["attrs"], pos, okind, mismatch_kind(&diff), in_shapes(&inputs)),
                                        format!(
                                            "{} ({}) with input {} owned ({:?}; in place: {}, taken positions {:?}) differs from the borrowed run: {}",
                                            op, c.variant["attrs"], pos, okind, ran_in_place, taken_pos, diff
                                        ),
                                        json!({"case": small_case_json(c), "input_set": k, "input": pos, "owned": format!("{:?}", okind),
                                               "got": g.to_json(), "borrowed": b.to_json()}),
                                    );
                                    break;
                                }
                            }
                            if ran_in_place && rep.wants_sample() && rep.samples.iter().all(|s| s["op"] != json!(op)) {
                                rep.sample(|| json!({"op": op, "case": c.id, "owned_input": pos, "owned": format!("{:?}", okind), "taken": taken_pos, "in": in_shapes(&inputs)}));
                            }
                        }
                    }
                }
            }

            // Commuted operands through the operator object itself.
            if commutative && node_inputs.len() == 2 {
                commuted(&mut rep, c, k, &model, &node_name, &node_inputs, &inputs, &base);
            }
        }
    }
    let n_ops = rep.counters.keys().filter(|k| k.starts_with("in_place:")).count();
    rep.add("operators_run_in_place", n_ops as u64);
    if args.replay.is_none() && rep.counters.get("ran_in_place").copied().unwrap_or(0) == 0 {
        rep.inconclusive = Some("no operator was observed running in place".to_string());
    }
    if args.replay.is_some() {
        rep.nontrivial(&0u8);
        rep.nontrivial(&1u8);
    }
    rep.finish();
}

#[allow(clippy::too_many_arguments)]
fn commuted(rep: &mut Report, c: &Case, k: usize, model: &Model, node_name: &str, node_inputs: &[String], inputs: &[&TData], base: &[TData]) {
    #[cfg(rten_verif)]
    {
        use rten::verif::{BufferPool, InputList, Node, OpRunContext, OutputMask};
        let g = rten::verif::model_graph(model);
        let Some(id) = g.get_node_id(node_name) else { return };
        let Some(Node::Operator(opn)) = g.get_node(id) else { return };
        // Both operands must be graph inputs for this direct call.
        let vals: Vec<Option<Value>> = node_inputs.iter().map(|n| inputs.iter().find(|t| &t.name == n).map(|t| t.to_value())).collect();
        if vals.iter().any(|v| v.is_none()) {
            return;
        }
        let vals: Vec<Value> = vals.into_iter().map(|v| v.unwrap()).collect();
        rep.eval();
        rep.count("commuted_calls");
        let swapped = [vals[1].as_view(), vals[0].as_view()];
        let pool = BufferPool::new();
        let il = InputList::from(&swapped);
        let ctx = OpRunContext::new(&pool, &il, OutputMask::all_used(1));
        let res = catch(|| opn.operator().run(&ctx));
        let op = c.op.clone().unwrap_or_default();
        match res {
            Ok(Ok(out)) => {
                if let Some(got) = out.first().and_then(|v| TData::from_value(&base[0].name, v)) {
                    rep.nontrivial(&(&c.id, k, "commuted"));
                    if let Some(diff) = compare(&got, &base[0], Tol::Exact) {
                        rep.violation(
                            format!("C13|{}|{}|commuted|{}|in={}", op, c.variant["attrs"], mismatch_kind(&diff), in_shapes(inputs)),
                            format!("{} reports is_commutative but swapping the operands changes the result: {}", op, diff),
                            json!({"case": small_case_json(c), "input_set": k, "commuted": true, "got": got.to_json(), "normal": base[0].to_json()}),
                        );
                    }
                }
            }
            Ok(Err(e)) => {
                rep.violation(
                    format!("C13|{}|{}|commuted|error|in={}", op, c.variant["attrs"], in_shapes(inputs)),
                    format!("{} reports is_commutative but fails with swapped operands: {:?}", op, e),
                    json!({"case": small_case_json(c), "input_set": k, "commuted": true}),
                );
            }
            Err(p) => {
                rep.violation(
                    format!("C13|{}|{}|commuted|panic:{}|in={}", op, c.variant["attrs"], panic_class(&p), in_shapes(inputs)),
                    format!("{} reports is_commutative but panics with swapped operands: {}", op, p),
                    json!({"case": small_case_json(c), "input_set": k, "commuted": true}),
                );
            }
        }
    }
    let _ = (rep, c, k, model, node_name, node_inputs, inputs, base);
}

// ------------------------------------------------------------------ C12

fn vt_name(dtype: &str, seq: bool) -> String {
    if seq { format!("seq<{}>", dtype) } else { dtype.to_string() }
}

pub fn run_c12(args: &Args) {
    let mut rep = Report::new(
        "C12",
        "modelcheck c12",
        args,
        "for every single-operator case that runs: the operator's declared output-type rule (read through the graph hook and evaluated on the actual input types) and the type the public API reports for the output after shape/type inference (Model::node_info(..).dtype()) and the type map computed by the graph-level inference driver (hook; also for operators whose earlier outputs are left unconnected) are compared with the element type of the value the run really returns, with borrowed and with owned (in-place) inputs. non-trivial = the output type differs from the type of the first input (type-changing operator or attribute setting); distinct by (operator, attribute setting, input types)",
    );
    rep.max_samples = 12;
    let cases = replay_or_pack(args);
    for c in &cases {
        let op = c.op.clone().unwrap_or_default();
        if c.topo.len() != 1 {
            continue;
        }
        // Undeclared output types so that the model's metadata comes from inference only.
        let Ok(model) = load(&c.model, LoadCfg { optimize: false, shape_mode: 1, prepack: false }) else { continue };
        let node_name = &c.topo[0].0;
        let node_inputs = &c.topo[0].1;
        let node_outputs = &c.topo[0].2;
        for k in 0..c.input_sets.len().min(1) {
            let inputs = c.input_set(k);
            let Ok(got) = run_simple(&model, &inputs, &c.outputs, None) else { continue };
            rep.eval();
            rep.count(&format!("op:{}", op));
            // Actual input types, by operator input position.
            let in_types: Vec<Option<String>> = node_inputs
                .iter()
                .map(|n| {
                    if n.is_empty() {
                        None
                    } else {
                        inputs.iter().find(|t| &t.name == n).map(|t| t.dtype.clone()).or_else(|| c.raw["dtypes"][n].as_str().map(|s| s.to_string()))
                    }
                })
                .collect();
            #[cfg(rten_verif)]
            {
                use rten::verif::{Node, OutputType, OutputTypesContext};
                let g = rten::verif::model_graph(&model);
                if let Some(Node::Operator(opn)) = g.get_node_id(node_name).and_then(|id| g.get_node(id)) {
                    let rule = opn.operator().output_types(&OutputTypesContext { num_outputs: node_outputs.len() });
                    match rule {
                        None => rep.count("operators_without_type_rule"),
                        Some(list) => {
                            for (oi, out) in got.iter().enumerate() {
                                let Some(pos) = node_outputs.iter().position(|n| n == &out.name) else { continue };
                                let Some(r) = list.get(pos) else {
                                    rep.count("rule_shorter_than_outputs");
                                    continue;
                                };
                                let predicted: Option<String> = match r {
                                    OutputType::Fixed(vt) => Some(format!("{}", vt)),
                                    OutputType::CopyFromInput(i) => in_types.get(*i as usize).cloned().flatten().map(|d| rten_name(&d)),
                                    _ => None,
                                };
                                let actual = rten_name(&out.dtype);
                                if let Some(p) = predicted {
                                    rep.count("rules_evaluated");
                                    if in_types.first().cloned().flatten().map(|d| rten_name(&d)) != Some(actual.clone()) {
                                        rep.nontrivial(&(&op, format!("{}", c.variant["attrs"]), &in_types, oi));
                                    }
                                    if !type_eq(&p, &actual) {
                                        rep.violation(
                                            format!("C12|{}|{}|output{}|rule={}|actual={}|in={:?}", op, c.variant["attrs"], pos, p, actual, in_types),
                                            format!("{} ({}) output {} is produced as {} but the operator's output-type rule predicts {}", op, c.variant["attrs"], pos, actual, p),
                                            json!({"case": small_case_json(c), "input_set": k, "output": pos}),
                                        );
                                    }
                                }
                            }
                        }
                    }
                }
            }
            // In-place route: the same request with owned inputs, which the executor may
            // hand to run_in_place; the produced type must be the same.
            {
                let owned: Vec<(NodeId, ValueOrView)> = inputs.iter().filter_map(|t| node_id(&model, &t.name).map(|id| (id, ValueOrView::from(t.to_value())))).collect();
                if owned.len() == inputs.len() {
                    if let Ok(got2) = run_prepared(&model, owned, &c.outputs, None) {
                        rep.count("owned_input_runs");
                        for (a, b) in got.iter().zip(&got2) {
                            if a.dtype != b.dtype {
                                rep.violation(
                                    format!("C12|{}|{}|in_place_type|borrowed={}|owned={}", op, c.variant["attrs"], a.dtype, b.dtype),
                                    format!("{} ({}) output {} has type {} when the inputs are borrowed but {} when they are owned (in-place path)", op, c.variant["attrs"], a.name, a.dtype, b.dtype),
                                    json!({"case": small_case_json(c), "input_set": k, "output": a.name}),
                                );
                            }
                        }
                    }
                }
            }
            // Inference route: the type map the graph-level inference driver computes
            // (what the optimiser consumes), incl. nodes with unconnected outputs.
            #[cfg(rten_verif)]
            {
                use rten::verif::{infer_shapes, InferShapeOptions};
                let g = rten::verif::model_graph(&model);
                if let Ok(Ok(res)) = catch(|| infer_shapes(g, InferShapeOptions { strict: false, ..Default::default() }).map_err(|e| e.to_string())) {
                    for out in &got {
                        let Some(id) = node_id(&model, &out.name) else { continue };
                        let Some(vt) = res.types.get(&id) else { continue };
                        rep.count("inferred_types_checked");
                        let declared = format!("{}", vt);
                        let actual = rten_name(&out.dtype);
                        if !type_eq(&declared, &actual) {
                            rep.violation(
                                format!("C12|{}|{}|inferred_type|inferred={}|actual={}|omitted={}", op, c.variant["attrs"], declared, actual, c.variant["omitted_outputs"]),
                                format!("{} ({}) output {}: type inference says {} but the run returns {} (unconnected outputs: {})", op, c.variant["attrs"], out.name, declared, actual, c.variant["omitted_outputs"]),
                                json!({"case": small_case_json(c), "input_set": k, "output": out.name}),
                            );
                        }
                    }
                }
            }
            // Public route: type reported by node_info after inference.
            for out in &got {
                if let Some(id) = node_id(&model, &out.name) {
                    if let Some(info) = model.node_info(id) {
                        if let Some(vt) = info.dtype() {
                            rep.count("node_info_types_checked");
                            let declared = format!("{}", vt);
                            let actual = rten_name(&out.dtype);
                            // The generator declares output types in the model; node_info may
                            // echo that declaration. A contradiction is still a contradiction.
                            if !type_eq(&declared, &actual) {
                                rep.violation(
                                    format!("C12|{}|{}|node_info|declared={}|actual={}", op, c.variant["attrs"], declared, actual),
                                    format!("{} ({}) output {}: node_info reports {} but the run returns {}", op, c.variant["attrs"], out.name, declared, actual),
                                    json!({"case": small_case_json(c), "input_set": k, "output": out.name}),
                                );
                            }
                        }
                    }
                }
            }
            if rep.wants_sample() && rep.samples.iter().all(|s| s["op"] != json!(op)) && got.iter().any(|o| Some(&o.dtype) != in_types.first().and_then(|t| t.as_ref())) {
                rep.sample(|| json!({"op": op, "attrs": c.variant["attrs"], "input_types": in_types, "output_types": got.iter().map(|o| o.dtype.clone()).collect::<Vec<_>>()}));
            }
        }
    }
    let _ = vt_name;
    if args.replay.is_some() {
        rep.nontrivial(&0u8);
        rep.nontrivial(&1u8);
    }
    rep.finish();
}

/// Normalise type names: the harness uses f32/i32/u8/i8, rten's Display for
/// ValueType may differ ("float", "int32", ...).
fn rten_name(d: &str) -> String {
    match d {
        "f32" => "f32".into(),
        "i32" => "i32".into(),
        "u8" => "u8".into(),
        "i8" => "i8".into(),
        other => other.to_string(),
    }
}

fn type_eq(a: &str, b: &str) -> bool {
    fn canon(s: &str) -> String {
        let s = s.to_lowercase();
        let s = s.replace("tensor(", "").replace(')', "");
        match s.as_str() {
            "float" | "f32" | "float32" => "f32".into(),
            "int32" | "i32" | "int" => "i32".into(),
            "uint8" | "u8" => "u8".into(),
            "int8" | "i8" => "i8".into(),
            other => other.to_string(),
        }
    }
    canon(a) == canon(b)
}
