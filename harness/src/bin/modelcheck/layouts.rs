use vcommon::*;
pub fn run_c14(_args: &Args) {
    unimplemented!()
}
pub fn run_c13(_args: &Args) {
    unimplemented!()
}
