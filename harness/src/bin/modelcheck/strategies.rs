//! C02 (execution strategies), C04 (partial evaluation), C25 (determinism and
//! immutability), C26 (invalid requests) on random DAG / control-flow packs.
use std::collections::{HashMap, HashSet};
use std::sync::{Arc, Mutex};

use rten::{Model, NodeId, RunOptions, ThreadPool, Value, ValueOrView};
use vcommon::*;

use crate::common::*;

pub fn cases_from(args: &Args, default_families: &str) -> Vec<Case> {
    if let Some(p) = &args.replay {
        let w: Json = serde_json::from_str(&std::fs::read_to_string(p).unwrap()).unwrap();
        let w = if w.get("witness").is_some() { w["witness"].clone() } else { w };
        let w = if w.get("witness").is_some() { w["witness"].clone() } else { w };
        return vec![Case::from_json(w["case"].clone())];
    }
    let dir = pack_dir(args);
    let mut v = Vec::new();
    for fam in args.get("families").unwrap_or(default_families).split(',') {
        if std::path::Path::new(&format!("{}/{}.jsonl", dir, fam)).exists() {
            v.extend(read_pack(&dir, fam, args.shard, args.shards));
        }
    }
    v.extend(pinned_cases(args));
    v
}

fn ops_sig(c: &Case) -> String {
    let mut ops: Vec<&str> = c.topo.iter().map(|t| t.3.as_str()).collect();
    ops.sort();
    ops.dedup();
    ops.join(",")
}

// ------------------------------------------------------------------ events

#[derive(Clone, Debug)]
pub struct OpEv {
    pub node: u32,
    pub op: String,
    pub in_place: bool,
    pub by_value: usize,
}

static EVENTS: Mutex<Vec<OpEv>> = Mutex::new(Vec::new());
static POOL_RELEASES: Mutex<u64> = Mutex::new(0);

pub fn install_sink() {
    #[cfg(rten_verif)]
    {
        rten::verif::set_event_sink(Box::new(|ev| match ev {
            rten::verif::Event::OpRun { node, op, in_place, by_value_captures, .. } => {
                EVENTS.lock().unwrap().push(OpEv { node, op, in_place: !in_place.is_empty(), by_value: by_value_captures });
            }
            rten::verif::Event::PoolRelease { .. } => {
                *POOL_RELEASES.lock().unwrap() += 1;
            }
            _ => {}
        }));
    }
}

pub fn take_events() -> (Vec<OpEv>, u64) {
    let ev = std::mem::take(&mut *EVENTS.lock().unwrap());
    let pr = std::mem::take(&mut *POOL_RELEASES.lock().unwrap());
    (ev, pr)
}

// ------------------------------------------------------------------ reference

/// Operator-at-a-time evaluation through the public API: every operator of the
/// un-optimised model runs alone, with borrowed inputs (never in place) and a
/// fresh pool. Returns every value by name, or the first error.
pub fn op_at_a_time(model: &Model, c: &Case, inputs: &[&TData], order: &[usize]) -> Result<HashMap<String, TData>, String> {
    let mut env: HashMap<String, TData> = HashMap::new();
    for t in inputs {
        env.insert(t.name.clone(), (*t).clone());
    }
    for &i in order {
        let (_, ins, outs, _) = &c.topo[i];
        let mut feed: Vec<&TData> = Vec::new();
        let mut seen = HashSet::new();
        for n in ins {
            if n.is_empty() || !seen.insert(n.clone()) {
                continue;
            }
            if let Some(t) = env.get(n) {
                feed.push(t);
            }
            // else: an initializer, which the model holds itself
        }
        let wanted: Vec<String> = outs.iter().filter(|o| !o.is_empty()).cloned().collect();
        let res = run_simple(model, &feed, &wanted, None)?;
        for t in res {
            env.insert(t.name.clone(), t);
        }
    }
    Ok(env)
}

/// A random topological order of the case's operators.
fn topo_order(c: &Case, rng: &mut Rng) -> Vec<usize> {
    let n = c.topo.len();
    let producer: HashMap<&str, usize> = c.topo.iter().enumerate().flat_map(|(i, t)| t.2.iter().map(move |o| (o.as_str(), i))).collect();
    let mut indeg = vec![0usize; n];
    let mut succ: Vec<Vec<usize>> = vec![Vec::new(); n];
    for (i, t) in c.topo.iter().enumerate() {
        let mut deps = HashSet::new();
        for inp in &t.1 {
            if let Some(&p) = producer.get(inp.as_str()) {
                if p != i && deps.insert(p) {
                    indeg[i] += 1;
                    succ[p].push(i);
                }
            }
        }
    }
    let mut ready: Vec<usize> = (0..n).filter(|i| indeg[*i] == 0).collect();
    let mut order = Vec::new();
    while !ready.is_empty() {
        let k = rng.below(ready.len());
        let i = ready.swap_remove(k);
        order.push(i);
        for &s in &succ[i] {
            indeg[s] -= 1;
            if indeg[s] == 0 {
                ready.push(s);
            }
        }
    }
    order
}

// ------------------------------------------------------------------ C02

#[derive(Clone, Debug)]
struct Strategy {
    owned_mask: u32,
    use_pool: bool,
    threads: usize,
    prepack: bool,
    optimize: bool,
    extra_outputs: Vec<String>,
    rotate: usize,
}

impl Strategy {
    fn name(&self) -> String {
        format!(
            "owned={:b},pool={},threads={},prepack={},opt={},extra={},rot={}",
            self.owned_mask,
            self.use_pool as u8,
            self.threads,
            self.prepack as u8,
            self.optimize as u8,
            self.extra_outputs.len(),
            self.rotate
        )
    }
}

pub fn run_c02(args: &Args) {
    let mut rep = Report::new(
        "C02",
        "modelcheck c02",
        args,
        "random DAGs biased to in-place capable operators, values consumed twice, many consumers, outputs that are also intermediates (and control-flow models when present): each is run under strategies varying owned vs borrowed inputs (all 2^n masks for n<=3, sampled above), RTEN_USE_POOL 0/1, thread pools of 1/2/4/16 threads, weight prepacking, optimisation, extra requested intermediates and output order; every result is compared with an operator-at-a-time evaluation of the un-optimised model in a random topological order (integers exact, floats 1e-4+1e-3 rel) and with the other strategies of the same thread count/prepack/optimise group (values exactly; -0 = +0, NaN = NaN). non-trivial = the executor's OpRun events show an operator running in place under one strategy and not under another for the same case; distinct by (case, input set)",
    );
    install_sink();
    let cases = cases_from(args, "dag,cflow");
    let mut rng = Rng::derive(args.seed, 0xC02 + args.shard as u64);
    let pools: HashMap<usize, Arc<ThreadPool>> = [1usize, 2, 4, 16].into_iter().map(|n| (n, Arc::new(ThreadPool::with_num_threads(n)))).collect();
    for c in &cases {
        if !c.random_downstream.is_empty() {
            continue;
        }
        let Ok(base_model) = load(&c.model, LoadCfg::BASE) else {
            rep.count("base_load_error");
            continue;
        };
        // Models per (optimize, prepack).
        let mut models: HashMap<(bool, bool), Model> = HashMap::new();
        for opt in [false, true] {
            for pp in [false, true] {
                if let Ok(m) = load(&c.model, LoadCfg { optimize: opt, shape_mode: if opt { 1 } else { 0 }, prepack: pp }) {
                    models.insert((opt, pp), m);
                }
            }
        }
        for k in 0..c.input_sets.len() {
            let inputs = c.input_set(k);
            let order = topo_order(c, &mut rng);
            let reference = match op_at_a_time(&base_model, c, &inputs, &order) {
                Ok(r) => r,
                Err(_) => {
                    rep.count("reference_failed");
                    continue;
                }
            };
            let n_in = inputs.len();
            let mut strategies: Vec<Strategy> = Vec::new();
            let masks: Vec<u32> = if n_in <= 3 { (0..(1u32 << n_in)).collect() } else { (0..6).map(|_| rng.next_u32() & ((1 << n_in) - 1)).chain([0, (1 << n_in) - 1]).collect() };
            for &m in &masks {
                strategies.push(Strategy { owned_mask: m, use_pool: true, threads: 1, prepack: false, optimize: false, extra_outputs: vec![], rotate: 0 });
            }
            for _ in 0..10 {
                let n_extra = rng.below(3);
                let extra: Vec<String> = (0..n_extra).filter_map(|_| if c.internals.is_empty() { None } else { Some(rng.choose(&c.internals).clone()) }).collect();
                strategies.push(Strategy {
                    owned_mask: rng.next_u32() & ((1u32 << n_in.min(31)) - 1).max(0),
                    use_pool: rng.bool(),
                    threads: *rng.choose(&[1usize, 2, 4, 16]),
                    prepack: rng.bool(),
                    optimize: rng.bool(),
                    extra_outputs: extra,
                    rotate: rng.below(c.outputs.len().max(1)),
                });
            }
            let mut group_results: HashMap<(usize, bool, bool), (String, HashMap<String, TData>)> = HashMap::new();
            let mut in_place_sets: Vec<HashSet<u32>> = Vec::new();
            for st in &strategies {
                let Some(model) = models.get(&(st.optimize, st.prepack)) else { continue };
                rep.eval();
                // Requested outputs: rotated declared outputs + extras (deduplicated).
                let mut outs: Vec<String> = c.outputs.clone();
                let rot = st.rotate.min(outs.len().saturating_sub(1));
                outs.rotate_left(rot);
                if !st.optimize {
                    for e in &st.extra_outputs {
                        if !outs.contains(e) {
                            outs.push(e.clone());
                        }
                    }
                }
                let owned_vals: Vec<Value> = inputs.iter().map(|t| t.to_value()).collect();
                let mut ins: Vec<(NodeId, ValueOrView)> = Vec::new();
                let mut ok = true;
                for (i, (t, v)) in inputs.iter().zip(owned_vals.iter()).enumerate() {
                    let Some(id) = node_id(model, &t.name) else {
                        ok = false;
                        break;
                    };
                    if st.owned_mask >> i & 1 == 1 {
                        ins.push((id, ValueOrView::from(t.to_value())));
                    } else {
                        ins.push((id, ValueOrView::from(v)));
                    }
                }
                if !ok {
                    rep.count("input_not_found_in_optimised_model");
                    continue;
                }
                // Safety of set_var: this engine is single-threaded between runs.
                unsafe { std::env::set_var("RTEN_USE_POOL", if st.use_pool { "1" } else { "0" }) };
                let opts = RunOptions::default().with_thread_pool(Some(pools[&st.threads].clone()));
                take_events();
                let res = run_prepared(model, ins, &outs, Some(opts));
                let (events, releases) = take_events();
                rep.add("pool_releases", releases);
                let ip: HashSet<u32> = events.iter().filter(|e| e.in_place).map(|e| e.node).collect();
                rep.add("ops_run_in_place", ip.len() as u64);
                rep.add("by_value_captures", events.iter().map(|e| e.by_value as u64).sum());
                if !st.optimize {
                    in_place_sets.push(ip);
                }
                let sig_head = format!("C02|{}|ops={}|", c.family, ops_sig(c));
                match res {
                    Err(e) => {
                        let kind = if e.starts_with("PANIC") { format!("panic:{}", panic_class(&e)) } else { "error".to_string() };
                        rep.violation(
                            format!("{}{}|{}", sig_head, kind, strategy_class(st)),
                            format!("strategy [{}] fails although operator-at-a-time evaluation succeeds: {}", st.name(), e),
                            json!({"case": small_case_json(c), "input_set": k, "strategy": st.name()}),
                        );
                    }
                    Ok(got) => {
                        let got_map: HashMap<String, TData> = got.into_iter().map(|t| (t.name.clone(), t)).collect();
                        for (name, g) in &got_map {
                            let Some(r) = reference.get(name) else { continue };
                            if let Some(diff) = compare(g, r, Tol::for_class("model")) {
                                rep.violation(
                                    format!("{}{}|vs_reference|{}", sig_head, mismatch_kind(&diff), strategy_class(st)),
                                    format!("value {} under strategy [{}] differs from operator-at-a-time evaluation: {}", name, st.name(), diff),
                                    json!({"case": small_case_json(c), "input_set": k, "strategy": st.name(), "value": name, "got": g.to_json(), "reference": r.to_json()}),
                                );
                                break;
                            }
                        }
                        let key = (st.threads, st.prepack, st.optimize);
                        match group_results.get(&key) {
                            None => {
                                group_results.insert(key, (st.name(), got_map));
                            }
                            Some((other_name, other)) => {
                                for (name, g) in &got_map {
                                    let Some(o) = other.get(name) else { continue };
                                    if let Some(diff) = compare(g, o, Tol::Exact) {
                                        rep.violation(
                                            format!("{}{}|between_strategies|{}", sig_head, mismatch_kind(&diff), strategy_class(st)),
                                            format!("value {} differs between strategies [{}] and [{}]: {}", name, st.name(), other_name, diff),
                                            json!({"case": small_case_json(c), "input_set": k, "strategy": st.name(), "other": other_name, "value": name}),
                                        );
                                        break;
                                    }
                                }
                            }
                        }
                    }
                }
            }
            unsafe { std::env::remove_var("RTEN_USE_POOL") };
            // Non-trivial: in-place decisions differed between strategies.
            if in_place_sets.iter().any(|s| !s.is_empty()) && in_place_sets.windows(2).any(|w| w[0] != w[1]) {
                rep.nontrivial(&(&c.id, k));
                rep.count("cases_with_differing_in_place_decisions");
                if rep.wants_sample() {
                    rep.sample(|| json!({"case": c.id, "ops": ops_sig(c), "inputs": n_in, "strategies": strategies.len(), "in_place_sets": in_place_sets.iter().take(6).map(|s| s.len()).collect::<Vec<_>>()}));
                }
            }
        }
    }
    if args.replay.is_some() {
        rep.nontrivial(&0u8);
        rep.nontrivial(&1u8);
    }
    rep.finish();
}

fn strategy_class(st: &Strategy) -> String {
    format!(
        "owned={}|pool={}|threads={}|prepack={}|opt={}|extra={}",
        if st.owned_mask == 0 { "none" } else { "some" },
        st.use_pool as u8,
        if st.threads == 1 { "1" } else { "n" },
        st.prepack as u8,
        st.optimize as u8,
        (!st.extra_outputs.is_empty()) as u8
    )
}

// ------------------------------------------------------------------ C04

pub fn run_c04(args: &Args) {
    let mut rep = Report::new(
        "C04",
        "modelcheck c04",
        args,
        "random DAGs (optimised and not; some containing unseeded RandomUniform/RandomNormal(Like) operators): for every subset S of the inputs (all subsets for <=4 inputs; inputs passed once as views and once as owned values the executor may consume in place) partial_run(S, outputs) - outputs being the graph outputs, and the graph outputs plus one graph input and one constant - is fed back together with the remaining inputs and the result compared with a single full run (integers exact, floats 1e-6 rel). For random operators: nothing downstream of one may be returned by partial_run(no inputs), and two runs of the optimised model must give different random outputs (so it was not folded into a constant). non-trivial = partial_run returned at least one value that is neither an input nor a requested output; distinct by (case, input set, subset)",
    );
    let cases = cases_from(args, "dag,dagrand,cflow");
    for c in &cases {
        for optimize in [false, true] {
            let cfg = LoadCfg { optimize, shape_mode: if optimize { 1 } else { 0 }, prepack: false };
            let Ok(model) = load(&c.model, cfg) else { continue };
            let has_random = !c.random_downstream.is_empty();
            let tainted: HashSet<&str> = c.random_downstream.iter().map(|s| s.as_str()).collect();
            let det_outputs: Vec<String> = c.outputs.iter().filter(|o| !tainted.contains(o.as_str())).cloned().collect();
            let rnd_outputs: Vec<String> = c.outputs.iter().filter(|o| tainted.contains(o.as_str())).cloned().collect();
            for k in 0..c.input_sets.len() {
                let inputs = c.input_set(k);
                if has_random {
                    check_random(&mut rep, c, &model, cfg, &inputs, &rnd_outputs, &tainted, k);
                }
                if det_outputs.is_empty() {
                    continue;
                }
                // Requested outputs: the deterministic graph outputs, then the same plus
                // one graph input and one constant (outputs that are inputs or constants).
                let mut output_variants: Vec<Vec<String>> = vec![det_outputs.clone()];
                {
                    let mut rng = Rng::derive(args.seed, (k as u64) << 8 | optimize as u64);
                    let mut v = det_outputs.clone();
                    if !inputs.is_empty() {
                        v.insert(rng.below(v.len() + 1), inputs[rng.below(inputs.len())].name.clone());
                    }
                    let consts: Vec<&String> = c.initializers.iter().filter(|n| node_id(&model, n).is_some()).collect();
                    if !consts.is_empty() {
                        v.insert(rng.below(v.len() + 1), consts[rng.below(consts.len())].clone());
                    }
                    if v.len() > det_outputs.len() {
                        output_variants.push(v);
                    }
                }
                for (variant, det_outputs) in output_variants.iter().enumerate() {
                let Ok(full) = run_simple(&model, &inputs, det_outputs, None) else { continue };
                if variant > 0 {
                    rep.count("output_lists_with_input_or_constant");
                }
                let n = inputs.len();
                let subsets: Vec<u32> = if n <= 4 { (0..(1u32 << n)).collect() } else { vec![0, 1, (1 << n) - 1, 0b1010 & ((1 << n) - 1), 0b0101 & ((1 << n) - 1)] };
                for (mask, owned) in subsets.iter().flat_map(|m| [(*m, false), (*m, true)]) {
                    if owned && mask == 0 {
                        continue;
                    }
                    rep.eval();
                    let vals: Vec<Value> = inputs.iter().map(|t| t.to_value()).collect();
                    let mut part_ins: Vec<(NodeId, ValueOrView)> = Vec::new();
                    let mut ok = true;
                    for (i, (t, v)) in inputs.iter().zip(&vals).enumerate() {
                        if mask >> i & 1 == 1 {
                            match node_id(&model, &t.name) {
                                // Owned inputs may be consumed in place by the executor.
                                Some(id) if owned => part_ins.push((id, ValueOrView::from(v.clone()))),
                                Some(id) => part_ins.push((id, ValueOrView::from(v))),
                                None => ok = false,
                            }
                        }
                    }
                    if owned {
                        rep.count("partial_runs_with_owned_inputs");
                    }
                    let out_ids: Option<Vec<NodeId>> = det_outputs.iter().map(|o| node_id(&model, o)).collect();
                    let (Some(out_ids), true) = (out_ids, ok) else { continue };
                    let partial = catch(|| model.partial_run(part_ins, &out_ids, None));
                    let sig_head = format!("C04|{}|ops={}|opt={}{}{}|", c.family, ops_sig(c), optimize as u8, if owned { ",owned" } else { "" }, if variant > 0 { ",out=input+const" } else { "" });
                    let partial = match partial {
                        Err(p) => {
                            rep.violation(
                                format!("{}partial_run_panic:{}", sig_head, panic_class(&p)),
                                format!("partial_run with input subset {:b} panicked: {}", mask, p),
                                json!({"case": small_case_json(c), "input_set": k, "subset": mask, "owned": owned, "outputs": det_outputs, "optimize": optimize}),
                            );
                            continue;
                        }
                        Ok(Err(e)) => {
                            rep.count("partial_run_error");
                            let _ = e;
                            continue;
                        }
                        Ok(Ok(p)) => p,
                    };
                    // Feed back: partial results + the inputs not in S (inputs in S
                    // may or may not be needed any more; give all remaining).
                    let supplied: HashSet<NodeId> = partial.iter().map(|(id, _)| *id).collect();
                    let input_ids: HashSet<NodeId> = inputs.iter().filter_map(|t| node_id(&model, &t.name)).collect();
                    let interesting = partial.iter().any(|(id, _)| !input_ids.contains(id) && !out_ids.contains(id));
                    let mut ins2: Vec<(NodeId, ValueOrView)> = Vec::new();
                    for (id, v) in &partial {
                        ins2.push((*id, ValueOrView::from(v)));
                    }
                    for (i, (t, v)) in inputs.iter().zip(&vals).enumerate() {
                        let Some(id) = node_id(&model, &t.name) else { continue };
                        if mask >> i & 1 == 0 && !supplied.contains(&id) {
                            ins2.push((id, ValueOrView::from(v)));
                        }
                    }
                    let second = run_prepared(&model, ins2, &det_outputs, None);
                    if interesting {
                        rep.nontrivial(&(&c.id, optimize, k, mask, owned, variant));
                        rep.count("partial_results_with_intermediates");
                    }
                    match second {
                        Err(e) => {
                            rep.violation(
                                format!("{}second_stage_{}", sig_head, if e.starts_with("PANIC") { "panic" } else { "error" }),
                                format!("run(partial_run(S={:b}) + remaining inputs) fails although the full run succeeds: {}", mask, e),
                                json!({"case": small_case_json(c), "input_set": k, "subset": mask, "owned": owned, "outputs": det_outputs, "optimize": optimize}),
                            );
                        }
                        Ok(got) => {
                            for (g, f) in got.iter().zip(&full) {
                                if let Some(diff) = compare(g, f, Tol::Close(1e-6, 1e-6)) {
                                    rep.violation(
                                        format!("{}{}", sig_head, mismatch_kind(&diff)),
                                        format!("output {} of run(partial_run(S={:b}) + rest) differs from the full run: {}", g.name, mask, diff),
                                        json!({"case": small_case_json(c), "input_set": k, "subset": mask, "owned": owned, "outputs": det_outputs, "optimize": optimize, "got": g.to_json(), "full": f.to_json()}),
                                    );
                                    break;
                                }
                            }
                            if interesting && rep.wants_sample() {
                                rep.sample(|| json!({"case": c.id, "subset": format!("{:b}", mask), "optimize": optimize, "partial_values": partial.len(), "ops": ops_sig(c)}));
                            }
                        }
                    }
                }
                }
            }
        }
    }
    if args.replay.is_some() {
        rep.nontrivial(&0u8);
        rep.nontrivial(&1u8);
    }
    rep.finish();
}

#[allow(clippy::too_many_arguments)]
fn check_random(rep: &mut Report, c: &Case, model: &Model, cfg: LoadCfg, inputs: &[&TData], rnd_outputs: &[String], tainted: &HashSet<&str>, k: usize) {
    // (1) partial_run with no inputs must not return anything downstream of a random operator.
    let all_out: Vec<String> = c.outputs.clone();
    let out_ids: Option<Vec<NodeId>> = all_out.iter().map(|o| node_id(model, o)).collect();
    if let Some(out_ids) = out_ids {
        rep.eval();
        rep.count("random_partial_checks");
        if let Ok(Ok(partial)) = catch(|| model.partial_run(vec![], &out_ids, None)) {
            #[cfg(rten_verif)]
            {
                let g = rten::verif::model_graph(model);
                for (id, _) in &partial {
                    let name = g.node_name(*id);
                    if tainted.contains(name.as_str()) {
                        rep.violation(
                            format!("C04|{}|ops={}|opt={}|random_value_in_partial_run", c.family, ops_sig(c), cfg.optimize as u8),
                            format!("partial_run(no inputs) returned {} which is downstream of an unseeded random operator", name),
                            json!({"case": small_case_json(c), "input_set": k, "optimize": cfg.optimize}),
                        );
                    }
                }
            }
            rep.nontrivial(&(&c.id, cfg.optimize, k, "random_partial"));
        }
    }
    // (2) two runs must differ for random outputs with enough elements.
    if !rnd_outputs.is_empty() {
        let a = run_simple(model, inputs, rnd_outputs, None);
        let b = run_simple(model, inputs, rnd_outputs, None);
        if let (Ok(a), Ok(b)) = (a, b) {
            rep.eval();
            rep.count("random_rerun_checks");
            // Only outputs that are the direct result of a generator with >= 16
            // f32 elements are decisive (a derived value could be constant, eg. x*0).
            let direct: HashSet<&str> = c.topo.iter().filter(|t| t.3.starts_with("Random")).flat_map(|t| t.2.iter().map(|s| s.as_str())).collect();
            for (x, y) in a.iter().zip(&b) {
                if direct.contains(x.name.as_str()) && x.dtype == "f32" && x.numel() >= 16 && x.data == y.data {
                    rep.violation(
                        format!("C04|{}|ops={}|opt={}|random_output_repeats", c.family, ops_sig(c), cfg.optimize as u8),
                        format!("unseeded random output {} is identical in two runs: it was evaluated once and folded", x.name),
                        json!({"case": small_case_json(c), "input_set": k, "optimize": cfg.optimize}),
                    );
                }
            }
            rep.nontrivial(&(&c.id, cfg.optimize, k, "random_rerun"));
        }
    }
}

// ------------------------------------------------------------------ C25

pub fn run_c25(args: &Args) {
    let mut rep = Report::new(
        "C25",
        "modelcheck c25",
        args,
        "random DAG / control-flow models (deterministic operators only): histories of 4-8 runs with varying input sets, requested outputs and owned/borrowed inputs, ending with a repeat of the first request. Checked: the repeat is bit-identical to the first run; two consecutive identical runs are bit-identical; the bytes of every borrowed input's backing storage (including the gaps of stepped views) are unchanged after each run; every initializer read back through run([], [const]) still equals the value in the model file; a request that additionally supplies an (altered) intermediate value gives the same outputs after a plain request on the same model as on a freshly loaded model. A separate probe runs large single-operator models (reductions, softmax, normalisation, matmul, pooling over 2^18-2^21 elements) twelve times on the shared thread pool and requires bit-identical outputs. non-trivial = some operator ran in place or a buffer was recycled through the pool during the history (OpRun / PoolRelease events); distinct by (case, config)",
    );
    install_sink();
    let cases = cases_from(args, "dag,cflow");
    let mut rng = Rng::derive(args.seed, 0xC25 + args.shard as u64);
    for c in &cases {
        if !c.random_downstream.is_empty() || c.input_sets.is_empty() {
            continue;
        }
        for optimize in [false, true] {
            let cfg = LoadCfg { optimize, shape_mode: if optimize { 1 } else { 0 }, prepack: rng.bool() };
            let Ok(model) = load(&c.model, cfg) else { continue };
            let sig_head = format!("C25|{}|ops={}|opt={}|", c.family, ops_sig(c), optimize as u8);
            // First request.
            let inputs0 = c.input_set(0);
            let Ok(first) = run_simple(&model, &inputs0, &c.outputs, None) else { continue };
            rep.eval();
            take_events();
            let mut inplace = 0usize;
            let mut releases = 0u64;
            let n_hist = rng.urange(3, 7);
            for h in 0..n_hist {
                let k = rng.below(c.input_sets.len());
                let inputs = c.input_set(k);
                // Borrowed inputs in assorted layouts, with storage snapshots.
                let mut staged: Vec<(usize, Staged, LayoutKind)> = Vec::new();
                let mut owned_idx: Vec<usize> = Vec::new();
                for (i, t) in inputs.iter().enumerate() {
                    if rng.chance(1, 3) {
                        owned_idx.push(i);
                        continue;
                    }
                    let kind = *rng.choose(&[LayoutKind::Contiguous, LayoutKind::Stepped, LayoutKind::Permuted]);
                    match Staged::new(t, kind) {
                        Some(s) => staged.push((i, s, kind)),
                        None => staged.push((i, Staged::new(t, LayoutKind::Contiguous).unwrap(), LayoutKind::Contiguous)),
                    }
                }
                let before: Vec<Vec<u8>> = staged.iter().map(|(_, s, _)| s.storage_bytes()).collect();
                let mut ins: Vec<(NodeId, ValueOrView)> = Vec::new();
                let mut ok = true;
                for (i, t) in inputs.iter().enumerate() {
                    let Some(id) = node_id(&model, &t.name) else {
                        ok = false;
                        break;
                    };
                    if owned_idx.contains(&i) {
                        ins.push((id, ValueOrView::from(t.to_value())));
                    } else {
                        let (_, s, kind) = staged.iter().find(|(j, _, _)| *j == i).unwrap();
                        ins.push((id, s.view(&t.shape, *kind)));
                    }
                }
                if !ok {
                    break;
                }
                let mut outs = c.outputs.clone();
                if !optimize && !c.internals.is_empty() && rng.bool() {
                    let e = rng.choose(&c.internals).clone();
                    if !outs.contains(&e) {
                        outs.push(e);
                    }
                }
                let res = run_prepared(&model, ins, &outs, None);
                let (ev, rel) = take_events();
                inplace += ev.iter().filter(|e| e.in_place).count();
                releases += rel;
                rep.eval();
                // Borrowed inputs unchanged?
                for ((i, s, kind), b) in staged.iter().zip(&before) {
                    if &s.storage_bytes() != b {
                        rep.violation(
                            format!("{}borrowed_input_modified|layout={:?}", sig_head, kind),
                            format!("the backing storage of borrowed input {} ({:?}) changed during a run (history step {})", inputs[*i].name, kind, h),
                            json!({"case": small_case_json(c), "optimize": optimize, "input_set": k, "input": inputs[*i].name}),
                        );
                    }
                }
                // A second identical run with contiguous borrowed inputs must equal the first such run.
                if res.is_ok() && rng.chance(1, 2) {
                    let a = run_simple(&model, &inputs, &c.outputs, None);
                    let b = run_simple(&model, &inputs, &c.outputs, None);
                    if let (Ok(a), Ok(b)) = (a, b) {
                        for (x, y) in a.iter().zip(&b) {
                            if let Some(diff) = compare(x, y, Tol::Bits) {
                                rep.violation(
                                    format!("{}consecutive_runs_differ|{}", sig_head, mismatch_kind(&diff)),
                                    format!("two consecutive identical runs differ for output {}: {}", x.name, diff),
                                    json!({"case": small_case_json(c), "optimize": optimize, "input_set": k}),
                                );
                                break;
                            }
                        }
                    }
                    take_events();
                }
            }
            // Repeat of the first request.
            if let Ok(last) = run_simple(&model, &inputs0, &c.outputs, None) {
                for (x, y) in first.iter().zip(&last) {
                    if let Some(diff) = compare(x, y, Tol::Bits) {
                        rep.violation(
                            format!("{}history_dependent|{}", sig_head, mismatch_kind(&diff)),
                            format!("repeating the first request after {} other runs gives a different output {}: {}", n_hist, x.name, diff),
                            json!({"case": small_case_json(c), "optimize": optimize}),
                        );
                        break;
                    }
                }
            }
            take_events();
            // A request that additionally supplies an intermediate value (owned) must give
            // the same answer on this model - whose plan cache holds the plan of the plain
            // request - as on a freshly loaded model.
            if !optimize && !c.internals.is_empty() {
                let vname = rng.choose(&c.internals).clone();
                if let (Some(vid), Ok(fresh)) = (node_id(&model, &vname), load(&c.model, cfg)) {
                    if let Ok(vals) = run_simple(&model, &inputs0, std::slice::from_ref(&vname), None) {
                        // A different value than the model would compute itself.
                        let mut supplied = vals[0].clone();
                        for b in supplied.data.iter_mut().step_by(if supplied.dtype == "f32" || supplied.dtype == "i32" { 4 } else { 1 }) {
                            *b ^= 0x10;
                        }
                        let request = |m: &Model| -> Result<Vec<TData>, String> {
                            let vals: Vec<Value> = inputs0.iter().map(|t| t.to_value()).collect();
                            let mut ins: Vec<(NodeId, ValueOrView)> = Vec::new();
                            for (t, v) in inputs0.iter().zip(&vals) {
                                let id = node_id(m, &t.name).ok_or("input not found")?;
                                ins.push((id, ValueOrView::from(v)));
                            }
                            ins.push((node_id(m, &vname).ok_or("value not found")?, ValueOrView::from(supplied.to_value())));
                            run_prepared(m, ins, &c.outputs, None)
                        };
                        let _ = vid;
                        let want = request(&fresh);
                        // Prime the cache with the plain request, then ask.
                        let _ = run_simple(&model, &inputs0, &c.outputs, None);
                        let got = request(&model);
                        rep.eval();
                        rep.count("requests_with_supplied_intermediate");
                        match (want, got) {
                            (Ok(w), Ok(g)) => {
                                for (x, y) in g.iter().zip(&w) {
                                    if let Some(diff) = compare(x, y, Tol::Bits) {
                                        rep.violation(
                                            format!("{}history_dependent_with_supplied_value|{}", sig_head, mismatch_kind(&diff)),
                                            format!("a run that supplies intermediate value {} gives a different output {} after a plain run on the same model than on a fresh model: {}", vname, x.name, diff),
                                            json!({"case": small_case_json(c), "optimize": optimize, "supplied": vname}),
                                        );
                                        break;
                                    }
                                }
                            }
                            (Ok(_), Err(e)) => {
                                rep.violation(
                                    format!("{}history_dependent_with_supplied_value|error", sig_head),
                                    format!("a run that supplies intermediate value {} fails after a plain run on the same model but succeeds on a fresh model: {}", vname, e),
                                    json!({"case": small_case_json(c), "optimize": optimize, "supplied": vname}),
                                );
                            }
                            _ => rep.count("supplied_intermediate_request_refused_on_fresh_model"),
                        }
                    }
                }
            }
            take_events();
            // Constants unchanged (un-optimised model keeps initializer names).
            if !optimize {
                for name in &c.initializers {
                    let Some(Some(want)) = c.expected[0].get(name) else { continue };
                    match run_simple(&model, &[], std::slice::from_ref(name), None) {
                        Ok(got) => {
                            rep.count("constants_read_back");
                            if let Some(diff) = compare(&got[0], want, Tol::Exact) {
                                rep.violation(
                                    format!("{}constant_changed|{}", sig_head, mismatch_kind(&diff)),
                                    format!("initializer {} read back after the history differs from the model file: {}", name, diff),
                                    json!({"case": small_case_json(c), "optimize": optimize, "constant": name}),
                                );
                            }
                        }
                        Err(_) => rep.count("constant_read_back_failed"),
                    }
                }
            }
            if inplace > 0 || releases > 0 {
                rep.nontrivial(&(&c.id, optimize));
                rep.add("in_place_op_runs", inplace as u64);
                rep.add("pool_releases", releases);
                if rep.wants_sample() {
                    rep.sample(|| json!({"case": c.id, "optimize": optimize, "history_len": n_hist, "in_place_op_runs": inplace, "pool_releases": releases, "ops": ops_sig(c)}));
                }
            }
        }
    }
    if args.replay.is_none() {
        crate::bigdet::run_big_determinism(&mut rep, args);
    }
    if args.replay.is_some() {
        rep.nontrivial(&0u8);
        rep.nontrivial(&1u8);
    }
    rep.finish();
}

// ------------------------------------------------------------------ C26

pub fn run_c26(args: &Args) {
    let mut rep = Report::new(
        "C26",
        "modelcheck c26",
        args,
        "for each generated model the valid request is mutated: unknown node ids (NodeId::from_u32 beyond the graph), operator ids used as inputs or outputs, duplicated input or output ids (appended, and replacing another id so that the request has the same length as the valid request whose plan is in the cache), a missing required input, a graph input that is not supplied but requested as an output, an input with the wrong dtype, wrong rank or a wrong fixed dimension, alone and in pairs, through run and partial_run; every such request must return Err and must not panic. Valid variations (extra unused inputs) are run too so that the check does not demand errors where none is due. non-trivial = a mutated request (not the control); distinct by (case, mutation)",
    );
    let cases = cases_from(args, "dag,cflow");
    let mut rng = Rng::derive(args.seed, 0xC26 + args.shard as u64);
    for c in &cases {
        if c.input_sets.is_empty() {
            continue;
        }
        let cfg26 = if std::env::var_os("VERIF_C26_BASE").is_some() { LoadCfg::BASE } else { LoadCfg::DEFAULT };
        let Ok(model) = load(&c.model, cfg26) else { continue };
        let inputs = c.input_set(0);
        if run_simple(&model, &inputs, &c.outputs, None).is_err() {
            continue;
        }
        let in_ids: Vec<NodeId> = inputs.iter().filter_map(|t| node_id(&model, &t.name)).collect();
        if std::env::var_os("VERIF_DUMP").is_some() {
            for (t, id) in inputs.iter().zip(&in_ids) {
                eprintln!("input {} id {:?} info shape {:?} dtype {:?}", t.name, id, model.node_info(*id).and_then(|i| i.shape()), model.node_info(*id).and_then(|i| i.dtype()));
            }
        }
        let out_ids: Vec<NodeId> = c.outputs.iter().filter_map(|o| node_id(&model, o)).collect();
        if in_ids.len() != inputs.len() || out_ids.len() != c.outputs.len() {
            continue;
        }
        // Operator ids: find_node(op name) returns operator nodes.
        let op_ids: Vec<NodeId> = c.topo.iter().filter_map(|t| node_id(&model, &t.0)).collect();
        let unknown = NodeId::from_u32(1_000_000 + rng.below(1000) as u32);
        let decl = &c.raw["input_decl"];

        #[derive(Clone, Debug)]
        enum Mut {
            UnknownInput,
            UnknownOutput,
            OpAsInput,
            OpAsOutput,
            DupInput,
            DupOutput,
            /// Same number of ids as the valid request that primed the plan cache,
            /// but one id replaced by a duplicate of another.
            DupInputSameLen,
            DupOutputSameLen,
            /// A graph input that is not supplied is requested as an output.
            UnsuppliedInputAsOutput(usize),
            MissingInput(usize),
            WrongDtype(usize),
            WrongRank(usize),
            WrongFixedDim(usize),
        }
        let mut muts: Vec<Mut> = vec![Mut::UnknownInput, Mut::UnknownOutput, Mut::DupOutput];
        if !op_ids.is_empty() {
            muts.push(Mut::OpAsInput);
            muts.push(Mut::OpAsOutput);
        }
        if !inputs.is_empty() {
            muts.push(Mut::DupInput);
        }
        if inputs.len() >= 2 {
            muts.push(Mut::DupInputSameLen);
        }
        if out_ids.len() >= 2 {
            muts.push(Mut::DupOutputSameLen);
        }
        // Which inputs are actually needed by the requested outputs? Determine by probing:
        // a request without input i that still succeeds means i was not required.
        for i in 0..inputs.len() {
            muts.push(Mut::MissingInput(i));
            muts.push(Mut::UnsuppliedInputAsOutput(i));
            muts.push(Mut::WrongDtype(i));
            // An input declared without a shape has no rank to contradict.
            if decl[&inputs[i].name].is_array() {
                muts.push(Mut::WrongRank(i));
            } else {
                rep.count("inputs_declared_without_shape");
            }
            let has_fixed = decl[&inputs[i].name].as_array().map(|a| a.iter().any(|d| d.is_u64())).unwrap_or(false);
            if has_fixed && !inputs[i].shape.is_empty() {
                muts.push(Mut::WrongFixedDim(i));
            }
        }
        for m in &muts {
            for via_partial in [false, true] {
                rep.eval();
                // The valid request runs first, so that the plan cache holds its plan
                // when the invalid one arrives (a cache hit must not bypass validation).
                let _ = run_simple(&model, &inputs, &c.outputs, None);
                let vals: Vec<Value> = inputs.iter().map(|t| t.to_value()).collect();
                let mut ins: Vec<(NodeId, ValueOrView)> = in_ids.iter().zip(&vals).map(|(id, v)| (*id, ValueOrView::from(v))).collect();
                let mut outs = out_ids.clone();
                let mut err_required = true;
                let mut extra_holder: Vec<Value> = Vec::new();
                match m {
                    Mut::UnknownInput => {
                        extra_holder.push(TData::from_f32("x", &[1], &[0.0]).to_value());
                    }
                    Mut::UnknownOutput => outs.push(unknown),
                    Mut::OpAsInput => {
                        extra_holder.push(TData::from_f32("x", &[1], &[0.0]).to_value());
                    }
                    Mut::OpAsOutput => outs.push(op_ids[0]),
                    Mut::DupInput => {
                        extra_holder.push(inputs[0].to_value());
                    }
                    Mut::DupOutput => {
                        let o = outs[0];
                        outs.push(o);
                    }
                    Mut::DupInputSameLen => {
                        extra_holder.push(inputs[0].to_value());
                    }
                    Mut::DupOutputSameLen => {
                        let n = outs.len();
                        outs[n - 1] = outs[0];
                    }
                    Mut::UnsuppliedInputAsOutput(i) => {
                        ins.remove(*i);
                        if rng.bool() {
                            outs.push(in_ids[*i]);
                        } else {
                            outs = vec![in_ids[*i]];
                        }
                        // partial_run may legitimately return nothing for it.
                        if via_partial {
                            err_required = false;
                        }
                    }
                    Mut::MissingInput(i) => {
                        ins.remove(*i);
                        // Only an error if the input is required for these outputs; partial_run
                        // tolerates missing inputs by design.
                        err_required = false;
                    }
                    Mut::WrongDtype(i) => {
                        let t = inputs[*i];
                        let other = if t.dtype == "f32" { TData::from_i32(&t.name, &t.shape, &vec![0; t.numel()]) } else { TData::from_f32(&t.name, &t.shape, &vec![0.0; t.numel()]) };
                        extra_holder.push(other.to_value());
                    }
                    Mut::WrongRank(i) => {
                        let t = inputs[*i];
                        let mut shape = t.shape.clone();
                        shape.insert(0, 1);
                        let mut t2 = (*t).clone();
                        t2.shape = shape;
                        extra_holder.push(t2.to_value());
                    }
                    Mut::WrongFixedDim(i) => {
                        let t = inputs[*i];
                        let dims = decl[&t.name].as_array().unwrap();
                        let d = dims.iter().position(|x| x.is_u64()).unwrap();
                        let mut shape = t.shape.clone();
                        shape[d] += 1;
                        let n: usize = shape.iter().product();
                        let t2 = if t.dtype == "f32" { TData::from_f32(&t.name, &shape, &vec![0.0; n]) } else if t.dtype == "i32" { TData::from_i32(&t.name, &shape, &vec![0; n]) } else { continue };
                        extra_holder.push(t2.to_value());
                    }
                }
                // Wire the replacement / extra value in.
                match m {
                    Mut::UnknownInput => ins.push((unknown, ValueOrView::from(&extra_holder[0]))),
                    Mut::OpAsInput => ins.push((op_ids[0], ValueOrView::from(&extra_holder[0]))),
                    Mut::DupInput => ins.push((in_ids[0], ValueOrView::from(&extra_holder[0]))),
                    Mut::DupInputSameLen => {
                        let n = ins.len();
                        ins[n - 1] = (in_ids[0], ValueOrView::from(&extra_holder[0]));
                    }
                    Mut::WrongDtype(i) | Mut::WrongRank(i) | Mut::WrongFixedDim(i) => ins[*i] = (in_ids[*i], ValueOrView::from(&extra_holder[0])),
                    _ => {}
                }
                let mname = format!("{:?}", m).split('(').next().unwrap().to_string();
                rep.count(&format!("mut_{}", mname));
                rep.nontrivial(&(&c.id, &mname, via_partial, match m { Mut::MissingInput(i) | Mut::UnsuppliedInputAsOutput(i) | Mut::WrongDtype(i) | Mut::WrongRank(i) | Mut::WrongFixedDim(i) => *i, _ => 0 }));
                let res: Result<Result<(), String>, String> = if via_partial {
                    catch(|| model.partial_run(ins, &outs, None).map(|_| ()).map_err(|e| format!("{}", e)))
                } else {
                    catch(|| model.run(ins, &outs, None).map(|_| ()).map_err(|e| format!("{}", e)))
                };
                let sig = format!("C26|{}|{}|", mname, if via_partial { "partial_run" } else { "run" });
                match res {
                    Err(p) => {
                        rep.violation(
                            format!("{}panic:{}", sig, panic_class(&p)),
                            format!("{} with mutation {:?} panicked: {}", if via_partial { "partial_run" } else { "run" }, m, p),
                            json!({"case": small_case_json(c), "mutation": format!("{:?}", m), "partial": via_partial}),
                        );
                    }
                    Ok(Ok(())) => {
                        // partial_run is documented to evaluate what it can: type / shape /
                        // id validity still applies to what is supplied, but a missing
                        // input is fine.
                        let required = err_required && !(via_partial && matches!(m, Mut::WrongDtype(_) | Mut::WrongRank(_) | Mut::WrongFixedDim(_)) && false);
                        if required {
                            rep.violation(
                                format!("{}accepted", sig),
                                format!("{} accepted an invalid request ({:?}) and returned Ok", if via_partial { "partial_run" } else { "run" }, m),
                                json!({"case": small_case_json(c), "mutation": format!("{:?}", m), "partial": via_partial}),
                            );
                        } else {
                            rep.count("missing_input_not_required_or_tolerated");
                        }
                    }
                    Ok(Err(_)) => rep.count("rejected_with_error"),
                }
            }
        }
        // Control: an extra, unused but valid input must be accepted. Use a constant's
        // name? Not addressable as an input. Instead pass all inputs and request a subset.
        if out_ids.len() > 1 {
            rep.eval();
            let vals: Vec<Value> = inputs.iter().map(|t| t.to_value()).collect();
            let ins: Vec<(NodeId, ValueOrView)> = in_ids.iter().zip(&vals).map(|(id, v)| (*id, ValueOrView::from(v))).collect();
            match catch(|| model.run(ins, &out_ids[..1], None).map(|_| ())) {
                Ok(Ok(())) => rep.count("control_ok"),
                Ok(Err(_)) => rep.count("control_rejected"),
                Err(p) => rep.violation(format!("C26|control|panic:{}", panic_class(&p)), format!("valid request panicked: {}", p), json!({"case": small_case_json(c)})),
            }
        }
    }
    if args.replay.is_some() {
        rep.nontrivial(&0u8);
        rep.nontrivial(&1u8);
    }
    rep.finish();
}

// ------------------------------------------------------------------ C24

pub fn run_c24(args: &Args) {
    let mut rep = Report::new(
        "C24",
        "modelcheck c24",
        args,
        "If / Loop models (nested to depth 2, loops feeding Ifs; bodies whose first consumer of a captured parent value is an in-place capable operator; captures that are graph inputs, constants or operator outputs; captured values used again after the control-flow operator or not; trip counts 0/1/3, conditions turning false mid-way, scan outputs) each paired with the inlined model the generator builds from the same body functions (branch chosen by the concrete condition, loop unrolled for the concrete iteration count). Bodies also hold subgraph-local constants (a MatMul weight, an elementwise constant) that differ between the two branches of an If. Both are run un-optimised (values compared exactly), optimised and with pre-packed weights (1e-4+1e-3 rel), with inputs borrowed and owned. non-trivial = the executor's events show the control-flow operator ran and at least one parent value was passed to the subgraph by value or an operator inside ran in place; distinct by (case, input set, config, ownership)",
    );
    install_sink();
    let cases = cases_from(args, "cflow");
    for c in &cases {
        let Some(alt_bytes) = &c.alt_model else { continue };
        let alt_outputs: Vec<String> = c.raw["alt_outputs"].as_array().map(|a| a.iter().map(|s| s.as_str().unwrap_or("").to_string()).collect()).unwrap_or_default();
        if alt_outputs.len() != c.outputs.len() {
            continue;
        }
        for cfg in [LoadCfg::BASE, LoadCfg::DEFAULT, LoadCfg { optimize: false, shape_mode: 0, prepack: true }, LoadCfg { optimize: true, shape_mode: 1, prepack: true }] {
            let (Ok(cf), Ok(alt)) = (load(&c.model, cfg), load(alt_bytes, cfg)) else {
                rep.count("load_error");
                continue;
            };
            let tol = if cfg.optimize || cfg.prepack { Tol::for_class("model") } else { Tol::Exact };
            for k in 0..c.input_sets.len() {
                let inputs = c.input_set(k);
                let Ok(want) = run_simple(&alt, &inputs, &alt_outputs, None) else {
                    rep.count("inlined_model_failed");
                    continue;
                };
                for owned in [false, true] {
                    rep.eval();
                    let vals: Vec<Value> = inputs.iter().map(|t| t.to_value()).collect();
                    let mut ins: Vec<(NodeId, ValueOrView)> = Vec::new();
                    let mut ok = true;
                    for (t, v) in inputs.iter().zip(&vals) {
                        match node_id(&cf, &t.name) {
                            Some(id) => ins.push((id, if owned { ValueOrView::from(t.to_value()) } else { ValueOrView::from(v) })),
                            None => ok = false,
                        }
                    }
                    if !ok {
                        continue;
                    }
                    take_events();
                    let res = run_prepared(&cf, ins, &c.outputs, None);
                    let (ev, _) = take_events();
                    let cf_ran = ev.iter().any(|e| e.op == "If" || e.op == "Loop");
                    let by_value: usize = ev.iter().map(|e| e.by_value).sum();
                    let inplace = ev.iter().filter(|e| e.in_place).count();
                    rep.add("by_value_captures", by_value as u64);
                    rep.add("in_place_op_runs", inplace as u64);
                    if cf_ran && (by_value > 0 || inplace > 0) {
                        rep.nontrivial(&(&c.id, k, cfg, owned));
                    }
                    let sig_head = format!("C24|{}|cfg={}|owned={}|", c.variant, cfg.name(), owned as u8);
                    match res {
                        Err(e) => {
                            // A zero-iteration loop's scan output has no defined shape: tolerated.
                            rep.violation(
                                format!("{}{}", sig_head, if e.starts_with("PANIC") { format!("panic:{}", panic_class(&e)) } else { "error".to_string() }),
                                format!("control-flow model fails although the inlined model succeeds: {}", e),
                                json!({"case": small_case_json(c), "input_set": k, "cfg": cfg.name(), "owned": owned}),
                            );
                        }
                        Ok(got) => {
                            for ((g, w), name) in got.iter().zip(&want).zip(&c.outputs) {
                                let mut w2 = w.clone();
                                w2.name = name.clone();
                                if let Some(diff) = compare(g, &w2, tol) {
                                    rep.violation(
                                        format!("{}{}", sig_head, mismatch_kind(&diff)),
                                        format!("output {} of the control-flow model differs from the inlined model: {}", name, diff),
                                        json!({"case": small_case_json(c), "input_set": k, "cfg": cfg.name(), "owned": owned, "output": name,
                                               "got": g.to_json(), "inlined": w.to_json(),
                                               "numpy": c.expected.get(k).and_then(|m| m.get(name)).and_then(|t| t.as_ref()).map(|t| t.to_json())}),
                                    );
                                    break;
                                }
                            }
                            if cf_ran && by_value > 0 && rep.wants_sample() {
                                rep.sample(|| json!({"case": c.id, "variant": c.variant, "cfg": cfg.name(), "owned": owned, "by_value_captures": by_value, "in_place": inplace}));
                            }
                        }
                    }
                }
            }
        }
    }
    if args.replay.is_some() {
        rep.nontrivial(&0u8);
        rep.nontrivial(&1u8);
    }
    rep.finish();
}
