//! C25 probe: large single-operator models run repeatedly on the shared
//! thread pool must give bit-identical outputs. The generated packs only hold
//! small tensors; kernels that split work across threads by size are reached
//! here.
use rten::{NodeId, Value, ValueOrView};
use rten_tensor::Tensor;
use vcommon::onnxpb::{self, Attr, Dim};
use vcommon::*;

use crate::common::*;

struct Big {
    name: &'static str,
    op: &'static str,
    attrs: Vec<(&'static str, Attr)>,
    /// input shapes (all f32)
    inputs: Vec<Vec<usize>>,
    /// extra constant int64 input (e.g. reduction axes)
    axes: Option<Vec<i64>>,
    opset: i64,
}

fn cases(thorough: bool) -> Vec<Big> {
    let n = if thorough { 1 << 21 } else { 1 << 19 };
    let mut v = vec![
        Big { name: "ReduceSum-all", op: "ReduceSum", attrs: vec![("keepdims", Attr::Int(0))], inputs: vec![vec![n]], axes: Some(vec![0]), opset: 17 },
        Big { name: "ReduceSum-rows", op: "ReduceSum", attrs: vec![], inputs: vec![vec![4, n / 4]], axes: Some(vec![1]), opset: 17 },
        Big { name: "ReduceSum-cols", op: "ReduceSum", attrs: vec![], inputs: vec![vec![n / 8, 8]], axes: Some(vec![0]), opset: 17 },
        Big { name: "ReduceMean-all", op: "ReduceMean", attrs: vec![], inputs: vec![vec![n]], axes: None, opset: 17 },
        Big { name: "ReduceMean-3d", op: "ReduceMean", attrs: vec![("axes", Attr::Ints(vec![0, 2]))], inputs: vec![vec![8, n / 64, 8]], axes: None, opset: 17 },
        Big { name: "ReduceL2", op: "ReduceL2", attrs: vec![], inputs: vec![vec![n]], axes: None, opset: 17 },
        Big { name: "ReduceSumSquare", op: "ReduceSumSquare", attrs: vec![], inputs: vec![vec![2, n / 2]], axes: None, opset: 17 },
        Big { name: "ReduceProd", op: "ReduceProd", attrs: vec![("axes", Attr::Ints(vec![1]))], inputs: vec![vec![n / 16, 16]], axes: None, opset: 17 },
        Big { name: "ReduceLogSumExp", op: "ReduceLogSumExp", attrs: vec![], inputs: vec![vec![n / 2]], axes: None, opset: 17 },
        Big { name: "Softmax", op: "Softmax", attrs: vec![("axis", Attr::Int(-1))], inputs: vec![vec![2, n / 2]], axes: None, opset: 17 },
        Big { name: "LogSoftmax", op: "LogSoftmax", attrs: vec![("axis", Attr::Int(-1))], inputs: vec![vec![n / 1024, 1024]], axes: None, opset: 17 },
        Big { name: "GlobalAveragePool", op: "GlobalAveragePool", attrs: vec![], inputs: vec![vec![1, 2, 512, n / 1024]], axes: None, opset: 17 },
        Big { name: "AveragePool", op: "AveragePool", attrs: vec![("kernel_shape", Attr::Ints(vec![3, 3])), ("strides", Attr::Ints(vec![2, 2]))], inputs: vec![vec![1, 4, 256, n / 1024]], axes: None, opset: 17 },
        Big { name: "MatMul", op: "MatMul", attrs: vec![], inputs: vec![vec![384, 512], vec![512, 640]], axes: None, opset: 17 },
        Big { name: "MatMul-vec", op: "MatMul", attrs: vec![], inputs: vec![vec![1, 4096], vec![4096, 1024]], axes: None, opset: 17 },
        Big { name: "MatMul-batched", op: "MatMul", attrs: vec![], inputs: vec![vec![6, 128, 256], vec![6, 256, 96]], axes: None, opset: 17 },
        Big { name: "Gemm", op: "Gemm", attrs: vec![("transB", Attr::Int(1))], inputs: vec![vec![300, 700], vec![500, 700]], axes: None, opset: 17 },
        Big { name: "Add-broadcast", op: "Add", attrs: vec![], inputs: vec![vec![n / 256, 256], vec![256]], axes: None, opset: 17 },
        Big { name: "Mean", op: "Mean", attrs: vec![], inputs: vec![vec![n / 4], vec![n / 4], vec![n / 4]], axes: None, opset: 17 },
        Big { name: "CumSum", op: "CumSum", attrs: vec![], inputs: vec![vec![64, n / 256]], axes: Some(vec![1]), opset: 17 },
        Big { name: "Tanh", op: "Tanh", attrs: vec![], inputs: vec![vec![n]], axes: None, opset: 17 },
        Big { name: "Erf", op: "Erf", attrs: vec![], inputs: vec![vec![n]], axes: None, opset: 17 },
        Big { name: "Transpose", op: "Transpose", attrs: vec![("perm", Attr::Ints(vec![1, 0]))], inputs: vec![vec![1024, n / 1024]], axes: None, opset: 17 },
    ];
    // Contractions over several labels at once, and reductions expressed as Einsum.
    for (name, eq, shapes) in [
        ("Einsum-bij,bij->b", "bij,bij->b", vec![vec![4, 300, 200], vec![4, 300, 200]]),
        ("Einsum-ij,ij->", "ij,ij->", vec![vec![700, 300], vec![700, 300]]),
        ("Einsum-abf->a", "abf->a", vec![vec![3, 500, 100]]),
        ("Einsum-bik,bkj->bij", "bik,bkj->bij", vec![vec![2, 96, 200], vec![2, 200, 64]]),
    ] {
        v.push(Big { name, op: "Einsum", attrs: vec![("equation", Attr::Str(eq.to_string()))], inputs: shapes, axes: None, opset: 17 });
    }
    // Random operators with an explicit seed are deterministic by contract (seed 0 included).
    for (name, seed) in [("Dropout-seed0", 0i64), ("Dropout-seed7", 7)] {
        v.push(Big { name, op: "Dropout", attrs: vec![("seed", Attr::Int(seed))], inputs: vec![vec![64, 128]], axes: None, opset: 13 });
    }
    for (name, op, seed) in [("RandomUniformLike-seed0", "RandomUniformLike", 0.0f32), ("RandomNormalLike-seed5", "RandomNormalLike", 5.0)] {
        v.push(Big { name, op, attrs: vec![("seed", Attr::Float(seed))], inputs: vec![vec![32, 64]], axes: None, opset: 17 });
    }
    // Normalisation operators take scale/bias inputs.
    v.push(Big { name: "LayerNormalization", op: "LayerNormalization", attrs: vec![("axis", Attr::Int(-1))], inputs: vec![vec![n / 2048, 2048], vec![2048], vec![2048]], axes: None, opset: 17 });
    v.push(Big { name: "InstanceNormalization", op: "InstanceNormalization", attrs: vec![], inputs: vec![vec![1, 4, n / 16], vec![4], vec![4]], axes: None, opset: 17 });
    v.push(Big { name: "Conv", op: "Conv", attrs: vec![("kernel_shape", Attr::Ints(vec![3, 3])), ("pads", Attr::Ints(vec![1, 1, 1, 1]))], inputs: vec![vec![2, 8, 96, 128], vec![16, 8, 3, 3]], axes: None, opset: 17 });
    v
}

fn build(b: &Big) -> Vec<u8> {
    let mut in_names: Vec<String> = (0..b.inputs.len()).map(|i| format!("x{}", i)).collect();
    let mut inits = Vec::new();
    if let Some(ax) = &b.axes {
        inits.push(onnxpb::tensor_i64("axes", &[ax.len() as i64], ax));
        in_names.push("axes".into());
    }
    if b.op == "Dropout" {
        // ratio = 0.5, training_mode = true
        inits.push(onnxpb::tensor_f32("ratio", &[], &[0.5]));
        inits.push(onnxpb::tensor_raw("training", onnxpb::BOOL, &[], &[1u8]));
        in_names.push("ratio".into());
        in_names.push("training".into());
    }
    let ins: Vec<&str> = in_names.iter().map(|s| s.as_str()).collect();
    let attrs: Vec<(&str, Attr)> = b.attrs.iter().map(|(k, v)| (*k, v.clone())).collect();
    let node = onnxpb::node(b.op, "n0", &ins, &["y"], &attrs);
    let inputs: Vec<onnxpb::Pb> = b.inputs.iter().enumerate().map(|(i, s)| onnxpb::value_info(&format!("x{}", i), onnxpb::FLOAT, Some(&s.iter().map(|d| Dim::Fixed(*d as i64)).collect::<Vec<_>>()))).collect();
    let outputs = vec![onnxpb::value_info("y", onnxpb::FLOAT, None)];
    let g = onnxpb::graph("g", &[node], &inits, &inputs, &outputs);
    onnxpb::model(&g, b.opset)
}

pub fn run_big_determinism(rep: &mut Report, args: &Args) {
    if args.shard != 0 {
        return;
    }
    let reps = 12;
    for b in cases(args.thorough) {
        let bytes = build(&b);
        let Ok(model) = load(&bytes, LoadCfg::DEFAULT) else {
            rep.count(&format!("bigdet_load_error:{}", b.name));
            continue;
        };
        let mut rng = Rng::derive(args.seed, 0xB16 + b.name.len() as u64);
        // Non-integer data of mixed magnitude so that the order of additions shows.
        let values: Vec<Value> = b
            .inputs
            .iter()
            .map(|shape| {
                let n: usize = shape.iter().product();
                let data: Vec<f32> = (0..n).map(|_| rng.f32_in(-0.5, 0.5) * if rng.chance(1, 64) { 1000.0 } else { 1.0 } + 0.001).collect();
                Tensor::from_data(shape.as_slice(), data).into()
            })
            .collect();
        let ids: Option<Vec<NodeId>> = (0..b.inputs.len()).map(|i| node_id(&model, &format!("x{}", i))).collect();
        let (Some(ids), Some(out)) = (ids, node_id(&model, "y")) else { continue };
        let mut first: Option<Vec<u8>> = None;
        let mut distinct = 1;
        let mut failed = false;
        for r in 0..reps {
            let ins: Vec<(NodeId, ValueOrView)> = ids.iter().zip(&values).map(|(id, v)| (*id, ValueOrView::from(v))).collect();
            let res = catch(|| model.run(ins, &[out], None).map_err(|e| e.to_string()));
            let got = match res {
                Ok(Ok(mut v)) => TData::from_value("y", &v.remove(0)),
                _ => None,
            };
            let Some(got) = got else {
                rep.count(&format!("bigdet_run_error:{}", b.name));
                failed = true;
                break;
            };
            rep.eval();
            match &first {
                None => first = Some(got.data),
                Some(f) => {
                    if *f != got.data {
                        distinct += 1;
                        let idx = f.chunks(4).zip(got.data.chunks(4)).position(|(a, b)| a != b).unwrap_or(0);
                        rep.violation(
                            format!("C25|big_single_op|{}|runs_differ", b.name),
                            format!("{} over inputs {:?} run {} times with the same borrowed inputs on the shared thread pool: run {} differs from run 0 at element {} ({:?} vs {:?})", b.name, b.inputs, reps, r, idx, &f[idx * 4..idx * 4 + 4], &got.data[idx * 4..idx * 4 + 4]),
                            json!({"mode": "bigdet", "name": b.name}),
                        );
                        break;
                    }
                }
            }
        }
        if !failed {
            rep.count("big_single_op_models_run");
            rep.nontrivial(&("bigdet", b.name, distinct));
        }
    }
}
