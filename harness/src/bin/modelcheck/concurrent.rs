//! C22: several threads using one Model concurrently get sequential results.
use std::collections::HashSet;
use std::sync::atomic::{AtomicBool, AtomicU64, AtomicUsize, Ordering};
use std::sync::{Arc, Mutex, mpsc};
use std::time::Duration;

use rten::{NodeId, RunOptions, ThreadPool, Value, ValueOrView};
use vcommon::*;

use crate::common::*;
use crate::strategies::cases_from;

static IN_FLIGHT: AtomicUsize = AtomicUsize::new(0);
static PLAN_CREATED: AtomicU64 = AtomicU64::new(0);
static PLAN_HIT: AtomicU64 = AtomicU64::new(0);
static REPLACED_WHILE_BUSY: AtomicU64 = AtomicU64::new(0);
static YIELD_SEED: AtomicU64 = AtomicU64::new(1);
static YIELDS_ON: AtomicBool = AtomicBool::new(false);
static SIGNATURE: Mutex<Vec<u8>> = Mutex::new(Vec::new());

fn install_hooks() {
    #[cfg(rten_verif)]
    {
        rten::verif::set_event_sink(Box::new(|ev| match ev {
            rten::verif::Event::PlanCreated { is_subgraph, .. } => {
                PLAN_CREATED.fetch_add(1, Ordering::SeqCst);
                if IN_FLIGHT.load(Ordering::SeqCst) > 1 {
                    REPLACED_WHILE_BUSY.fetch_add(1, Ordering::SeqCst);
                }
                if let Ok(mut s) = SIGNATURE.lock() {
                    if s.len() < 4096 {
                        s.push(if is_subgraph { b'c' } else { b'C' });
                    }
                }
            }
            rten::verif::Event::PlanCacheHit { is_subgraph } => {
                PLAN_HIT.fetch_add(1, Ordering::SeqCst);
                if let Ok(mut s) = SIGNATURE.lock() {
                    if s.len() < 4096 {
                        s.push(if is_subgraph { b'h' } else { b'H' });
                    }
                }
            }
            _ => {}
        }));
        rten::verif::set_yield_fn(Box::new(|_site| {
            if !YIELDS_ON.load(Ordering::Relaxed) {
                return;
            }
            // Cheap seeded decision shared by all threads.
            let x = YIELD_SEED.fetch_add(0x9e3779b97f4a7c15, Ordering::Relaxed);
            let r = (x ^ (x >> 29)).wrapping_mul(0xbf58476d1ce4e5b9) >> 60;
            match r {
                0..=5 => {}
                6..=11 => std::thread::yield_now(),
                12..=14 => {
                    if !cfg!(miri) {
                        std::thread::sleep(Duration::from_micros(20 + (x % 200)));
                    } else {
                        std::thread::yield_now();
                    }
                }
                _ => {
                    for _ in 0..200 {
                        std::hint::spin_loop();
                    }
                }
            }
        }));
    }
}

#[derive(Clone)]
struct Request {
    input_set: usize,
    outputs: Vec<String>,
    partial: bool,
    expected: Option<Vec<TData>>,
}

pub fn run_c22(args: &Args) {
    let mut rep = Report::new(
        "C22",
        "modelcheck c22",
        args,
        "2-8 threads share one loaded model (random DAGs and If/Loop models, optimised or not, with or without prepacked weights); every thread issues its own list of run / partial_run requests whose (input ids, output ids) key differs from its neighbours', so consecutive calls from different threads replace the cached execution plan (also in nested subgraph caches); seeded yields/sleeps at the hook sites between plan hand-off and execution. Each result must equal the result of the same request executed alone beforehand (values exactly: every call uses its own single-thread pool). A group that does not finish within the watchdog is inconclusive, not a violation. non-trivial = a plan was created (cache replaced) while at least one other call was in flight; distinct by (case, schedule seed)",
    );
    install_hooks();
    let cases = cases_from(args, "dag,cflow");
    let miri = cfg!(miri);
    let mut rng = Rng::derive(args.seed, 0xC22 + args.shard as u64);
    let max_cases = args.budget(if miri { 3 } else { 150 }, if miri { 12 } else { 4000 }) as usize;
    let mut sigs: HashSet<u64> = HashSet::new();
    let mut done = 0usize;
    for c in &cases {
        if done >= max_cases {
            break;
        }
        if !c.random_downstream.is_empty() || c.input_sets.is_empty() || c.outputs.is_empty() {
            continue;
        }
        let cfg = LoadCfg { optimize: rng.bool(), shape_mode: 1, prepack: rng.bool() };
        let Ok(model) = load(&c.model, cfg) else { continue };
        let model = Arc::new(model);
        // Requests: subsets of outputs x input sets, computed alone first.
        YIELDS_ON.store(false, Ordering::SeqCst);
        let mut pool_of_requests: Vec<Request> = Vec::new();
        let n_out = c.outputs.len();
        for k in 0..c.input_sets.len() {
            let mut masks: Vec<u32> = vec![(1u32 << n_out.min(20)) - 1];
            for _ in 0..4 {
                masks.push(1 + rng.next_u32() % ((1u32 << n_out.min(20)) - 1).max(1));
            }
            masks.sort();
            masks.dedup();
            for m in masks {
                let outs: Vec<String> = c.outputs.iter().enumerate().filter(|(i, _)| m >> i & 1 == 1).map(|(_, o)| o.clone()).collect();
                if outs.is_empty() {
                    continue;
                }
                let expected = run_simple(&model, &c.input_set(k), &outs, Some(single_thread_opts())).ok();
                pool_of_requests.push(Request { input_set: k, outputs: outs.clone(), partial: false, expected });
                if rng.chance(1, 4) {
                    // Only requests whose partial_run does not panic when executed alone.
                    let inputs = c.input_set(k);
                    let vals: Vec<Value> = inputs.iter().map(|t| t.to_value()).collect();
                    let ins: Vec<(NodeId, ValueOrView)> = inputs.iter().zip(&vals).filter_map(|(t, v)| node_id(&model, &t.name).map(|id| (id, ValueOrView::from(v)))).collect();
                    let out_ids: Vec<NodeId> = outs.iter().filter_map(|o| node_id(&model, o)).collect();
                    if catch(|| model.partial_run(ins, &out_ids, Some(single_thread_opts())).map(|_| ())).is_ok() {
                        pool_of_requests.push(Request { input_set: k, outputs: outs, partial: true, expected: None });
                    }
                }
            }
        }
        if pool_of_requests.len() < 2 || pool_of_requests.iter().all(|r| r.expected.is_none()) {
            continue;
        }
        done += 1;
        let n_threads = if miri { 2 } else { rng.urange(2, 8) };
        let calls_per_thread = if miri { 3 } else { rng.urange(5, 25) };
        let sched_seed = rng.next_u64();
        YIELD_SEED.store(sched_seed, Ordering::SeqCst);
        YIELDS_ON.store(true, Ordering::SeqCst);
        SIGNATURE.lock().unwrap().clear();
        let (c0, h0, r0) = (PLAN_CREATED.load(Ordering::SeqCst), PLAN_HIT.load(Ordering::SeqCst), REPLACED_WHILE_BUSY.load(Ordering::SeqCst));
        let (tx, rx) = mpsc::channel::<(usize, Vec<String>)>();
        let mut handles = Vec::new();
        for t in 0..n_threads {
            let model = model.clone();
            let tx = tx.clone();
            let case = c.clone();
            // Each thread walks the request pool from its own offset with its own
            // stride, so neighbours rarely issue the same key back to back.
            let reqs: Vec<Request> = (0..calls_per_thread).map(|i| pool_of_requests[(t * 7 + i * (t + 1)) % pool_of_requests.len()].clone()).collect();
            handles.push(std::thread::spawn(move || {
                let mut problems: Vec<String> = Vec::new();
                for (i, r) in reqs.iter().enumerate() {
                    let inputs = case.input_set(r.input_set);
                    IN_FLIGHT.fetch_add(1, Ordering::SeqCst);
                    if r.partial {
                        let vals: Vec<Value> = inputs.iter().map(|t| t.to_value()).collect();
                        let ins: Vec<(NodeId, ValueOrView)> = inputs.iter().zip(&vals).filter_map(|(t, v)| node_id(&model, &t.name).map(|id| (id, ValueOrView::from(v)))).collect();
                        let outs: Vec<NodeId> = r.outputs.iter().filter_map(|o| node_id(&model, o)).collect();
                        if let Err(p) = catch(|| model.partial_run(ins, &outs, Some(single_thread_opts())).map(|_| ())) {
                            problems.push(format!("panic in partial_run (thread {} call {}): {}", t, i, p));
                        }
                    } else {
                        let res = run_simple(&model, &inputs, &r.outputs, Some(single_thread_opts()));
                        match (&res, &r.expected) {
                            (Ok(got), Some(exp)) => {
                                for (g, e) in got.iter().zip(exp) {
                                    if let Some(diff) = compare(g, e, Tol::Exact) {
                                        problems.push(format!("result differs from the sequential result for output {} (thread {} call {}): {}", g.name, t, i, diff));
                                        break;
                                    }
                                }
                            }
                            (Err(e), Some(_)) => problems.push(format!("call failed although it succeeds alone (thread {} call {}): {}", t, i, e)),
                            (Ok(_), None) => problems.push(format!("call succeeded although it fails alone (thread {} call {})", t, i)),
                            // Fails alone as well (error or panic): not caused by concurrency.
                            (Err(_), None) => {}
                        }
                    }
                    IN_FLIGHT.fetch_sub(1, Ordering::SeqCst);
                }
                let _ = tx.send((t, problems));
            }));
        }
        drop(tx);
        // Watchdog on the whole group.
        let deadline = Duration::from_secs(if miri { 600 } else { 60 });
        let mut finished = 0;
        let mut all_problems: Vec<String> = Vec::new();
        let start = std::time::Instant::now();
        while finished < n_threads {
            match rx.recv_timeout(deadline.saturating_sub(start.elapsed())) {
                Ok((_, p)) => {
                    finished += 1;
                    all_problems.extend(p);
                }
                Err(_) => break,
            }
        }
        YIELDS_ON.store(false, Ordering::SeqCst);
        rep.eval();
        if finished < n_threads {
            rep.count("groups_not_finished_within_watchdog");
            rep.inconclusive = Some(format!("case {}: {} of {} threads did not finish within {:?}", c.id, n_threads - finished, n_threads, deadline));
            // Threads may be stuck; do not join them.
            break;
        }
        for h in handles {
            let _ = h.join();
        }
        IN_FLIGHT.store(0, Ordering::SeqCst);
        let created = PLAN_CREATED.load(Ordering::SeqCst) - c0;
        let hits = PLAN_HIT.load(Ordering::SeqCst) - h0;
        let busy = REPLACED_WHILE_BUSY.load(Ordering::SeqCst) - r0;
        rep.add("plans_created", created);
        rep.add("plan_cache_hits", hits);
        rep.add("plans_replaced_while_another_call_in_flight", busy);
        rep.add("calls", (n_threads * calls_per_thread) as u64);
        let sig = hash_of(&*SIGNATURE.lock().unwrap());
        sigs.insert(sig);
        if busy > 0 {
            rep.nontrivial(&(&c.id, sched_seed));
            if rep.wants_sample() {
                rep.sample(|| json!({"case": c.id, "threads": n_threads, "calls_per_thread": calls_per_thread, "cfg": cfg.name(), "plans_created": created, "cache_hits": hits, "replaced_while_busy": busy}));
            }
        }
        if let Some(p) = all_problems.first() {
            let kind = if p.contains("panic") { "panic" } else if p.contains("differs") { "result_differs" } else if p.contains("failed although") { "spurious_error" } else { "other" };
            rep.violation(
                format!("C22|{}|{}|cfg={}", c.family, kind, cfg.name()),
                format!("{} thread(s) x {} calls on one model: {} ({} problems in this group)", n_threads, calls_per_thread, p, all_problems.len()),
                json!({"case": small_case_json(c), "threads": n_threads, "calls_per_thread": calls_per_thread, "schedule_seed": sched_seed, "cfg": cfg.name(), "problems": all_problems.iter().take(10).collect::<Vec<_>>()}),
            );
        }
    }
    rep.add("distinct_interleaving_signatures", sigs.len() as u64);
    if args.replay.is_some() {
        rep.nontrivial(&0u8);
        rep.nontrivial(&1u8);
    }
    rep.finish();
}

fn single_thread_opts() -> RunOptions {
    thread_local! {
        static POOL: Arc<ThreadPool> = Arc::new(ThreadPool::with_num_threads(1));
    }
    POOL.with(|p| RunOptions::default().with_thread_pool(Some(p.clone())))
}
