//! Shared pieces of modelcheck: case packs, tensors, loading, running,
//! comparison.
use std::collections::HashMap;
use std::io::BufRead;

use rten::{Model, ModelOptions, NodeId, RunOptions, ShapeInferenceMode, Value, ValueOrView};
use rten_tensor::prelude::*;
use rten_tensor::{Tensor, TensorView};
use vcommon::*;

#[derive(Clone, Debug, PartialEq)]
pub struct TData {
    pub name: String,
    pub dtype: String, // f32 i32 u8 i8
    pub shape: Vec<usize>,
    pub data: Vec<u8>, // little endian
}

impl TData {
    pub fn from_json(j: &Json) -> Option<TData> {
        if j.is_null() {
            return None;
        }
        Some(TData {
            name: j["name"].as_str().unwrap_or("").to_string(),
            dtype: j["dtype"].as_str()?.to_string(),
            shape: j["shape"].as_array()?.iter().map(|d| d.as_u64().unwrap() as usize).collect(),
            data: from_hex(j["data"].as_str()?),
        })
    }

    pub fn to_json(&self) -> Json {
        json!({"name": self.name, "dtype": self.dtype, "shape": self.shape, "data": to_hex(&self.data)})
    }

    pub fn numel(&self) -> usize {
        self.shape.iter().product()
    }

    pub fn f32s(&self) -> Vec<f32> {
        self.data.chunks_exact(4).map(|c| f32::from_le_bytes(c.try_into().unwrap())).collect()
    }
    pub fn i32s(&self) -> Vec<i32> {
        self.data.chunks_exact(4).map(|c| i32::from_le_bytes(c.try_into().unwrap())).collect()
    }

    pub fn from_f32(name: &str, shape: &[usize], v: &[f32]) -> TData {
        TData {
            name: name.to_string(),
            dtype: "f32".into(),
            shape: shape.to_vec(),
            data: v.iter().flat_map(|x| x.to_le_bytes()).collect(),
        }
    }
    pub fn from_i32(name: &str, shape: &[usize], v: &[i32]) -> TData {
        TData {
            name: name.to_string(),
            dtype: "i32".into(),
            shape: shape.to_vec(),
            data: v.iter().flat_map(|x| x.to_le_bytes()).collect(),
        }
    }

    /// Owned rten value (contiguous, exact capacity).
    pub fn to_value(&self) -> Value {
        match self.dtype.as_str() {
            "f32" => Tensor::from_data(self.shape.as_slice(), self.f32s()).into(),
            "i32" => Tensor::from_data(self.shape.as_slice(), self.i32s()).into(),
            "u8" => Tensor::from_data(self.shape.as_slice(), self.data.clone()).into(),
            "i8" => Tensor::from_data(self.shape.as_slice(), self.data.iter().map(|b| *b as i8).collect::<Vec<i8>>()).into(),
            other => panic!("dtype {}", other),
        }
    }

    pub fn from_value(name: &str, v: &Value) -> Option<TData> {
        let (dtype, shape, data): (&str, Vec<usize>, Vec<u8>) = match v {
            Value::FloatTensor(t) => ("f32", t.shape().to_vec(), t.iter().flat_map(|x| x.to_le_bytes()).collect()),
            Value::Int32Tensor(t) => ("i32", t.shape().to_vec(), t.iter().flat_map(|x| x.to_le_bytes()).collect()),
            Value::UInt8Tensor(t) => ("u8", t.shape().to_vec(), t.iter().copied().collect()),
            Value::Int8Tensor(t) => ("i8", t.shape().to_vec(), t.iter().map(|x| *x as u8).collect()),
            _ => return None,
        };
        Some(TData {
            name: name.to_string(),
            dtype: dtype.to_string(),
            shape,
            data,
        })
    }
}

/// Storage for one input in a chosen memory layout, from which an owned value
/// or a borrowed view with the logical contents of `t` can be obtained.
pub enum Staged {
    F32(Tensor<f32>),
    I32(Tensor<i32>),
    U8(Tensor<u8>),
    I8(Tensor<i8>),
}

#[derive(Clone, Copy, Debug, PartialEq, Eq, Hash)]
pub enum LayoutKind {
    Contiguous,
    /// Owned tensor stored transposed, then viewed back in logical order.
    Permuted,
    /// Stepped slice of a larger poisoned buffer.
    Stepped,
    /// Broadcast (stride-0) view where a leading dim repeats.
    Broadcast,
    /// Stored with the last two axes swapped, viewed back in logical order (rank >= 3).
    Swapped,
    /// Stepped slice along the first axis of a larger poisoned buffer (rank >= 2).
    SteppedOuter,
    /// The tensor has size 1 along some axis in storage and is broadcast to the
    /// logical shape (see `flatten_axis`); constructed by the caller.
    BroadcastAxis,
}

/// Make all slices of `t` along `axis` equal to the first one. Returns the
/// flattened logical tensor and the stored tensor with size 1 along `axis`,
/// from which the former is obtained as a stride-0 broadcast view.
pub fn flatten_axis(t: &TData, axis: usize) -> Option<(TData, TData)> {
    if axis >= t.shape.len() || t.shape[axis] < 2 {
        return None;
    }
    let w = if t.dtype == "f32" || t.dtype == "i32" { 4 } else { 1 };
    let outer: usize = t.shape[..axis].iter().product();
    let n = t.shape[axis];
    let inner: usize = t.shape[axis + 1..].iter().product::<usize>() * w;
    if outer == 0 || inner == 0 {
        return None;
    }
    let mut flat = Vec::with_capacity(t.data.len());
    let mut reduced = Vec::with_capacity(t.data.len() / n);
    for o in 0..outer {
        let first = &t.data[o * n * inner..o * n * inner + inner];
        reduced.extend_from_slice(first);
        for _ in 0..n {
            flat.extend_from_slice(first);
        }
    }
    let mut rshape = t.shape.clone();
    rshape[axis] = 1;
    Some((
        TData { name: t.name.clone(), dtype: t.dtype.clone(), shape: t.shape.clone(), data: flat },
        TData { name: t.name.clone(), dtype: t.dtype.clone(), shape: rshape, data: reduced },
    ))
}

fn stage<T: Copy + Default + PartialEq + 'static>(shape: &[usize], vals: Vec<T>, kind: LayoutKind, poison: T) -> Option<Tensor<T>> {
    let base = Tensor::from_data(shape, vals);
    match kind {
        LayoutKind::Contiguous | LayoutKind::BroadcastAxis => Some(base),
        LayoutKind::Swapped => {
            let n = shape.len();
            if n < 3 || shape[n - 1] < 2 || shape[n - 2] < 2 {
                return None;
            }
            let mut perm: Vec<usize> = (0..n).collect();
            perm.swap(n - 1, n - 2);
            let stored = base.permuted(&perm).to_tensor();
            Some(stored.into_permuted(&perm))
        }
        LayoutKind::SteppedOuter => {
            if shape.len() < 2 || shape[0] == 0 {
                return None;
            }
            let mut big_shape = shape.to_vec();
            big_shape[0] = shape[0] * 3 + 1;
            let mut big = Tensor::<T>::full(&big_shape, poison);
            {
                let items: Vec<rten_tensor::SliceItem> = (0..shape.len())
                    .map(|d| if d == 0 { rten_tensor::SliceItem::range(1, None, 3) } else { rten_tensor::SliceItem::full_range() })
                    .collect();
                let mut dst = big.slice_mut(items.as_slice());
                if dst.shape() != shape {
                    return None;
                }
                dst.copy_from(&base.view());
            }
            Some(big)
        }
        LayoutKind::Permuted => {
            if shape.len() < 2 {
                return None;
            }
            // Store with reversed axis order, then permute back: same logical
            // tensor, non-contiguous strides.
            let rev: Vec<usize> = (0..shape.len()).rev().collect();
            let stored = base.permuted(&rev).to_tensor(); // contiguous in reversed order
            Some(stored.into_permuted(&rev))
        }
        LayoutKind::Stepped => {
            if shape.is_empty() {
                return None;
            }
            // Embed along the last axis with step 2 in a poisoned buffer.
            let last = shape.len() - 1;
            let mut big_shape = shape.to_vec();
            big_shape[last] = shape[last] * 2 + 1;
            let mut big = Tensor::<T>::full(&big_shape, poison);
            {
                let items: Vec<rten_tensor::SliceItem> = (0..shape.len())
                    .map(|d| if d == last { rten_tensor::SliceItem::range(1, None, 2) } else { rten_tensor::SliceItem::full_range() })
                    .collect();
                let mut dst = big.slice_mut(items.as_slice());
                if dst.shape() != shape {
                    return None;
                }
                dst.copy_from(&base.view());
            }
            Some(big)
        }
        LayoutKind::Broadcast => {
            // Only possible when the leading dim's slices are all equal.
            if shape.is_empty() || shape[0] < 2 {
                return None;
            }
            let first = base.slice(0);
            for i in 1..shape[0] {
                if base.slice(i).iter().ne(first.iter()) {
                    return None;
                }
            }
            Some(first.to_tensor())
        }
    }
}

impl Staged {
    pub fn new(t: &TData, kind: LayoutKind) -> Option<Staged> {
        Some(match t.dtype.as_str() {
            "f32" => Staged::F32(stage(&t.shape, t.f32s(), kind, f32::NAN)?),
            "i32" => Staged::I32(stage(&t.shape, t.i32s(), kind, i32::MIN)?),
            "u8" => Staged::U8(stage(&t.shape, t.data.clone(), kind, 0xAA)?),
            "i8" => Staged::I8(stage(&t.shape, t.data.iter().map(|b| *b as i8).collect(), kind, -86)?),
            _ => return None,
        })
    }

    /// Borrowed view with the logical shape `shape`.
    pub fn view<'a>(&'a self, shape: &[usize], kind: LayoutKind) -> ValueOrView<'a> {
        fn v<'a, T>(t: &'a Tensor<T>, shape: &[usize], kind: LayoutKind) -> TensorView<'a, T> {
            match kind {
                LayoutKind::Contiguous | LayoutKind::Permuted | LayoutKind::Swapped => t.view(),
                LayoutKind::SteppedOuter => {
                    let items: Vec<rten_tensor::SliceItem> = (0..shape.len())
                        .map(|d| if d == 0 { rten_tensor::SliceItem::range(1, None, 3) } else { rten_tensor::SliceItem::full_range() })
                        .collect();
                    t.slice(items.as_slice())
                }
                LayoutKind::Stepped => {
                    let last = shape.len() - 1;
                    let items: Vec<rten_tensor::SliceItem> = (0..shape.len())
                        .map(|d| if d == last { rten_tensor::SliceItem::range(1, None, 2) } else { rten_tensor::SliceItem::full_range() })
                        .collect();
                    t.slice(items.as_slice())
                }
                LayoutKind::Broadcast | LayoutKind::BroadcastAxis => t.broadcast(shape),
            }
        }
        match self {
            Staged::F32(t) => v(t, shape, kind).into(),
            Staged::I32(t) => v(t, shape, kind).into(),
            Staged::U8(t) => v(t, shape, kind).into(),
            Staged::I8(t) => v(t, shape, kind).into(),
        }
    }

    /// Owned value (only for layouts an owned tensor can have).
    pub fn into_owned(self) -> ValueOrView<'static> {
        match self {
            Staged::F32(t) => t.into(),
            Staged::I32(t) => t.into(),
            Staged::U8(t) => t.into(),
            Staged::I8(t) => t.into(),
        }
    }

    /// Raw bytes of the backing storage (including gaps), to detect writes
    /// through borrowed inputs.
    pub fn storage_bytes(&self) -> Vec<u8> {
        fn b<T: Copy>(t: &Tensor<T>) -> Vec<u8> {
            // Safety: reading the initialised backing store as bytes.
            let n = storage_len(t);
            let p = t.data_ptr() as *const u8;
            unsafe { std::slice::from_raw_parts(p, n * std::mem::size_of::<T>()).to_vec() }
        }
        fn storage_len<T>(t: &Tensor<T>) -> usize {
            if t.shape().iter().any(|d| *d == 0) {
                return 0;
            }
            t.shape().iter().zip(t.strides()).map(|(d, s)| (d - 1) * s).sum::<usize>() + 1
        }
        match self {
            Staged::F32(t) => b(t),
            Staged::I32(t) => b(t),
            Staged::U8(t) => b(t),
            Staged::I8(t) => b(t),
        }
    }
}

#[derive(Clone, Debug)]
pub struct Case {
    pub id: String,
    pub family: String,
    pub variant: Json,
    pub model: Vec<u8>,
    pub model_vi: Vec<u8>,
    pub alt_model: Option<Vec<u8>>,
    pub inputs: Vec<TData>,
    pub input_names: Vec<String>,
    pub input_sets: Vec<Vec<usize>>,
    pub outputs: Vec<String>,
    pub internals: Vec<String>,
    /// (node name, inputs, outputs, op type)
    pub topo: Vec<(String, Vec<String>, Vec<String>, String)>,
    pub initializers: Vec<String>,
    pub random_downstream: Vec<String>,
    pub expected: Vec<HashMap<String, Option<TData>>>,
    pub tol: String,
    pub op: Option<String>,
    pub c15: bool,
    pub raw: Json,
}

fn strs(j: &Json) -> Vec<String> {
    j.as_array().map(|a| a.iter().map(|s| s.as_str().unwrap_or("").to_string()).collect()).unwrap_or_default()
}

impl Case {
    pub fn from_json(j: Json) -> Case {
        let expected = j["expected"]
            .as_array()
            .map(|a| {
                a.iter()
                    .map(|m| {
                        m.as_object()
                            .map(|o| o.iter().map(|(k, v)| (k.clone(), TData::from_json(v))).collect())
                            .unwrap_or_default()
                    })
                    .collect()
            })
            .unwrap_or_default();
        Case {
            id: j["id"].as_str().unwrap_or("").to_string(),
            family: j["family"].as_str().unwrap_or("").to_string(),
            variant: j["variant"].clone(),
            model: from_hex(j["model"].as_str().unwrap_or("")),
            model_vi: from_hex(j["model_vi"].as_str().unwrap_or("")),
            alt_model: j["alt_model"].as_str().map(from_hex),
            inputs: j["inputs"].as_array().map(|a| a.iter().filter_map(TData::from_json).collect()).unwrap_or_default(),
            input_names: strs(&j["input_names"]),
            input_sets: j["input_sets"]
                .as_array()
                .map(|a| a.iter().map(|s| s.as_array().unwrap().iter().map(|i| i.as_u64().unwrap() as usize).collect()).collect())
                .unwrap_or_default(),
            outputs: strs(&j["outputs"]),
            internals: strs(&j["internals"]),
            topo: j["topo"]
                .as_array()
                .map(|a| {
                    a.iter()
                        .map(|n| (n[0].as_str().unwrap_or("").to_string(), strs(&n[1]), strs(&n[2]), n[3].as_str().unwrap_or("").to_string()))
                        .collect()
                })
                .unwrap_or_default(),
            initializers: strs(&j["initializers"]),
            random_downstream: strs(&j["random_downstream"]),
            expected,
            tol: j["tol"].as_str().unwrap_or("model").to_string(),
            op: j["op"].as_str().map(|s| s.to_string()),
            c15: j["c15"].as_bool().unwrap_or(false),
            raw: j,
        }
    }

    pub fn input_set(&self, k: usize) -> Vec<&TData> {
        self.input_sets[k].iter().map(|&i| &self.inputs[i]).collect()
    }
}

/// Read the pack file(s) `<dir>/<family>.jsonl`, keeping the cases of this shard.
pub fn read_pack(dir: &str, family: &str, shard: usize, shards: usize) -> Vec<Case> {
    let path = format!("{}/{}.jsonl", dir, family);
    let f = std::fs::File::open(&path).unwrap_or_else(|e| panic!("cannot open pack {}: {}", path, e));
    let mut out = Vec::new();
    for (i, line) in std::io::BufReader::new(f).lines().enumerate() {
        if i % shards != shard {
            continue;
        }
        let line = line.unwrap();
        if line.trim().is_empty() {
            continue;
        }
        out.push(Case::from_json(serde_json::from_str(&line).expect("pack line")));
    }
    out
}

pub fn pack_dir(args: &Args) -> String {
    args.get("packs").map(|s| s.to_string()).or_else(|| std::env::var("VERIF_PACK_DIR").ok()).expect("--packs DIR or VERIF_PACK_DIR")
}

#[derive(Clone, Copy, Debug, PartialEq, Eq, Hash)]
pub struct LoadCfg {
    pub optimize: bool,
    /// 0 off, 1 on, 2 strict
    pub shape_mode: u8,
    pub prepack: bool,
}

impl LoadCfg {
    pub const BASE: LoadCfg = LoadCfg {
        optimize: false,
        shape_mode: 0,
        prepack: false,
    };
    pub const DEFAULT: LoadCfg = LoadCfg {
        optimize: true,
        shape_mode: 1,
        prepack: false,
    };
    pub fn name(&self) -> String {
        format!(
            "opt={},shape={},prepack={}",
            self.optimize as u8,
            ["off", "on", "strict"][self.shape_mode as usize],
            self.prepack as u8
        )
    }
}

pub fn load(bytes: &[u8], cfg: LoadCfg) -> Result<Model, String> {
    let bytes = bytes.to_vec();
    match catch(move || {
        let mut opts = ModelOptions::with_all_ops();
        opts.enable_optimization(cfg.optimize);
        opts.shape_inference(match cfg.shape_mode {
            0 => ShapeInferenceMode::Off,
            1 => ShapeInferenceMode::On,
            _ => ShapeInferenceMode::Strict,
        });
        opts.prepack_weights(cfg.prepack);
        opts.load(bytes).map_err(|e| format!("{}", e))
    }) {
        Ok(r) => r,
        Err(p) => Err(format!("PANIC {}", p)),
    }
}

pub fn node_id(model: &Model, name: &str) -> Option<NodeId> {
    model.find_node(name)
}

/// Run with all inputs as borrowed contiguous views.
pub fn run_simple(model: &Model, inputs: &[&TData], outputs: &[String], opts: Option<RunOptions>) -> Result<Vec<TData>, String> {
    let owned: Vec<Value> = inputs.iter().map(|t| t.to_value()).collect();
    let mut ins: Vec<(NodeId, ValueOrView)> = Vec::new();
    for (t, v) in inputs.iter().zip(&owned) {
        let id = node_id(model, &t.name).ok_or_else(|| format!("input {} not found", t.name))?;
        ins.push((id, ValueOrView::from(v)));
    }
    run_prepared(model, ins, outputs, opts)
}

pub fn run_prepared(model: &Model, ins: Vec<(NodeId, ValueOrView)>, outputs: &[String], opts: Option<RunOptions>) -> Result<Vec<TData>, String> {
    let mut out_ids = Vec::new();
    for o in outputs {
        out_ids.push(node_id(model, o).ok_or_else(|| format!("output {} not found", o))?);
    }
    let r = catch(|| model.run(ins, &out_ids, opts));
    match r {
        Err(p) => Err(format!("PANIC {}", p)),
        Ok(Err(e)) => Err(format!("{}", e)),
        Ok(Ok(vals)) => {
            let mut res = Vec::new();
            for (name, v) in outputs.iter().zip(&vals) {
                match TData::from_value(name, v) {
                    Some(t) => res.push(t),
                    None => return Err(format!("output {} is not a tensor", name)),
                }
            }
            Ok(res)
        }
    }
}

#[derive(Clone, Copy, Debug, PartialEq)]
pub enum Tol {
    /// Bit equality (any NaN == any NaN). Integers always exact.
    Bits,
    /// Exact value equality: -0 == +0, NaN == NaN.
    Exact,
    /// |a-b| <= atol + rtol*|b|
    Close(f32, f32),
}

impl Tol {
    pub fn for_class(class: &str) -> Tol {
        match class {
            "exact" => Tol::Exact,
            "math" => Tol::Close(1e-5, 1e-5),
            "accum" => Tol::Close(1e-4, 1e-4),
            "model" => Tol::Close(1e-4, 1e-3),
            "bits" => Tol::Bits,
            _ => Tol::Close(1e-4, 1e-3),
        }
    }
}

/// None if equal under `tol`, else a description of the first difference.
pub fn compare(a: &TData, b: &TData, tol: Tol) -> Option<String> {
    if a.dtype != b.dtype {
        return Some(format!("dtype {} vs {}", a.dtype, b.dtype));
    }
    if a.shape != b.shape {
        return Some(format!("shape {:?} vs {:?}", a.shape, b.shape));
    }
    if a.dtype == "f32" {
        let (x, y) = (a.f32s(), b.f32s());
        for (i, (p, q)) in x.iter().zip(&y).enumerate() {
            let ok = match tol {
                Tol::Bits => bits_eq_f32(*p, *q),
                Tol::Exact => (p.is_nan() && q.is_nan()) || p == q,
                Tol::Close(at, rt) => close_f32(*p, *q, at, rt),
            };
            if !ok {
                let kind = if p.is_nan() != q.is_nan() { "nan" } else { "value" };
                return Some(format!("{} at flat index {}: {:e} vs {:e}", kind, i, p, q));
            }
        }
        None
    } else if a.data != b.data {
        let w = if a.dtype == "i32" { 4 } else { 1 };
        let i = a.data.chunks(w).zip(b.data.chunks(w)).position(|(p, q)| p != q).unwrap_or(0);
        let show = |t: &TData| -> String {
            if w == 4 { format!("{}", t.i32s()[i]) } else { format!("{}", t.data[i]) }
        };
        Some(format!("value at flat index {}: {} vs {}", i, show(a), show(b)))
    } else {
        None
    }
}

pub fn mismatch_kind(desc: &str) -> &'static str {
    if desc.starts_with("dtype") {
        "dtype"
    } else if desc.starts_with("shape") {
        "shape"
    } else if desc.starts_with("nan") {
        "nan"
    } else {
        "value"
    }
}

pub fn small_case_json(c: &Case) -> Json {
    // The full record, so that --replay can re-run it.
    c.raw.clone()
}

/// Cases from `--pinned a.json,b.json` (witness files of open findings). Only
/// shard 0 runs them.
pub fn pinned_cases(args: &Args) -> Vec<Case> {
    if args.shard != 0 {
        return Vec::new();
    }
    let Some(list) = args.get("pinned") else {
        return Vec::new();
    };
    list.split(',')
        .filter(|p| !p.is_empty())
        .map(|p| {
            let w: Json = serde_json::from_str(&std::fs::read_to_string(p).unwrap_or_else(|e| panic!("pinned witness {}: {}", p, e))).unwrap();
            let w = if w.get("witness").is_some() { w["witness"].clone() } else { w };
            let w = if w.get("witness").is_some() { w["witness"].clone() } else { w };
            Case::from_json(w["case"].clone())
        })
        .collect()
}
