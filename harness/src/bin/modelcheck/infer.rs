//! C10: what shape inference claims never contradicts execution.
//!
//! The real graph-level driver (`rten::infer_shapes::infer_shapes`, the one the
//! optimiser calls) is run on the un-optimised graph of each generated model
//! and the symbolic tensor it computed for every value is captured through the
//! `rten::verif::capture_sym_values` hook. The model is then executed on
//! concrete inputs and every claim is evaluated under the binding of symbols
//! that those inputs imply.
use std::collections::HashMap;

use rten_shape_inference::{SymExpr, SymTensor};
use vcommon::*;

use crate::common::*;
use crate::strategies::cases_from;

#[derive(Debug, Clone, Copy, PartialEq)]
enum Ev {
    /// Evaluates to exactly this value.
    Val(i128),
    /// Floor and truncating division disagree: either value is accepted (see C11).
    Either(i128, i128),
    /// Contains a symbol with no binding.
    Unbound,
    /// Division by zero or a broadcast of incompatible sizes: the expression
    /// has no value for these inputs, so it claims nothing.
    Inadmissible,
}

fn floor_div(x: i128, y: i128) -> i128 {
    let q = x / y;
    if (x % y != 0) && ((x < 0) != (y < 0)) { q - 1 } else { q }
}

fn ceil_div(x: i128, y: i128) -> i128 {
    -floor_div(-x, y)
}

fn eval(e: &SymExpr, env: &HashMap<String, i128>) -> Ev {
    use Ev::*;
    fn bin(a: Ev, b: Ev, f: impl Fn(i128, i128) -> Option<i128>) -> Ev {
        match (a, b) {
            (Inadmissible, _) | (_, Inadmissible) => Inadmissible,
            (Unbound, _) | (_, Unbound) => Unbound,
            _ => {
                let xs = match a { Val(x) => vec![x], Either(x, y) => vec![x, y], _ => unreachable!() };
                let ys = match b { Val(x) => vec![x], Either(x, y) => vec![x, y], _ => unreachable!() };
                let mut out: Vec<i128> = Vec::new();
                for x in &xs {
                    for y in &ys {
                        match f(*x, *y) {
                            Some(v) => {
                                if !out.contains(&v) {
                                    out.push(v)
                                }
                            }
                            None => return Inadmissible,
                        }
                    }
                }
                // The engine computes shape values in 32 bits; what an expression
                // means once an intermediate leaves that range is C11's subject.
                if out.iter().any(|v| *v > i32::MAX as i128 || *v < i32::MIN as i128) {
                    return Unbound;
                }
                match out.len() {
                    1 => Val(out[0]),
                    2 => Either(out[0], out[1]),
                    // More than two candidates: give up on this claim.
                    _ => Unbound,
                }
            }
        }
    }
    match e {
        SymExpr::Value(v) => Val(*v as i128),
        SymExpr::Var(s) => env.get(&s.name).map(|v| Val(*v)).unwrap_or(Unbound),
        SymExpr::Add(a, b) => bin(eval(a, env), eval(b, env), |x, y| Some(x + y)),
        SymExpr::Sub(a, b) => bin(eval(a, env), eval(b, env), |x, y| Some(x - y)),
        SymExpr::Mul(a, b) => bin(eval(a, env), eval(b, env), |x, y| Some(x * y)),
        SymExpr::Max(a, b) => bin(eval(a, env), eval(b, env), |x, y| Some(x.max(y))),
        SymExpr::Min(a, b) => bin(eval(a, env), eval(b, env), |x, y| Some(x.min(y))),
        SymExpr::Neg(a) => bin(eval(a, env), Val(0), |x, _| Some(-x)),
        SymExpr::DivCeil(a, b) => bin(eval(a, env), eval(b, env), |x, y| if y == 0 { None } else { Some(ceil_div(x, y)) }),
        SymExpr::Broadcast(a, b) => bin(eval(a, env), eval(b, env), |x, y| {
            if x == y || y == 1 {
                Some(x)
            } else if x == 1 {
                Some(y)
            } else {
                None
            }
        }),
        SymExpr::Div(a, b) => {
            let (ea, eb) = (eval(a, env), eval(b, env));
            let fl = bin(ea, eb, |x, y| if y == 0 { None } else { Some(floor_div(x, y)) });
            let tr = bin(ea, eb, |x, y| if y == 0 { None } else { Some(x / y) });
            match (fl, tr) {
                (Val(x), Val(y)) if x == y => Val(x),
                (Val(x), Val(y)) => Either(x, y),
                (Inadmissible, _) | (_, Inadmissible) => Inadmissible,
                _ => Unbound,
            }
        }
    }
}

fn agrees(ev: Ev, actual: i128) -> Option<bool> {
    match ev {
        Ev::Val(v) => Some(v == actual),
        Ev::Either(a, b) => Some(a == actual || b == actual),
        Ev::Unbound | Ev::Inadmissible => None,
    }
}

/// Integer view of a tensor's elements, if every element is an exact integer.
fn int_elements(t: &TData) -> Option<Vec<i128>> {
    match t.dtype.as_str() {
        "i32" => Some(t.i32s().into_iter().map(|x| x as i128).collect()),
        "u8" => Some(t.data.iter().map(|x| *x as i128).collect()),
        "i8" => Some(t.data.iter().map(|x| *x as i8 as i128).collect()),
        // A claim is an integer: an element that is not integral (or not finite) can
        // never equal it. Such elements are mapped to a value no i32 expression takes.
        "f32" => Some(t.f32s().into_iter().map(|x| if x.is_finite() && x.fract() == 0.0 && x.abs() < 1e18 { x as i128 } else { i128::MAX }).collect()),
        _ => None,
    }
}

fn describe(t: &SymTensor) -> String {
    let s = format!("{:?}", t);
    if s.len() > 300 { format!("{}…", &s[..300]) } else { s }
}

#[cfg(rten_verif)]
pub fn run_c10(args: &Args) {
    use rten::verif::{InferShapeOptions, capture_sym_values, infer_shapes, model_graph, take_sym_values, Dimension, Node};
    let mut rep = Report::new(
        "C10",
        "modelcheck c10",
        args,
        "single-operator models (every catalogue operator x attributes x ranks 0-5, inputs declared fixed, symbolic or mixed), shape-arithmetic chains (Shape/Gather/Concat/arithmetic/Equal/Where/Range... incl. negated and negatively scaled dims), fusion-pattern graphs, control flow and random DAGs: the real inference driver is run on the un-optimised graph and the symbolic tensor it computed for every value captured (hook); the model is executed (all values requested) and, under the binding of symbols implied by the actual inputs, every claimed rank, every fixed or symbolic dimension and every claimed element value must equal what execution produced. Expressions are evaluated exactly in 128-bit; a Div with a negative operand accepts floor or truncation (C11 owns that), a division by zero / incompatible broadcast / unbound synthetic symbol claims nothing. non-trivial = a non-input value for which at least one dimension or element claim was decided; distinct by (case, model variant, input set, value)",
    );
    rep.max_samples = 12;
    let mut cases = cases_from(args, "singleop,patterns,dag,cflow");
    let pinned = pinned_cases(args);
    rep.add("pinned_witnesses_run", pinned.len() as u64);
    cases.extend(pinned);
    for c in &cases {
        for (which, bytes) in [("plain", &c.model), ("value_info", &c.model_vi)] {
            if bytes.is_empty() {
                continue;
            }
            let Ok(model) = load(bytes, LoadCfg::BASE) else { continue };
            let graph = model_graph(&model);
            capture_sym_values(true);
            let res = catch(|| infer_shapes(graph, InferShapeOptions { strict: false, ..Default::default() }).map(|_| ()).map_err(|e| e.to_string()));
            let captured = take_sym_values();
            capture_sym_values(false);
            match res {
                Err(p) => {
                    rep.eval();
                    rep.violation(
                        format!("C10|{}|{}|infer_panic:{}", c.family, ops_of(c), panic_class(&p)),
                        format!("shape inference panicked on a model that loads: {}", p),
                        json!({"case": small_case_json(c), "model": which}),
                    );
                    continue;
                }
                Ok(Err(_)) => {
                    rep.count("inference_errors");
                    continue;
                }
                Ok(Ok(())) => {}
            }
            let by_name: HashMap<String, &SymTensor> = captured
                .iter()
                .filter_map(|(id, t)| Some((graph.node_name(*id), t)))
                .collect();
            if by_name.is_empty() {
                rep.count("models_without_any_inferred_value");
                continue;
            }
            // Every value of the un-optimised graph can be requested.
            let mut wanted: Vec<String> = Vec::new();
            for n in &c.topo {
                for o in &n.2 {
                    if !o.is_empty() && by_name.contains_key(o) && !wanted.contains(o) && node_id(&model, o).is_some() {
                        wanted.push(o.clone());
                    }
                }
            }
            if wanted.is_empty() {
                continue;
            }
            for k in 0..c.input_sets.len() {
                let inputs = c.input_set(k);
                // Binding of declared symbols from the inputs.
                let mut env: HashMap<String, i128> = HashMap::new();
                let mut conforming = true;
                for t in &inputs {
                    let Some(id) = node_id(&model, &t.name) else { continue };
                    let Some(Node::Value(v)) = graph.get_node(id) else { continue };
                    let Some(shape) = v.shape() else { continue };
                    if shape.len() != t.shape.len() {
                        conforming = false;
                        continue;
                    }
                    for (d, size) in shape.iter().zip(&t.shape) {
                        match d {
                            Dimension::Symbolic(s) => match env.get(s) {
                                Some(v) if *v != *size as i128 => conforming = false,
                                _ => {
                                    env.insert(s.clone(), *size as i128);
                                }
                            },
                            Dimension::Fixed(n) => {
                                if n != size {
                                    conforming = false
                                }
                            }
                        }
                    }
                }
                if !conforming {
                    rep.count("input_set_not_conforming");
                    continue;
                }
                let got = match run_simple(&model, &inputs, &wanted, None) {
                    Ok(g) => g,
                    Err(_) => {
                        // Fall back to one value at a time so that one failing
                        // operator does not hide the claims about the others.
                        let mut v = Vec::new();
                        for w in &wanted {
                            if let Ok(mut g) = run_simple(&model, &inputs, std::slice::from_ref(w), None) {
                                v.append(&mut g);
                            }
                        }
                        rep.count("runs_with_partial_failure");
                        v
                    }
                };
                rep.eval();
                // Values whose claim was already refuted in this run: a wrong dimension is
                // copied by shape inference into everything computed from that value, and
                // only its origin is reported.
                let mut refuted: std::collections::HashSet<String> = std::collections::HashSet::new();
                // `got` follows `wanted`, which is in topological order.
                for t in &got {
                    let sym = by_name[&t.name];
                    let producer_node = c.topo.iter().find(|n| n.2.contains(&t.name));
                    let producer = producer_node.map(|n| n.3.clone()).unwrap_or_default();
                    let mut decided = 0;
                    let mut problem: Option<(String, String)> = None;
                    if let Some(dims) = sym.shape() {
                        let dims: Vec<SymExpr> = dims.collect();
                        if dims.len() != t.shape.len() {
                            decided += 1;
                            problem = Some(("rank".into(), format!("claimed rank {} but the value has shape {:?}", dims.len(), t.shape)));
                        } else {
                            for (i, (d, size)) in dims.iter().zip(&t.shape).enumerate() {
                                // A bare unbound synthetic/unknown symbol is bound by its first sighting.
                                if let SymExpr::Var(s) = d {
                                    if !env.contains_key(&s.name) {
                                        env.insert(s.name.clone(), *size as i128);
                                        rep.count("symbols_bound_by_first_sighting");
                                        continue;
                                    }
                                }
                                match agrees(eval(d, &env), *size as i128) {
                                    Some(true) => decided += 1,
                                    Some(false) => {
                                        decided += 1;
                                        let kind = match (d, eval(d, &env)) {
                                            (SymExpr::Value(_), _) => "fixed_dim",
                                            (_, Ev::Val(v)) if v < 0 && *size == 0 => "symbolic_dim_negative_for_empty",
                                            (_, Ev::Either(a, b)) if a < 0 && b < 0 && *size == 0 => "symbolic_dim_negative_for_empty",
                                            _ => "symbolic_dim",
                                        };
                                        problem = Some((kind.into(), format!("claimed dim {} = {} (= {:?} under {:?}) but the value has shape {:?}", i, d, eval(d, &env), env, t.shape)));
                                        break;
                                    }
                                    None => rep.count("dim_claims_undecidable"),
                                }
                            }
                        }
                    }
                    if problem.is_none() {
                        if let Some(vals) = sym.values() {
                            match int_elements(t) {
                                Some(actual) if actual.len() == vals.len() => {
                                    for (i, (e, a)) in vals.iter().zip(&actual).enumerate() {
                                        if let SymExpr::Var(s) = e {
                                            if !env.contains_key(&s.name) {
                                                env.insert(s.name.clone(), *a);
                                                continue;
                                            }
                                        }
                                        match agrees(eval(e, &env), *a) {
                                            Some(true) => {
                                                decided += 1;
                                                rep.count("element_claims_checked");
                                            }
                                            Some(false) => {
                                                decided += 1;
                                                let kind = match e { SymExpr::Value(_) => "fixed_element", _ => "symbolic_element" };
                                                problem = Some((kind.into(), format!("claimed element {} = {} (= {:?} under {:?}) but execution produced {:?}", i, e, eval(e, &env), env, actual)));
                                                break;
                                            }
                                            None => rep.count("element_claims_undecidable"),
                                        }
                                    }
                                }
                                Some(actual) => {
                                    decided += 1;
                                    problem = Some(("element_count".into(), format!("claimed {} elements but execution produced {} ({:?})", vals.len(), actual.len(), t.shape)));
                                }
                                None => rep.count("element_claims_on_non_integer_values"),
                            }
                        }
                    }
                    if decided > 0 {
                        rep.nontrivial(&(&c.id, which, k, &t.name));
                        rep.count(&format!("op:{}", producer));
                        rep.count("values_with_decided_claims");
                    } else {
                        rep.count("values_with_no_decidable_claim");
                    }
                    if problem.is_some() {
                        let inherited = producer_node.map(|n| n.1.iter().any(|i| refuted.contains(i))).unwrap_or(false);
                        refuted.insert(t.name.clone());
                        if inherited {
                            rep.count("refuted_claims_inherited_from_an_input");
                            continue;
                        }
                    }
                    if let Some((kind, msg)) = problem {
                        let attrs = if c.family == "singleop" { format!("{}", c.variant["attrs"]) } else { format!("{}", c.variant) };
                        rep.violation(
                            format!("C10|{}|{}|{}|{}", producer, kind, c.family, attrs),
                            format!("{} in {} case {}: value {} inferred as {}: {}", producer, c.family, attrs, t.name, describe(sym), msg),
                            json!({"case": small_case_json(c), "input_set": k, "model": which, "value": t.name, "actual": t.to_json()}),
                        );
                    } else if decided > 0 && sym.values().is_some() && rep.wants_sample() && rep.samples.iter().all(|s| s["op"] != json!(producer)) {
                        rep.sample(|| json!({"op": producer, "case": c.id, "inferred": describe(sym), "actual_shape": t.shape, "bindings": format!("{:?}", env)}));
                    }
                }
            }
        }
    }
    let n_ops = rep.counters.keys().filter(|k| k.starts_with("op:")).count();
    rep.add("operators_with_decided_claims", n_ops as u64);
    if args.replay.is_some() {
        rep.nontrivial(&0u8);
        rep.nontrivial(&1u8);
    }
    rep.finish();
}

fn ops_of(c: &Case) -> String {
    let mut ops: Vec<&str> = c.topo.iter().map(|t| t.3.as_str()).collect();
    ops.sort();
    ops.dedup();
    ops.join(",")
}

#[cfg(not(rten_verif))]
pub fn run_c10(_args: &Args) {
    panic!("built without --cfg rten_verif");
}
