//! modelcheck: model-level monitors driven by case packs from gen/modelgen.py.
//!
//!   modelcheck c15 --packs DIR     operators vs numpy reference
//!   modelcheck c01 --packs DIR     optimisation / shape-inference configs vs un-optimised
//!   modelcheck c14 --packs DIR     input memory layouts
//!   ...
use vcommon::*;

mod c01;
mod c15;
mod common;
mod concurrent;
mod infer;
mod bigdet;
mod layouts;
mod strategies;

fn main() {
    run_main(real_main)
}

fn real_main() {
    let args = Args::parse();
    match args.cmd.as_str() {
        "c15" => c15::run(&args),
        "c01" => c01::run(&args),
        "c14" => layouts::run_c14(&args),
        "c13" => layouts::run_c13(&args),
        "c12" => layouts::run_c12(&args),
        "c02" => strategies::run_c02(&args),
        "c04" => strategies::run_c04(&args),
        "c25" => strategies::run_c25(&args),
        "c26" => strategies::run_c26(&args),
        "c24" => strategies::run_c24(&args),
        "c22" => concurrent::run_c22(&args),
        "c10" => infer::run_c10(&args),
        "noop" => {}
        other => {
            eprintln!("unknown sub-command {:?}", other);
            std::process::exit(3);
        }
    }
}
