//! C15: single-operator models vs the numpy transcription of the ONNX spec.
use vcommon::*;

use crate::common::*;

pub fn check_case(rep: &mut Report, c: &Case) {
    let op = c.op.clone().unwrap_or_default();
    let model = match load(&c.model, LoadCfg::BASE) {
        Ok(m) => m,
        Err(e) => {
            rep.eval();
            if e.starts_with("PANIC") {
                rep.count(&format!("load_panic:{}", op));
            } else {
                rep.count(&format!("load_error:{}", op));
            }
            return;
        }
    };
    for k in 0..c.input_sets.len() {
        rep.eval();
        let inputs = c.input_set(k);
        let got = match run_simple(&model, &inputs, &c.outputs, None) {
            Ok(g) => g,
            Err(e) if e.starts_with("PANIC") => {
                let in_shapes: Vec<String> = inputs.iter().map(|t| format!("{}{:?}", t.dtype, t.shape)).collect();
                rep.violation(
                    format!("C15|{}|{}|panic:{}|in={}", op, c.variant["attrs"], panic_class(&e), in_shapes.join(",")),
                    format!("{} ({}) panicked instead of producing the ONNX-specified result: {}", op, c.variant["attrs"], e),
                    json!({"case": small_case_json(c), "input_set": k}),
                );
                continue;
            }
            Err(e) => {
                rep.count(&format!("run_error:{}", op));
                if rep.counters.get(&format!("run_error:{}", op)).copied().unwrap_or(0) <= 2 {
                    rep.note(&format!("run_error_example:{}", op), json!({"case": c.id, "error": e.chars().take(200).collect::<String>()}));
                }
                continue;
            }
        };
        rep.count(&format!("op:{}", op));
        let mut all_ok = true;
        for t in &got {
            let Some(Some(exp)) = c.expected[k].get(&t.name) else {
                rep.count("expected_not_representable");
                continue;
            };
            if let Some(diff) = compare(t, exp, Tol::for_class(&c.tol)) {
                all_ok = false;
                let kind = mismatch_kind(&diff);
                let in_shapes: Vec<String> = inputs.iter().map(|t| format!("{}{:?}", t.dtype, t.shape)).collect();
                rep.violation(
                    format!("C15|{}|{}|{}|in={}", op, c.variant["attrs"], kind, in_shapes.join(",")),
                    format!("{} ({}) output {}: rten vs ONNX reference: {}", op, c.variant["attrs"], t.name, diff),
                    json!({"case": small_case_json(c), "input_set": k, "output": t.name, "got": t.to_json(), "expected": exp.to_json()}),
                );
            }
        }
        if all_ok && got.iter().any(|t| t.numel() > 1) {
            rep.nontrivial(&(&c.id, k));
        }
        if all_ok && rep.wants_sample() && got.iter().any(|t| t.numel() > 2) && rep.samples.iter().all(|s| s["op"] != json!(op)) {
            rep.sample(|| json!({"op": op, "case": c.id, "attrs": c.variant["attrs"], "inputs": inputs.iter().map(|t| format!("{} {}{:?}", t.name, t.dtype, t.shape)).collect::<Vec<_>>(), "output_shape": got[0].shape}));
        }
    }
}

pub fn run(args: &Args) {
    let mut rep = Report::new(
        "C15",
        "modelcheck c15",
        args,
        "single-operator ONNX models generated per operator with sampled attributes, opset versions and input shapes/dtypes (plus a binding with NaN/inf/-0 values); rten's output compared with a naive numpy transcription of the ONNX operator specification (exact for integer/boolean and selection operators, 1e-5 for elementwise math, 1e-4 for accumulations); non-trivial = a compared case whose output has more than one element; distinct by (case, input set)",
    );
    rep.max_samples = 12;
    let cases = if let Some(p) = &args.replay {
        let w: Json = serde_json::from_str(&std::fs::read_to_string(p).unwrap()).unwrap();
        let w = if w.get("witness").is_some() { w["witness"].clone() } else { w };
        vec![Case::from_json(w["case"].clone())]
    } else {
        read_pack(&pack_dir(args), "singleop", args.shard, args.shards)
    };
    for c in &cases {
        if !c.c15 {
            continue;
        }
        check_case(&mut rep, c);
    }
    // Pinned witnesses of open findings are part of every run.
    for c in pinned_cases(args) {
        check_case(&mut rep, &c);
        rep.count("pinned_witnesses_run");
    }
    let ops_covered = rep.counters.keys().filter(|k| k.starts_with("op:")).count();
    rep.add("operators_compared", ops_covered as u64);
    if args.replay.is_some() {
        rep.nontrivial(&0u8);
        rep.nontrivial(&1u8);
    }
    rep.finish();
}
