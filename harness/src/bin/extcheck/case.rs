//! A test case: an ONNX model whose initialisers are stored externally, plus
//! the loader and model-path variant to use. Serialisable to the witness JSON
//! that `--replay` accepts.
use vcommon::onnxpb::{self, Pb};
use vcommon::{Json, from_hex, json, to_hex};

pub const FLOAT16: i64 = 10;

#[derive(Clone, Copy, Debug, PartialEq, Eq, Hash, PartialOrd, Ord)]
pub enum Loader {
    File,
    Mmap,
    Mem,
}

pub const LOADERS: [Loader; 3] = [Loader::File, Loader::Mmap, Loader::Mem];

impl Loader {
    pub fn name(self) -> &'static str {
        match self {
            Loader::File => "file",
            Loader::Mmap => "mmap",
            Loader::Mem => "mem",
        }
    }
    pub fn parse(s: &str) -> Option<Loader> {
        match s {
            "file" => Some(Loader::File),
            "mmap" => Some(Loader::Mmap),
            "mem" => Some(Loader::Mem),
            _ => None,
        }
    }
}

#[derive(Clone, Debug, PartialEq, Eq, Hash)]
pub struct TensorSpec {
    /// ONNX data type of the initialiser.
    pub dtype: i64,
    pub dims: Vec<i64>,
    /// Value of the "location" key (raw bytes; None = key absent).
    pub location: Option<Vec<u8>>,
    pub offset: Option<String>,
    pub length: Option<String>,
    /// Additional external_data entries, written after the three above.
    pub extra: Vec<(String, String)>,
}

#[derive(Clone, Debug, PartialEq, Eq, Hash)]
pub struct Case {
    pub tensors: Vec<TensorSpec>,
    pub optimize: bool,
    /// "abs" | "rel" | "dotdot" | "symdir": how the model file is named.
    pub model_path: String,
    /// Generator family (evidence only).
    pub family: String,
}

pub fn dtype_name(d: i64) -> &'static str {
    match d {
        onnxpb::FLOAT => "f32",
        onnxpb::UINT8 => "u8",
        onnxpb::INT8 => "i8",
        onnxpb::INT32 => "i32",
        onnxpb::INT64 => "i64",
        onnxpb::BOOL => "bool",
        onnxpb::DOUBLE => "f64",
        FLOAT16 => "f16",
        _ => "?",
    }
}

pub fn dtype_from_name(s: &str) -> i64 {
    match s {
        "f32" => onnxpb::FLOAT,
        "u8" => onnxpb::UINT8,
        "i8" => onnxpb::INT8,
        "i32" => onnxpb::INT32,
        "i64" => onnxpb::INT64,
        "bool" => onnxpb::BOOL,
        "f64" => onnxpb::DOUBLE,
        "f16" => FLOAT16,
        _ => 0,
    }
}

/// Size in bytes of one stored element.
pub fn elem_size(d: i64) -> usize {
    match d {
        onnxpb::FLOAT | onnxpb::INT32 => 4,
        onnxpb::INT64 | onnxpb::DOUBLE => 8,
        FLOAT16 => 2,
        _ => 1,
    }
}

pub fn lossy(b: &[u8]) -> String {
    String::from_utf8_lossy(b).into_owned()
}

impl TensorSpec {
    pub fn to_json(&self) -> Json {
        json!({
            "dtype": dtype_name(self.dtype),
            "dims": self.dims,
            "location": self.location.as_ref().map(|l| lossy(l)),
            "location_hex": self.location.as_ref().map(|l| to_hex(l)),
            "offset": self.offset,
            "length": self.length,
            "extra": self.extra.iter().map(|(k, v)| json!([k, v])).collect::<Vec<_>>(),
        })
    }

    pub fn from_json(j: &Json) -> TensorSpec {
        let location = match j.get("location_hex") {
            Some(Json::String(h)) => Some(from_hex(h)),
            _ => match j.get("location") {
                Some(Json::String(s)) => Some(s.as_bytes().to_vec()),
                _ => None,
            },
        };
        let s = |k: &str| j.get(k).and_then(|v| v.as_str()).map(|s| s.to_string());
        TensorSpec {
            dtype: dtype_from_name(j["dtype"].as_str().unwrap_or("u8")),
            dims: j["dims"].as_array().map(|a| a.iter().map(|d| d.as_i64().unwrap_or(0)).collect()).unwrap_or_default(),
            location,
            offset: s("offset"),
            length: s("length"),
            extra: j
                .get("extra")
                .and_then(|e| e.as_array())
                .map(|a| {
                    a.iter()
                        .map(|kv| (kv[0].as_str().unwrap_or("").to_string(), kv[1].as_str().unwrap_or("").to_string()))
                        .collect()
                })
                .unwrap_or_default(),
        }
    }
}

impl Case {
    pub fn to_json(&self) -> Json {
        json!({
            "tensors": self.tensors.iter().map(|t| t.to_json()).collect::<Vec<_>>(),
            "optimize": self.optimize,
            "model_path": self.model_path,
            "family": self.family,
        })
    }

    pub fn from_json(j: &Json) -> Case {
        Case {
            tensors: j["tensors"].as_array().map(|a| a.iter().map(TensorSpec::from_json).collect()).unwrap_or_default(),
            optimize: j.get("optimize").and_then(|v| v.as_bool()).unwrap_or(false),
            model_path: j.get("model_path").and_then(|v| v.as_str()).unwrap_or("abs").to_string(),
            family: j.get("family").and_then(|v| v.as_str()).unwrap_or("replay").to_string(),
        }
    }

    /// ONNX bytes: initialiser c<i> (external) -> Identity -> graph output y<i>.
    pub fn model_bytes(&self) -> Vec<u8> {
        let mut inits = Vec::new();
        let mut nodes = Vec::new();
        let mut outputs = Vec::new();
        for (i, t) in self.tensors.iter().enumerate() {
            let cname = format!("c{}", i);
            let yname = format!("y{}", i);
            let mut p = Pb::new();
            for d in &t.dims {
                p.int(1, *d);
            }
            p.int(2, t.dtype).str(8, &cname);
            let mut entry = |k: &str, v: &[u8]| {
                let mut e = Pb::new();
                e.str(1, k).bytes(2, v);
                p.msg(13, &e);
            };
            if let Some(l) = &t.location {
                entry("location", l);
            }
            if let Some(o) = &t.offset {
                entry("offset", o.as_bytes());
            }
            if let Some(l) = &t.length {
                entry("length", l.as_bytes());
            }
            for (k, v) in &t.extra {
                entry(k, v.as_bytes());
            }
            p.int(14, 1); // data_location = EXTERNAL
            inits.push(p);
            nodes.push(onnxpb::node("Identity", &format!("id{}", i), &[&cname], &[&yname], &[]));
            outputs.push(onnxpb::value_info(&yname, out_dtype(t.dtype), None));
        }
        let g = onnxpb::graph("extdata", &nodes, &inits, &[], &outputs);
        onnxpb::model(&g, 17)
    }
}

/// Data type rten represents the constant with.
pub fn out_dtype(d: i64) -> i64 {
    match d {
        onnxpb::INT64 | onnxpb::BOOL => onnxpb::INT32,
        onnxpb::DOUBLE | FLOAT16 => onnxpb::FLOAT,
        d => d,
    }
}
