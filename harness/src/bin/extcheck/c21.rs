//! C21: external tensor data cannot escape the model directory or its file
//! bounds. Orchestration of the two monitors, judging, shrinking, reporting.
use crate::case::{Case, LOADERS, Loader, TensorSpec, dtype_name, elem_size, lossy, out_dtype};
use crate::exec::{self, ChildRes, End, Outcome, Status, TensorOut};
use crate::cgen;
use crate::oracle::{self, Num, PathClass, RangeClass, classify_location, parse_num, range_class};
use crate::strace::{self, BatchItem, OpenVerdict};
use crate::tree::{self, Entry, Tree, pattern};
use std::collections::{BTreeSet, HashSet};
#[allow(unused_imports)]
use std::collections::HashMap;
use vcommon::onnxpb::{FLOAT, UINT8};
use vcommon::{Args, Json, Report, Rng, json, to_hex};

const RULE: &str = "Cases: generated ONNX models whose initialisers (f32/i32/u8/i8, plus i64/f64/bool/f16) are external, loaded through ModelOptions::load_file (FileLoader), load_mmap (MmapLoader) and external_data+load (MemLoader) from a scratch tree (model dir m/ with recognised, unrecognised, nested, backslash, unicode, 255-byte, empty and symlinked names; secret.data one level up; cwd = parent of m/). Locations: a hand-written list (~150), a grammar over path components joined by '/' and '\\', mutations of valid names, random strings; offsets/lengths: absent, 0, size, size+-1, 2^31, 2^32, 2^63-1, 2^63, 2^64-1, negative, non-numeric, pairs whose sum wraps u64, lengths not matching shape*dtype; an offset x length grid on two files. Each (case, loader) runs in a forked child. Result monitor: load Ok => every location is, by the harness's own string predicate, a single plain file name with a recognised data extension that exists directly in m/ (for MemLoader: the buffer registered under exactly that key), the range lies inside the file (u128 arithmetic), and the constant read back (as graph output and as the constant node) equals file[offset..offset+length] decoded little-endian; a case that is not acceptable must end in Err - panic, abort, fatal signal or hang is a violation. System-call monitor: the same loads run in children under strace -f -e trace=open,openat,openat2,creat; every successful open inside a case's section other than the model file must be <model dir>/<one acceptable component> (symlinks resolved in the directory part only); a positive control (direct opens of ../secret.data, an absolute path, sub/x.data, notes.txt) must be reported by the log parser. Refusals are never violations. Not flagged, only counted: names the statement does not decide (extension merely starting with 'data', '.data', NUL, non-UTF-8), Windows-style names that are ordinary file names on this host, and a symlink with an acceptable name directly inside m/ whose target is elsewhere (the statement constrains the location string, not link targets; docs/security.md does not mention links). Non-trivial = a (loader, tensor spec) for which the loader really consulted an external source: load Ok and bytes compared, or a refusal whose message comes from the path check ('disallowed path'), the bounds check ('file too short', 'invalid data length') or the I/O layer on an accepted name (io error); for the system-call monitor, a (loader, file name) pair whose data file was seen being opened inside the model directory.";

struct Ctx<'a> {
    tree: &'a Tree,
    rep: Report,
    shrunk_per_class: std::collections::HashMap<String, u32>,
    locations_seen: HashSet<Vec<u8>>,
    opened_paths: BTreeSet<String>,
    timeouts: u64,
    odd_refusals: Vec<Json>,
    odd_seen: HashSet<String>,
}

#[derive(Clone, Debug)]
struct Finding {
    kind: &'static str,
    sub: String,
    tensor: usize,
    detail: String,
}

fn file_for(tree: &Tree, loader: Loader, loc: &[u8]) -> Entry {
    match loader {
        Loader::Mem => match std::str::from_utf8(loc) {
            Ok(s) => {
                let (k, size) = tree.mem_lookup(s);
                Entry::File { k, size }
            }
            Err(_) => Entry::Missing,
        },
        _ => tree.lookup(loc),
    }
}

fn fmt_num(v: u64) -> String {
    if v < 65536 {
        return v.to_string();
    }
    for k in 16..64u32 {
        let p = 1u64 << k;
        if v == p {
            return format!("2^{}", k);
        }
        if v == p - 1 {
            return format!("2^{}-1", k);
        }
        if v == p + 1 {
            return format!("2^{}+1", k);
        }
    }
    if v == u64::MAX {
        return "2^64-1".into();
    }
    v.to_string()
}

fn fmt_opt(s: &Option<String>) -> String {
    match s {
        None => "absent".into(),
        Some(s) => match s.parse::<u64>() {
            Ok(v) if s.bytes().all(|c| c.is_ascii_digit()) => fmt_num(v),
            _ => format!("{:?}", s),
        },
    }
}

fn loc_sig(t: &TensorSpec) -> String {
    match &t.location {
        None => "absent".into(),
        Some(l) => match std::str::from_utf8(l) {
            Ok(s) => {
                let s = if s.len() > 120 { format!("{}...[{} bytes]", &s[..s.char_indices().take_while(|(i, _)| *i < 60).last().map(|(i, c)| i + c.len_utf8()).unwrap_or(0)], s.len()) } else { s.to_string() };
                serde_json::to_string(&s).unwrap()
            }
            Err(_) => format!("hex:{}", to_hex(l)),
        },
    }
}

fn path_class_name(c: &PathClass) -> String {
    match c {
        PathClass::Allowed { windows_style: false } => "allowed".into(),
        PathClass::Allowed { windows_style: true } => "allowed-windows-style-name".into(),
        PathClass::Ambiguous(w) => format!("ambiguous:{}", w),
        PathClass::Disallowed(w) => format!("disallowed:{}", w),
    }
}

fn range_class_name(r: &RangeClass) -> &'static str {
    match r {
        RangeClass::In { .. } => "in-range",
        RangeClass::EmptyBeyondEof { .. } => "empty-beyond-eof",
        RangeClass::PastEnd { .. } => "past-end",
        RangeClass::Unknown => "not-a-range",
    }
}

fn err_class(msg: &str) -> &'static str {
    if msg.contains("disallowed path") {
        "err:disallowed-path"
    } else if msg.contains("file too short") {
        "err:file-too-short"
    } else if msg.contains("invalid data length") {
        "err:invalid-data-length"
    } else if msg.contains("io error") {
        "err:io"
    } else if msg.contains("invalid external data") {
        "err:invalid-offset-or-length"
    } else if msg.contains("missing external data") {
        "err:missing-key"
    } else if msg.contains("unsupported external data key") {
        "err:unsupported-key"
    } else if msg.contains("does not match shape") || msg.contains("invalid shape") {
        "err:shape"
    } else if msg.contains("alignment") || msg.contains("aligned") {
        "err:alignment"
    } else {
        "err:other"
    }
}

/// Is this tensor one the statement requires to be refused?
fn must_refuse(tree: &Tree, loader: Loader, t: &TensorSpec) -> Option<String> {
    let Some(loc) = &t.location else { return Some("location absent".into()) };
    let pc = classify_location(loc);
    if let PathClass::Disallowed(w) = pc {
        return Some(format!("location disallowed ({})", w));
    }
    let size = match file_for(tree, loader, loc) {
        Entry::File { size, .. } | Entry::LinkOut { size, .. } => size as u64,
        _ => return Some("no such file in the model directory".into()),
    };
    match range_class(parse_num(t.offset.as_deref()), parse_num(t.length.as_deref()), size) {
        RangeClass::In { .. } => None,
        r => Some(format!("range {} (file size {})", range_class_name(&r), size)),
    }
}

fn check_tensor_content(tree: &Tree, t: &TensorSpec, k: u32, size: usize, rc: &RangeClass, got: &TensorOut, what: &str) -> Result<u64, String> {
    let want_dtype = dtype_name(out_dtype(t.dtype));
    if got.dtype != want_dtype {
        return Err(format!("{}: dtype {} but the initialiser's type maps to {}", what, got.dtype, want_dtype));
    }
    let width = if want_dtype == "f32" || want_dtype == "i32" { 4 } else { 1 };
    let file = pattern(k, size);
    let provenance = |bytes: &[u8]| match tree.provenance(bytes) {
        Some((rel, pos)) => format!("; the bytes returned occur in {} at offset {}", rel, pos),
        None => String::new(),
    };
    match rc {
        RangeClass::In { off, len } => {
            let raw = &file[*off as usize..(*off + *len) as usize];
            let (want, n) = oracle::decode(t.dtype, raw);
            let elems: usize = got.shape.iter().product();
            if elems != n || got.bytes.len() != want.len() {
                return Err(format!("{}: {} elements (shape {:?}) but the range holds {}", what, elems, got.shape, n));
            }
            if let Some(i) = oracle::first_diff(want_dtype == "f32", width, &got.bytes, &want) {
                let g = &got.bytes[i * width..(i * width + width).min(got.bytes.len())];
                let w = &want[i * width..(i * width + width).min(want.len())];
                return Err(format!("{}: element {} is {} but file[{}..{}] decodes to {}{}", what, i, to_hex(g), off, off + len, to_hex(w), provenance(&got.bytes)));
            }
            Ok(want.len() as u64)
        }
        _ => {
            // No definite range named: whatever was returned must at least be a
            // contiguous slice of that file (only decidable for byte-copy types).
            if elem_size(t.dtype) != width || got.bytes.is_empty() {
                return Ok(0);
            }
            if file.windows(got.bytes.len()).any(|w| w == &got.bytes[..]) {
                Ok(got.bytes.len() as u64)
            } else {
                Err(format!("{}: returned bytes are not a slice of the named file{}", what, provenance(&got.bytes)))
            }
        }
    }
}

/// Result monitor for one (case, loader) execution.
fn judge(ctx: &mut Ctx, case: &Case, loader: Loader, res: &ChildRes, count: bool) -> Vec<Finding> {
    let tree = ctx.tree;
    let mut out = Vec::new();
    let ln = loader.name();
    let outcome = res.result.as_deref().and_then(Outcome::parse);
    let refusals: Vec<(usize, String)> = case.tensors.iter().enumerate().filter_map(|(i, t)| must_refuse(tree, loader, t).map(|w| (i, w))).collect();
    let abnormal = |ctx: &mut Ctx, class: String, detail: String| -> Vec<Finding> {
        if count {
            ctx.rep.count(&format!("{}:abnormal:{}", ln, class));
        }
        if class == "SIGKILL" {
            // possibly the OOM killer: never a verdict
            if count {
                ctx.rep.count("killed_not_judged");
            }
            return vec![];
        }
        match refusals.first() {
            Some((i, why)) => vec![Finding { kind: "no-error", sub: class, tensor: *i, detail: format!("{}; tensor c{} had to be refused: {}", detail, i, why) }],
            None => {
                if count {
                    ctx.rep.count("abnormal_end_on_acceptable_case_not_judged");
                }
                vec![]
            }
        }
    };
    let outcome = match (&res.end, outcome) {
        (End::Completed, Some(o)) => o,
        (End::Completed, None) => {
            if count {
                ctx.rep.count("harness:unreadable_child_result");
            }
            return out;
        }
        _ => {
            let class = exec::end_class(res);
            let detail = format!("the loading process ended with {} instead of returning an error (stderr: {})", class, res.stderr.lines().find(|l| !l.trim().is_empty()).unwrap_or("").chars().take(160).collect::<String>());
            return abnormal(ctx, class, detail);
        }
    };
    match &outcome.status {
        Status::Panic(p) => {
            let class = format!("panic:{}", vcommon::panic_class(p));
            return abnormal(ctx, class, format!("the loader panicked: {}", p));
        }
        Status::Err(msg) => {
            let ec = err_class(msg);
            if count {
                ctx.rep.count(&format!("{}:refused", ln));
                ctx.rep.count(&format!("{}:{}", ln, ec));
                if refusals.is_empty() {
                    ctx.rep.count(&format!("{}:refused_though_refusal_not_required:{}", ln, ec));
                }
                if ec == "err:other" || (refusals.is_empty() && matches!(ec, "err:disallowed-path" | "err:file-too-short" | "err:io")) {
                    let key = format!("{}|{}|{}", ln, ec, refusals.is_empty());
                    if ctx.odd_refusals.len() < 40 && ctx.odd_seen.insert(key) {
                        ctx.odd_refusals.push(json!({"loader": ln, "class": ec, "acceptable_by_oracle": refusals.is_empty(), "message": msg, "tensors": case.tensors.iter().map(|t| t.to_json()).collect::<Vec<_>>()}));
                    }
                }
                if matches!(ec, "err:disallowed-path" | "err:file-too-short" | "err:invalid-data-length" | "err:io") {
                    for t in &case.tensors {
                        ctx.rep.nontrivial(&(ln, t));
                    }
                }
            }
            return out;
        }
        Status::Ok => {}
    }
    if count {
        ctx.rep.count(&format!("{}:accepted", ln));
    }
    for (i, t) in case.tensors.iter().enumerate() {
        let Some(loc) = &t.location else {
            out.push(Finding { kind: "accepted-location", sub: "absent".into(), tensor: i, detail: "load succeeded without a location key".into() });
            continue;
        };
        let pc = classify_location(loc);
        if let PathClass::Disallowed(why) = &pc {
            out.push(Finding {
                kind: "accepted-location",
                sub: (*why).into(),
                tensor: i,
                detail: format!("load succeeded although location {} is not a single plain file name with a recognised data extension ({})", loc_sig(t), why),
            });
            continue;
        }
        if count {
            match &pc {
                PathClass::Ambiguous(w) => ctx.rep.count(&format!("accepted_undecided_name:{}", w)),
                PathClass::Allowed { windows_style: true } => ctx.rep.count("accepted_windows_style_name_as_plain_file_name"),
                _ => {}
            }
        }
        let (k, size, link_out) = match file_for(tree, loader, loc) {
            Entry::File { k, size } => (k, size, false),
            Entry::LinkOut { k, size } => (k, size, true),
            other => {
                out.push(Finding {
                    kind: "accepted-missing",
                    sub: format!("{:?}", other),
                    tensor: i,
                    detail: format!("load succeeded although {} denotes {:?} in the model directory{}", loc_sig(t), other, match outcome.outputs.get(i) {
                        Some(Ok(o)) => tree.provenance(&o.bytes).map(|(r, p)| format!("; the bytes returned occur in {} at offset {}", r, p)).unwrap_or_default(),
                        _ => String::new(),
                    }),
                });
                continue;
            }
        };
        if link_out && count {
            ctx.rep.count("accepted_symlink_in_model_dir_pointing_outside_not_judged");
        }
        let rc = range_class(parse_num(t.offset.as_deref()), parse_num(t.length.as_deref()), size as u64);
        match rc {
            RangeClass::PastEnd { off, len } => {
                out.push(Finding {
                    kind: "accepted-range",
                    sub: "past-end".into(),
                    tensor: i,
                    detail: format!("load succeeded although offset {} + length {} exceeds the {} bytes of {}", off, len, size, loc_sig(t)),
                });
                continue;
            }
            RangeClass::EmptyBeyondEof { off } => {
                out.push(Finding {
                    kind: "accepted-range",
                    sub: "offset-beyond-eof".into(),
                    tensor: i,
                    detail: format!("load succeeded although offset {} lies beyond the {} bytes of {} (length 0)", off, size, loc_sig(t)),
                });
                continue;
            }
            RangeClass::Unknown => {
                if count {
                    ctx.rep.count("accepted_without_a_decimal_range");
                }
            }
            RangeClass::In { .. } => {}
        }
        let mut compared = 0u64;
        let mut any = false;
        for (what, list) in [("graph output", &outcome.outputs), ("constant node", &outcome.consts)] {
            match list.get(i) {
                Some(Ok(got)) => {
                    any = true;
                    match check_tensor_content(tree, t, k, size, &rc, got, what) {
                        Ok(n) => compared += n,
                        Err(detail) => {
                            out.push(Finding { kind: "content", sub: what.replace(' ', "-"), tensor: i, detail: format!("{} c{} from {}: {}", ln, i, loc_sig(t), detail) });
                            break;
                        }
                    }
                }
                Some(Err(e)) => {
                    if count {
                        ctx.rep.count(&format!("readback_failed:{}", what.replace(' ', "_")));
                        if ctx.rep.wants_sample() {
                            let e = e.clone();
                            ctx.rep.sample(|| json!({"readback_failed": e, "case": case.to_json()}));
                        }
                    }
                }
                None => {}
            }
        }
        if count {
            ctx.rep.add("bytes_compared", compared);
            if any {
                ctx.rep.count(&format!("{}:tensors_compared", ln));
                ctx.rep.count(&format!("dtype_compared:{}", dtype_name(t.dtype)));
                ctx.rep.nontrivial(&(ln, t));
            }
        }
    }
    out
}

fn run_once(tree: &Tree, case: &Case, loader: Loader, timeout: u32) -> ChildRes {
    let file = "model.onnx";
    if loader != Loader::Mem {
        std::fs::write(tree.mdir.join(file), case.model_bytes()).expect("write model file");
    }
    exec::fork_run(timeout, || exec::load_case(tree, case, loader, file).to_string())
}

/// Run with a watchdog; a timeout is re-run once with a much longer limit
/// before it counts as a hang.
fn run_checked(ctx: &mut Ctx, case: &Case, loader: Loader) -> ChildRes {
    let r = run_once(ctx.tree, case, loader, 20);
    if r.end == End::Timeout {
        ctx.timeouts += 1;
        return run_once(ctx.tree, case, loader, 180);
    }
    r
}

fn presig(loader: Loader, f: &Finding) -> String {
    format!("{}|{}|{}", loader.name(), f.kind, f.sub)
}

fn signature(loader: Loader, f: &Finding, t: &TensorSpec, monitor: &str, earlier: &[TensorSpec]) -> String {
    // tensors loaded before the failing one (shrinking removes them when they do not matter)
    let after = if earlier.is_empty() { String::new() } else { format!("|after={}", earlier.iter().map(loc_sig).collect::<Vec<_>>().join(",")) };
    if monitor == "syscall" {
        // what was opened depends on the location only
        return format!("C21|{}|{}|syscall|loc={}", loader.name(), f.kind, loc_sig(t));
    }
    format!(
        "C21|{}|{}:{}|{}|loc={}|offset={}|length={}|dtype={}{}",
        loader.name(),
        f.kind,
        f.sub,
        monitor,
        loc_sig(t),
        fmt_opt(&t.offset),
        fmt_opt(&t.length),
        dtype_name(t.dtype),
        after
    )
}

/// Shrink a failing (case, loader) while the same kind of finding persists.
fn shrink(ctx: &mut Ctx, case: &Case, loader: Loader, f: &Finding) -> (Case, Finding) {
    let want = (f.kind, f.sub.clone());
    let mut best = case.clone();
    let mut best_f = f.clone();
    let mut budget = 120;
    let attempt = |ctx: &mut Ctx, cand: Case, best: &mut Case, best_f: &mut Finding, budget: &mut i32| -> bool {
        if *budget <= 0 || cand == *best {
            return false;
        }
        *budget -= 1;
        let r = run_checked(ctx, &cand, loader);
        let fs = judge(ctx, &cand, loader, &r, false);
        if let Some(nf) = fs.into_iter().find(|x| x.kind == want.0 && x.sub == want.1) {
            *best = cand;
            *best_f = nf;
            true
        } else {
            false
        }
    };
    // single tensor
    if best.tensors.len() > 1 {
        let mut c = best.clone();
        c.tensors = vec![best.tensors[best_f.tensor].clone()];
        attempt(ctx, c, &mut best, &mut best_f, &mut budget);
    }
    // still several tensors: the failure may depend on an earlier tensor (e.g. a file the loader
    // already has open). Try canonical pairs: a plain load of w.data followed by one candidate.
    if best.tensors.len() > 1 {
        let plain = |loc: &[u8]| TensorSpec { dtype: UINT8, dims: vec![0], location: Some(loc.to_vec()), offset: Some("0".into()), length: Some("0".into()), extra: vec![] };
        let pair_cands: [&[u8]; 8] = [b"w.data/", b"w.data/.", b"./w.data", b"sub/../w.data", b"W.DATA", b"w.data\0", b"sub/x.data", b"../secret.data"];
        for cand in pair_cands {
            let mut c = best.clone();
            c.tensors = vec![plain(b"w.data"), plain(cand)];
            if attempt(ctx, c, &mut best, &mut best_f, &mut budget) {
                break;
            }
        }
    }
    // canonical options
    for (mp, opt) in [("abs", false)] {
        let mut c = best.clone();
        c.model_path = mp.into();
        c.optimize = opt;
        attempt(ctx, c, &mut best, &mut best_f, &mut budget);
    }
    let ti = best_f.tensor.min(best.tensors.len() - 1);
    // drop extra keys
    if !best.tensors[ti].extra.is_empty() {
        let mut c = best.clone();
        c.tensors[ti].extra.clear();
        attempt(ctx, c, &mut best, &mut best_f, &mut budget);
    }
    // canonical location first (so that ranges can be canonical relative to a known file)
    let mut loc_canonical = false;
    if let Some(loc) = best.tensors[ti].location.clone() {
        let cands: [&[u8]; 12] = [b"w.data", b"w.data/", b"w.data/.", b"./w.data", b"sub/x.data", b"../secret.data", b"/w.data", b"notes.txt", b"noext", b"sub\\x.data", b"link.data", b"missing.data"];
        let size_of = |ctx: &Ctx, l: &[u8]| match file_for(ctx.tree, loader, l) {
            Entry::File { size, .. } | Entry::LinkOut { size, .. } => Some(size as u64),
            _ => None,
        };
        for cand in cands {
            if cand == &loc[..] {
                loc_canonical = true;
                break;
            }
            let mut c = best.clone();
            c.tensors[ti].location = Some(cand.to_vec());
            if attempt(ctx, c.clone(), &mut best, &mut best_f, &mut budget) {
                loc_canonical = true;
                break;
            }
            // same position relative to the end of the new file
            if let (Some(old), Some(new), Some(off)) = (size_of(ctx, &loc), size_of(ctx, cand), best.tensors[ti].offset.as_ref().and_then(|o| o.parse::<u64>().ok())) {
                if off > old && old != new {
                    c.tensors[ti].offset = Some((new + 1).to_string());
                    if attempt(ctx, c, &mut best, &mut best_f, &mut budget) {
                        loc_canonical = true;
                        break;
                    }
                }
            }
        }
    }
    // canonical range / dtype
    let crash = want.0 == "no-error";
    // crashes: the largest length the loaders' own guard lets through, then lengths whose sum with offset 8 wraps u64
    let len_cands: Vec<&str> = if crash { vec!["9223372036854775807", "18446744073709551608", "18446744073709551615", "4", "0"] } else { vec!["0", "4", "16"] };
    for len in len_cands {
        if best.tensors[ti].length.as_deref() == Some(len) && best.tensors[ti].dtype == UINT8 {
            break;
        }
        let mut c = best.clone();
        let t = &mut c.tensors[ti];
        t.length = Some(len.to_string());
        t.dtype = UINT8;
        t.dims = vec![len.parse::<u64>().unwrap().min(i64::MAX as u64) as i64];
        if attempt(ctx, c, &mut best, &mut best_f, &mut budget) {
            break;
        }
    }
    {
        // offset 0, or one past the end of the named file
        let size = best.tensors[ti].location.as_ref().and_then(|l| match file_for(ctx.tree, loader, l) {
            Entry::File { size, .. } | Entry::LinkOut { size, .. } => Some(size as u64),
            _ => None,
        });
        let mut offs = vec!["0".to_string()];
        if crash {
            offs.push("8".to_string());
        }
        if let Some(sz) = size {
            offs.push((sz + 1).to_string());
        }
        for o in offs {
            if best.tensors[ti].offset.as_deref() == Some(o.as_str()) {
                break;
            }
            let mut c = best.clone();
            c.tensors[ti].offset = Some(o);
            if attempt(ctx, c, &mut best, &mut best_f, &mut budget) {
                break;
            }
        }
    }
    if best.tensors[ti].dtype != UINT8 {
        let mut c = best.clone();
        let t = &mut c.tensors[ti];
        if let Some(l) = t.length.as_ref().and_then(|l| l.parse::<u64>().ok()) {
            t.dtype = UINT8;
            t.dims = vec![l.min(i64::MAX as u64) as i64];
            attempt(ctx, c, &mut best, &mut best_f, &mut budget);
        }
    }
    // no canonical location reproduces it: delete characters, then respell
    if !loc_canonical {
        let mut cur = best.tensors[ti].location.clone().unwrap_or_default();
        // delete chunks, then single bytes
        let mut chunk = (cur.len() / 2).max(1);
        while chunk >= 1 && budget > 0 {
            let mut i = 0;
            while i + chunk <= cur.len() && budget > 0 {
                let mut cand_loc = cur.clone();
                cand_loc.drain(i..i + chunk);
                let mut c = best.clone();
                c.tensors[ti].location = Some(cand_loc.clone());
                if attempt(ctx, c, &mut best, &mut best_f, &mut budget) {
                    cur = cand_loc;
                } else {
                    i += chunk;
                }
            }
            if chunk == 1 {
                break;
            }
            chunk /= 2;
        }
        // canonical spelling: every character except separators and dots becomes 'w'
        if std::str::from_utf8(&cur).is_ok() {
            let n_chars = String::from_utf8_lossy(&cur).chars().count();
            for i in 0..n_chars {
                if budget <= 0 {
                    break;
                }
                let cur_chars: Vec<char> = String::from_utf8_lossy(&cur).chars().collect();
                if i >= cur_chars.len() {
                    break;
                }
                let c0 = cur_chars[i];
                if matches!(c0, 'w' | '.' | '/' | '\\' | ':') {
                    continue;
                }
                let mut nc = cur_chars.clone();
                nc[i] = 'w';
                let cand_loc: Vec<u8> = nc.into_iter().collect::<String>().into_bytes();
                let mut c = best.clone();
                c.tensors[ti].location = Some(cand_loc.clone());
                if attempt(ctx, c, &mut best, &mut best_f, &mut budget) {
                    cur = cand_loc;
                }
            }
        }
    }
    (best, best_f)
}

fn witness(case: &Case, loader: Loader, monitor: &str, detail: &str) -> Json {
    json!({"loader": loader.name(), "monitor": monitor, "case": case.to_json(), "tree_version": 1, "observed": detail})
}

/// Run many (case, loader) pairs, several per forked child. A child that dies
/// (abort, fatal signal, watchdog) loses only the item it was executing: that
/// item is re-run alone in a fresh child to confirm and classify the end, and
/// the remaining items continue in a new child.
fn run_many(ctx: &mut Ctx, items: &[(Case, Loader)]) -> Vec<ChildRes> {
    let tree = ctx.tree;
    for (i, (case, loader)) in items.iter().enumerate() {
        if *loader != Loader::Mem {
            std::fs::write(tree.mdir.join(strace::model_file_name(i)), case.model_bytes()).expect("write model file");
        }
    }
    let mut results: Vec<ChildRes> = Vec::with_capacity(items.len());
    while results.len() < items.len() {
        let start = results.len();
        let chunk = &items[start..(start + 128).min(items.len())];
        ctx.rep.count("result_monitor_children_forked");
        let (end, lines, stderr) = exec::fork_stream(|emit| {
            for (j, (case, loader)) in chunk.iter().enumerate() {
                unsafe { libc::alarm(20) };
                let o = exec::load_case(tree, case, *loader, &strace::model_file_name(start + j));
                emit(&o.to_string());
            }
        });
        let got = lines.len().min(chunk.len());
        for l in lines.into_iter().take(got) {
            results.push(ChildRes { end: End::Completed, result: Some(l), stderr: String::new() });
        }
        if got < chunk.len() {
            // the child died while executing chunk[got]: confirm alone
            let _ = (end, stderr);
            let (case, loader) = &chunk[got];
            ctx.rep.count("result_monitor_child_deaths_confirmed_alone");
            let r = run_checked(ctx, case, *loader);
            results.push(r);
        }
    }
    for (i, (_, loader)) in items.iter().enumerate() {
        if *loader != Loader::Mem {
            let _ = std::fs::remove_file(tree.mdir.join(strace::model_file_name(i)));
        }
    }
    results
}

/// Result monitor on a batch of (case, loader) pairs.
fn result_monitor(ctx: &mut Ctx, items: &[(Case, Loader)]) {
    let t0 = std::time::Instant::now();
    let results = run_many(ctx, items);
    ctx.rep.add("result_monitor_wall_ms", t0.elapsed().as_millis() as u64);
    for ((case, loader), r) in items.iter().zip(results.iter()) {
        let loader = *loader;
        ctx.rep.eval();
        ctx.rep.count(&format!("{}:loads_attempted", loader.name()));
        let findings = judge(ctx, case, loader, r, true);
        for f in findings {
            let ps = presig(loader, &f);
            ctx.rep.count(&format!("violating_executions:{}", ps));
            // Shrink the first few of each class; further ones of the same class are counted.
            let n = ctx.shrunk_per_class.entry(ps.clone()).or_insert(0);
            if *n >= 1 {
                continue;
            }
            *n += 1;
            let (small, sf) = shrink(ctx, case, loader, &f);
            let ti = sf.tensor.min(small.tensors.len() - 1);
            let sig = signature(loader, &sf, &small.tensors[ti], "result", &small.tensors[..ti]);
            ctx.rep.violation(sig, sf.detail.clone(), witness(&small, loader, "result", &sf.detail));
        }
    }
}

fn note_classes(ctx: &mut Ctx, case: &Case) {
    ctx.rep.count(&format!("family:{}", case.family));
    ctx.rep.count(&format!("model_path:{}", case.model_path));
    for t in &case.tensors {
        if let Some(l) = &t.location {
            let pc = classify_location(l);
            ctx.rep.count(&format!("location_class:{}", path_class_name(&pc)));
            if ctx.locations_seen.insert(l.clone()) {
                ctx.rep.count("distinct_location_strings");
                if l.contains(&b'\\') {
                    ctx.rep.count("distinct_locations_with_backslash");
                }
                if l.iter().any(|c| *c >= 0x80) {
                    ctx.rep.count("distinct_locations_non_ascii");
                }
            }
            let size = match ctx.tree.lookup(l) {
                Entry::File { size, .. } | Entry::LinkOut { size, .. } => Some(size as u64),
                _ => None,
            };
            if let Some(size) = size {
                let (o, n) = (parse_num(t.offset.as_deref()), parse_num(t.length.as_deref()));
                ctx.rep.count(&format!("range_class:{}", range_class_name(&range_class(o, n, size))));
                if let (Num::Val(o), Num::Val(n)) = (o, n) {
                    if o.checked_add(n).is_none() {
                        ctx.rep.count("range_sum_overflows_u64");
                    }
                }
            }
        } else {
            ctx.rep.count("location_class:absent");
        }
        let cls = |s: &Option<String>| match parse_num(s.as_deref()) {
            Num::Absent => "absent",
            Num::Bad => "not-decimal-u64",
            Num::Val(v) if v >= 1 << 63 => ">=2^63",
            Num::Val(v) if v >= 1 << 32 => ">=2^32",
            Num::Val(v) if v >= 1 << 31 => ">=2^31",
            Num::Val(0) => "0",
            Num::Val(_) => "small",
        };
        ctx.rep.count(&format!("offset_class:{}", cls(&t.offset)));
        ctx.rep.count(&format!("length_class:{}", cls(&t.length)));
        ctx.rep.count(&format!("dtype:{}", dtype_name(t.dtype)));
    }
}

/// System-call monitor on a batch of (case, loader) pairs.
fn syscall_monitor(ctx: &mut Ctx, items: &[(Case, Loader)], tag: &str) {
    // The traced child runs its items one after the other in one process; an
    // aborting load ends it, and the rest continues in a new traced child.
    let t0 = std::time::Instant::now();
    let mut start = 0;
    let mut round = 0;
    while start < items.len() {
        let used = syscall_monitor_once(ctx, &items[start..], &format!("{}-{}", tag, round));
        start += used.max(1);
        round += 1;
        if ctx.rep.counters.get("strace_batches_failed").copied().unwrap_or(0) > 3 {
            break;
        }
    }
    ctx.rep.add("syscall_monitor_wall_ms", t0.elapsed().as_millis() as u64);
}

/// Returns how many leading items were decided (the traced child may have died early).
fn syscall_monitor_once(ctx: &mut Ctx, items: &[(Case, Loader)], tag: &str) -> usize {
    if items.is_empty() {
        return 0;
    }
    let batch: Vec<BatchItem> = items.iter().map(|(c, l)| BatchItem::Load { case: c.clone(), loader: *l }).collect();
    ctx.rep.count("strace_children_run");
    let run = match strace::run_batch(ctx.tree, &batch, tag, 600) {
        Ok(r) => r,
        Err(e) => {
            ctx.rep.count("strace_batches_failed");
            ctx.rep.inconclusive = Some(format!("system-call monitor could not run: {}", e));
            return items.len();
        }
    };
    ctx.rep.add("strace_log_bytes", run.log_bytes as u64);
    if run.unparsed > 0 {
        ctx.rep.add("strace_unparsed_open_lines", run.unparsed);
        ctx.rep.inconclusive = Some(format!("{} open-family lines of the strace log could not be parsed", run.unparsed));
        ctx.rep.note("strace_unparsed_samples", json!(run.unparsed_samples));
    }
    for (i, (case, loader)) in items.iter().enumerate() {
        let Some(sec) = run.sections.get(&i) else {
            // the traced child ended before this item started
            if i == 0 {
                ctx.rep.count("strace_sections_missing");
                return 1;
            }
            return i;
        };
        ctx.rep.eval();
        ctx.rep.count("strace_sections_checked");
        let died = sec.end.is_none();
        match &sec.end {
            Some(s) => ctx.rep.count(&format!("strace:{}:load_{}", loader.name(), s)),
            None => ctx.rep.count(&format!("strace:{}:load_died", loader.name())),
        }
        let mf = strace::model_file_name(i);
        let locs: Vec<Vec<u8>> = case.tensors.iter().filter_map(|t| t.location.clone()).collect();
        ctx.rep.add("strace_failed_opens_seen", sec.failed.len() as u64);
        for ev in &sec.opened {
            ctx.rep.count("strace_successful_opens_seen");
            let v = strace::judge_open(ev, &ctx.tree.root, &ctx.tree.mdir, if *loader == Loader::Mem { None } else { Some(&mf) }, &locs);
            let shown = {
                let p = lossy(&ev.path);
                let r = ctx.tree.root.to_string_lossy().to_string();
                let p = p.replace(&r, "<root>");
                if p.starts_with("m/model_") || p.contains("/model_") { p.split("model_").next().unwrap_or("").to_string() + "model_<i>.onnx" } else { p }
            };
            if ctx.opened_paths.len() < 200 {
                ctx.opened_paths.insert(shown.clone());
            }
            match v {
                OpenVerdict::ModelFile => ctx.rep.count("strace_open:model_file"),
                OpenVerdict::InDir { name, ambiguous } => {
                    ctx.rep.count(if ambiguous { "strace_open:data_file_in_model_dir_undecided_name" } else { "strace_open:data_file_in_model_dir" });
                    ctx.rep.nontrivial(&("syscall", loader.name(), name));
                }
                OpenVerdict::System => ctx.rep.count("strace_open:system_pseudo_file_not_named_by_model"),
                OpenVerdict::Escape(why) => {
                    ctx.rep.count("strace_open:ESCAPE");
                    // shrink to the tensor whose location matches, keep the case otherwise
                    let mut small = case.clone();
                    if small.tensors.len() > 1 {
                        if let Some(t) = small.tensors.iter().find(|t| t.location.as_deref().map(|l| ev.path.ends_with(l)).unwrap_or(false)).cloned() {
                            small.tensors = vec![t];
                        }
                    }
                    let t = small.tensors[0].clone();
                    let f = Finding { kind: "opened-outside", sub: String::new(), tensor: 0, detail: why.clone() };
                    let sig = signature(*loader, &f, &t, "syscall", &[]);
                    let detail = format!("while loading with the {} loader the process {} ({}) = fd {}", loader.name(), why, ev.flags, ev.ret);
                    ctx.rep.violation(sig, detail.clone(), witness(&small, *loader, "syscall", &detail));
                }
            }
        }
        if died {
            return i + 1;
        }
    }
    items.len()
}

/// Positive/negative control of the system-call monitor.
fn syscall_selftest(ctx: &mut Ctx) {
    let root = ctx.tree.root.to_string_lossy().to_string();
    let probes: Vec<(String, bool)> = vec![
        ("m/../secret.data".into(), true),
        (format!("{}/secret.data", root), true),
        ("/etc/hostname".into(), true),
        ("m/sub/x.data".into(), true),
        ("m/notes.txt".into(), true),
        ("m/linkdir/secret.data".into(), true),
        ("m/w.data".into(), false),
        ("mlink/w.onnx_data_1".into(), false),
        (format!("{}/m/{}", root, tree::UNI1), false),
    ];
    let batch: Vec<BatchItem> = probes.iter().map(|(p, _)| BatchItem::SelfOpen { path: p.clone() }).collect();
    ctx.rep.count("strace_children_run");
    let run = match strace::run_batch(ctx.tree, &batch, "selftest", 120) {
        Ok(r) => r,
        Err(e) => {
            ctx.rep.inconclusive = Some(format!("system-call monitor self-test could not run: {}", e));
            return;
        }
    };
    let mut ok = true;
    let mut log = Vec::new();
    for (i, (p, want_flag)) in probes.iter().enumerate() {
        let sec = run.sections.get(&i);
        let opened = sec.map(|s| s.opened.clone()).unwrap_or_default();
        let flagged = opened.iter().any(|ev| matches!(strace::judge_open(ev, &ctx.tree.root, &ctx.tree.mdir, None, &[]), OpenVerdict::Escape(_)));
        let seen = opened.len() == 1 && sec.and_then(|s| s.end.clone()).as_deref() == Some("self-opened");
        let good = seen && flagged == *want_flag;
        // /etc/hostname may not exist: then the control is void, not failed
        let void = p == "/etc/hostname" && sec.and_then(|s| s.end.clone()).as_deref() == Some("self-failed");
        if !good && !void {
            ok = false;
        }
        if good && *want_flag {
            ctx.rep.count("strace_selftest_escapes_detected");
        }
        if good && !*want_flag {
            ctx.rep.count("strace_selftest_legitimate_opens_passed");
        }
        log.push(json!({"path": p.replace(&root, "<root>"), "expected_flagged": want_flag, "seen": seen, "flagged": flagged}));
    }
    ctx.rep.note("syscall_monitor_selftest", json!(log));
    if !ok {
        ctx.rep.inconclusive = Some("system-call monitor self-test failed: a direct open made by the harness was not classified as expected".into());
    }
}

fn cleanup(root: &std::path::Path) {
    let _ = std::env::set_current_dir("/");
    let _ = std::fs::remove_dir_all(root);
}

fn load_witnesses(path: &str) -> Vec<(Case, Vec<Loader>, String)> {
    let text = std::fs::read_to_string(path).unwrap_or_else(|e| panic!("witness {}: {}", path, e));
    let j: Json = serde_json::from_str(&text).unwrap_or_else(|e| panic!("witness {}: {}", path, e));
    let mut w = &j;
    // unwrap {"witness": {...}} wrappers (the driver nests one inside another)
    while w.get("case").is_none() {
        match w.get("witness") {
            Some(inner) => w = inner,
            None => panic!("witness {} has no 'case'", path),
        }
    }
    let case = Case::from_json(&w["case"]);
    let loaders = match w.get("loader").and_then(|l| l.as_str()).and_then(Loader::parse) {
        Some(l) => vec![l],
        None => LOADERS.to_vec(),
    };
    let monitor = w.get("monitor").and_then(|m| m.as_str()).unwrap_or("both").to_string();
    vec![(case, loaders, monitor)]
}

pub fn run(args: &mut Args) {
    // absolute --out before the working directory changes
    if let Some(o) = &args.out {
        let p = std::path::Path::new(o);
        if p.is_relative() {
            args.out = Some(std::env::current_dir().unwrap().join(p).to_string_lossy().to_string());
        }
    }
    let replay_abs = args.replay.as_ref().map(|r| std::fs::canonicalize(r).unwrap_or_else(|_| r.into()).to_string_lossy().to_string());
    let pinned: Vec<String> = args
        .get("pinned")
        .map(|l| l.split(',').filter(|s| !s.is_empty()).map(|s| std::fs::canonicalize(s).unwrap_or_else(|_| s.into()).to_string_lossy().to_string()).collect())
        .unwrap_or_default();

    // The loads and read-backs are tiny: one worker thread (a 16-thread pool per
    // forked child costs more than everything else); no backtrace symbolisation
    // when a child aborts.
    // Safety: the process is single-threaded here.
    unsafe {
        std::env::set_var("RTEN_NUM_THREADS", "1");
        std::env::set_var("RUST_BACKTRACE", "0");
    }
    let root = tree::fresh_root(&format!("s{}", args.shard), args.out.as_deref());
    let tree = Tree::spec(&root);
    let notes = tree.create();
    std::env::set_current_dir(&root).expect("chdir to scratch root");
    let rep = Report::new("C21", "extcheck", args, RULE);
    let mut ctx = Ctx { tree: &tree, rep, shrunk_per_class: std::collections::HashMap::new(), locations_seen: HashSet::new(), opened_paths: BTreeSet::new(), timeouts: 0, odd_refusals: Vec::new(), odd_seen: HashSet::new() };
    ctx.rep.max_samples = 8;
    if !notes.is_empty() {
        ctx.rep.note("tree_notes", json!(notes));
    }

    // ---------------------------------------------------------------- replay
    if let Some(r) = &replay_abs {
        // the driver hands the witness to every shard: one of them is enough
        let witnesses = if args.shard == 0 { load_witnesses(r) } else { Vec::new() };
        for (case, loaders, monitor) in witnesses {
            note_classes(&mut ctx, &case);
            let items: Vec<(Case, Loader)> = loaders.iter().map(|l| (case.clone(), *l)).collect();
            if monitor != "syscall" {
                result_monitor(&mut ctx, &items);
            }
            if monitor != "result" {
                syscall_monitor(&mut ctx, &items, "replay");
            }
        }
        ctx.rep.note("scratch_root_removed", json!(true));
        let rep = ctx.rep;
        cleanup(&root);
        rep.finish();
        return;
    }

    // ---------------------------------------------------------------- workload
    let do_result = args.get("result").unwrap_or("1") != "0";
    // Under a sanitizer the traced children would be dominated by the runtime's own file
    // accesses (and LeakSanitizer cannot run under ptrace): result monitor only.
    let sanitized = std::env::var("VERIF_FLAVOUR").map(|f| f != "native").unwrap_or(false);
    let do_syscall = args.get("syscall").unwrap_or(if sanitized { "0" } else { "1" }) != "0";
    let do_fixed = args.get("fixed").unwrap_or("1") != "0";
    if args.shard == 0 {
        if do_syscall {
            syscall_selftest(&mut ctx);
        }
        for p in &pinned {
            for (case, loaders, monitor) in load_witnesses(p) {
                ctx.rep.count("pinned_witnesses_run");
                let items: Vec<(Case, Loader)> = loaders.iter().map(|l| (case.clone(), *l)).collect();
                if monitor != "syscall" {
                    result_monitor(&mut ctx, &items);
                }
                if monitor != "result" && do_syscall {
                    syscall_monitor(&mut ctx, &items, "pinned");
                }
            }
        }
    }
    let fixed: Vec<Case> = cgen::fixed_cases(&tree).into_iter().filter(|_| do_fixed).enumerate().filter(|(i, _)| i % args.shards == args.shard).map(|(_, c)| c).collect();
    let n_random = args.budget(1600, 100000);
    let mut rng = Rng::derive(args.seed, 0xC21_0000 + args.shard as u64);
    let mut queue: Vec<(Case, Loader)> = Vec::new();
    let mut batch_no = 0usize;
    let total = fixed.len() as u64 + n_random;
    let mut fixed_iter = fixed.into_iter();
    for idx in 0..total {
        let case = match fixed_iter.next() {
            Some(c) => c,
            None => cgen::random_case(&tree, &mut rng),
        };
        note_classes(&mut ctx, &case);
        ctx.rep.count("cases");
        if ctx.rep.wants_sample() && idx % 97 == 5 {
            ctx.rep.sample(|| case.to_json());
        }
        for l in LOADERS {
            queue.push((case.clone(), l));
        }
        if queue.len() >= 384 || idx + 1 == total {
            let items = std::mem::take(&mut queue);
            if do_result {
                result_monitor(&mut ctx, &items);
            }
            if do_syscall {
                syscall_monitor(&mut ctx, &items, &format!("b{}", batch_no));
            }
            batch_no += 1;
        }
    }

    ctx.rep.add("watchdog_reruns", ctx.timeouts);
    let odd = std::mem::take(&mut ctx.odd_refusals);
    ctx.rep.note("refusal_samples", json!(odd));
    let opened: Vec<String> = ctx.opened_paths.iter().cloned().collect();
    ctx.rep.add("strace_distinct_paths_opened", opened.len() as u64);
    ctx.rep.note("strace_distinct_paths_opened", json!(opened));
    ctx.rep.note(
        "symlink_policy",
        json!("a symlink with an acceptable name directly inside the model directory is treated as 'a file directly inside the directory' whatever its target (counted in accepted_symlink_in_model_dir_pointing_outside_not_judged); the system-call monitor resolves links in the directory part of an opened path only"),
    );
    let accepted: u64 = ["file", "mmap", "mem"].iter().map(|l| ctx.rep.counters.get(&format!("{}:tensors_compared", l)).copied().unwrap_or(0)).sum();
    if do_result && accepted == 0 && ctx.rep.inconclusive.is_none() {
        ctx.rep.inconclusive = Some("no load succeeded, so the content monitor compared nothing".into());
    }
    if do_syscall && ctx.rep.counters.get("strace_open:data_file_in_model_dir").copied().unwrap_or(0) == 0 && ctx.rep.inconclusive.is_none() {
        ctx.rep.inconclusive = Some("the system-call monitor never saw a data file being opened".into());
    }
    let _ = (FLOAT, elem_size(FLOAT));
    let rep = ctx.rep;
    cleanup(&root);
    rep.finish();
}

/// Timing aid (not part of any check): in-process load loop without fork.
pub fn bench(args: &Args) {
    unsafe {
        std::env::set_var("RTEN_NUM_THREADS", "1");
    }
    let root = tree::fresh_root("bench", None);
    let tree = Tree::spec(&root);
    tree.create();
    std::env::set_current_dir(&root).unwrap();
    let case = Case { tensors: vec![TensorSpec { dtype: UINT8, dims: vec![16], location: Some(b"w.data".to_vec()), offset: Some("0".into()), length: Some("16".into()), extra: vec![] }], optimize: false, model_path: "abs".into(), family: "bench".into() };
    std::fs::write(tree.mdir.join("model.onnx"), case.model_bytes()).unwrap();
    let n = args.get_u64("n", 200);
    for loader in LOADERS {
        let t0 = std::time::Instant::now();
        for _ in 0..n {
            let _ = exec::fork_run(20, || exec::load_case(&tree, &case, loader, "model.onnx").to_string());
        }
        eprintln!("{}: forked load+readback {:?}/iter", loader.name(), t0.elapsed() / n as u32);
        let t0 = std::time::Instant::now();
        for _ in 0..n {
            let _ = exec::fork_run(20, || format!("{}", exec::load_only(&tree, &case, loader, "model.onnx", None).is_ok()));
        }
        eprintln!("{}: forked load only {:?}/iter", loader.name(), t0.elapsed() / n as u32);
    }
    let t0 = std::time::Instant::now();
    for _ in 0..n {
        let _ = exec::fork_run(20, || String::from("x"));
    }
    eprintln!("empty fork {:?}/iter", t0.elapsed() / n as u32);
    for loader in LOADERS {
        let t0 = std::time::Instant::now();
        for _ in 0..n {
            let r = exec::load_only(&tree, &case, loader, "model.onnx", None);
            assert!(matches!(r, Ok(Ok(_))));
        }
        eprintln!("{}: in-process load only {:?}/iter", loader.name(), t0.elapsed() / n as u32);
    }
    cleanup(&root);
}
