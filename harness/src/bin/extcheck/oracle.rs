//! The harness's independent reading of the property statement:
//!
//! * a location is acceptable only if it is "a single plain filename with a
//!   recognised data extension" - decided on the raw string with the host's
//!   (Unix) path rules, without rten's code and without `std::path`;
//! * a byte range is acceptable only if `offset + length <= file size`
//!   computed in 128-bit arithmetic;
//! * the tensor a successful load yields must be `file[offset..offset+length]`
//!   decoded little-endian.
//!
//! Where the statement is silent the class is `Ambiguous`: never flagged, only
//! counted.
use crate::case::{FLOAT16, elem_size};
use vcommon::onnxpb;

#[derive(Clone, Debug, PartialEq)]
pub enum PathClass {
    /// Single plain file name with a recognised extension. `windows_style`:
    /// contains a backslash or a drive prefix, which on this host are ordinary
    /// file-name characters (counted separately).
    Allowed { windows_style: bool },
    /// The statement does not decide it (counted, never flagged).
    Ambiguous(&'static str),
    /// Must be refused.
    Disallowed(&'static str),
}

/// Extensions the documentation names: "data", "onnx_data", "onnx_data_N".
fn strict_ext(ext: &[u8]) -> bool {
    for base in [&b"onnx_data"[..], &b"data"[..]] {
        if let Some(rest) = ext.strip_prefix(base) {
            if rest.is_empty() {
                return true;
            }
            let rest = match rest[0] {
                b'_' | b'-' | b'.' => &rest[1..],
                _ => rest,
            };
            if !rest.is_empty() && rest.iter().all(|c| c.is_ascii_digit()) {
                return true;
            }
        }
    }
    false
}

pub fn classify_location(loc: &[u8]) -> PathClass {
    if loc.is_empty() {
        return PathClass::Disallowed("empty");
    }
    if loc.contains(&b'/') {
        if loc[0] == b'/' {
            return PathClass::Disallowed("absolute");
        }
        // "name/", "name/.", "name//./": a name followed only by separators and
        // '.' components. Still not a plain file name, but kept as its own class
        // so that it cannot be confused with a path into a sub-directory.
        let mut parts = loc.split(|c| *c == b'/');
        let first = parts.next().unwrap_or(b"");
        let trailing_only = first != b"." && first != b".." && parts.all(|p| p.is_empty() || p == b".");
        return PathClass::Disallowed(if trailing_only { "trailing-separator" } else { "separator" });
    }
    if loc == b"." || loc == b".." {
        return PathClass::Disallowed("dot-component");
    }
    if std::str::from_utf8(loc).is_err() {
        return PathClass::Ambiguous("non-utf8");
    }
    if loc.contains(&0) {
        // Not a possible file name, but the statement's list (separators, '..',
        // absolute, Windows-style, empty, unicode) does not name it.
        return PathClass::Ambiguous("nul-byte");
    }
    let Some(dot) = loc.iter().rposition(|c| *c == b'.') else {
        return PathClass::Disallowed("no-extension");
    };
    if dot == 0 {
        // ".data": a hidden file without extension by Unix convention.
        return PathClass::Ambiguous("hidden-file");
    }
    let ext = &loc[dot + 1..];
    let lower: Vec<u8> = ext.to_ascii_lowercase();
    let prefix_ok = lower.starts_with(b"data") || lower.starts_with(b"onnx_data");
    if !prefix_ok {
        return PathClass::Disallowed("extension");
    }
    if !strict_ext(ext) {
        // "database", "DATA", "data " ...: "recognised" is not defined tightly
        // enough by the statement/docs ("data", "onnx_data", "onnx_data_N etc.").
        return PathClass::Ambiguous("extension-prefix");
    }
    let drive = loc.len() >= 2 && loc[0].is_ascii_alphabetic() && loc[1] == b':';
    PathClass::Allowed { windows_style: loc.contains(&b'\\') || drive }
}

#[derive(Clone, Copy, Debug, PartialEq)]
pub enum Num {
    Absent,
    Val(u64),
    Bad,
}

/// Plain decimal (an optional '+' is tolerated because the value is unambiguous).
pub fn parse_num(s: Option<&str>) -> Num {
    let Some(s) = s else { return Num::Absent };
    let digits = s.strip_prefix('+').unwrap_or(s);
    if digits.is_empty() || !digits.bytes().all(|c| c.is_ascii_digit()) {
        return Num::Bad;
    }
    let mut v: u128 = 0;
    for c in digits.bytes() {
        v = v * 10 + (c - b'0') as u128;
        if v > u64::MAX as u128 {
            return Num::Bad;
        }
    }
    Num::Val(v as u64)
}

#[derive(Clone, Copy, Debug, PartialEq)]
pub enum RangeClass {
    In { off: u64, len: u64 },
    /// offset > size with length 0: no byte is named, but the offset is out of range.
    EmptyBeyondEof { off: u64 },
    /// offset + length > size (128-bit arithmetic).
    PastEnd { off: u64, len: u64 },
    /// offset or length absent / not a decimal u64: no range is named.
    Unknown,
}

pub fn range_class(off: Num, len: Num, size: u64) -> RangeClass {
    let (Num::Val(off), Num::Val(len)) = (off, len) else {
        return RangeClass::Unknown;
    };
    let end = off as u128 + len as u128;
    if end <= size as u128 {
        RangeClass::In { off, len }
    } else if len == 0 {
        RangeClass::EmptyBeyondEof { off }
    } else {
        RangeClass::PastEnd { off, len }
    }
}

fn f16_to_f32(h: u16) -> f32 {
    let sign = ((h >> 15) & 1) as u32;
    let exp = ((h >> 10) & 0x1f) as u32;
    let man = (h & 0x3ff) as u32;
    let bits = if exp == 0 {
        if man == 0 {
            sign << 31
        } else {
            // subnormal: value = man * 2^-24
            let v = man as f32 * (1.0 / 16777216.0);
            return if sign == 1 { -v } else { v };
        }
    } else if exp == 31 {
        (sign << 31) | 0x7f80_0000 | (man << 13)
    } else {
        (sign << 31) | ((exp + 112) << 23) | (man << 13)
    };
    f32::from_bits(bits)
}

/// Decode stored little-endian bytes into the byte image of the tensor rten
/// holds (f32 / i32 / u8 / i8 little-endian). A trailing partial element is
/// ignored. Returns (bytes, element count).
pub fn decode(dtype: i64, raw: &[u8]) -> (Vec<u8>, usize) {
    let es = elem_size(dtype);
    let n = raw.len() / es;
    let mut out = Vec::with_capacity(n * 4);
    for c in raw.chunks_exact(es) {
        match dtype {
            onnxpb::FLOAT | onnxpb::INT32 | onnxpb::UINT8 | onnxpb::INT8 => out.extend_from_slice(c),
            onnxpb::INT64 => {
                let v = i64::from_le_bytes(c.try_into().unwrap());
                let v = v.clamp(i32::MIN as i64, i32::MAX as i64) as i32;
                out.extend_from_slice(&v.to_le_bytes());
            }
            onnxpb::BOOL => {
                let v: i32 = if c[0] != 0 { 1 } else { 0 };
                out.extend_from_slice(&v.to_le_bytes());
            }
            onnxpb::DOUBLE => {
                let v = f64::from_le_bytes(c.try_into().unwrap()) as f32;
                out.extend_from_slice(&v.to_le_bytes());
            }
            FLOAT16 => {
                let v = f16_to_f32(u16::from_le_bytes(c.try_into().unwrap()));
                out.extend_from_slice(&v.to_le_bytes());
            }
            _ => out.extend_from_slice(c),
        }
    }
    (out, n)
}

/// Compare produced tensor bytes with expected ones. Float outputs: any NaN
/// equals any NaN (payload through a conversion is not specified), otherwise
/// bit equality. Returns the index of the first differing element.
pub fn first_diff(out_is_float: bool, width: usize, got: &[u8], want: &[u8]) -> Option<usize> {
    if got.len() != want.len() {
        return Some(got.len().min(want.len()) / width.max(1));
    }
    for (i, (g, w)) in got.chunks(width).zip(want.chunks(width)).enumerate() {
        if g == w {
            continue;
        }
        if out_is_float && width == 4 {
            let a = f32::from_le_bytes(g.try_into().unwrap());
            let b = f32::from_le_bytes(w.try_into().unwrap());
            if a.is_nan() && b.is_nan() {
                continue;
            }
        }
        return Some(i);
    }
    None
}

#[cfg(test)]
mod tests {
    use super::*;
    #[test]
    fn classes() {
        assert!(matches!(classify_location(b"w.data"), PathClass::Allowed { windows_style: false }));
        assert!(matches!(classify_location(b"w.onnx_data_12"), PathClass::Allowed { .. }));
        assert!(matches!(classify_location(b"w.data/"), PathClass::Disallowed(_)));
        assert!(matches!(classify_location(b"notes.txt"), PathClass::Disallowed(_)));
        assert!(matches!(classify_location(b"w.database"), PathClass::Ambiguous(_)));
    }
}
