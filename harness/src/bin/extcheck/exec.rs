//! Driving the real loaders. `load_case` runs inside a forked child (a huge
//! `length` can abort the process, an mmap can SIGBUS); `fork_run` is the
//! child runner (result through a pipe, stderr captured, alarm as watchdog).
use crate::case::{Case, Loader};
use crate::tree::{Tree, pattern};
use rten::{Model, ModelOptions, Value};
use rten_tensor::prelude::*;
use vcommon::{Json, catch, from_hex, json, to_hex};

#[derive(Clone, Debug)]
pub struct TensorOut {
    pub dtype: &'static str,
    pub shape: Vec<usize>,
    pub bytes: Vec<u8>,
}

#[derive(Clone, Debug)]
pub enum Status {
    Ok,
    Err(String),
    Panic(String),
}

#[derive(Clone, Debug)]
pub struct Outcome {
    pub status: Status,
    /// Per tensor i: value of graph output y<i> (Identity of the constant).
    pub outputs: Vec<Result<TensorOut, String>>,
    /// Per tensor i: value of the constant node c<i> itself requested as an output.
    pub consts: Vec<Result<TensorOut, String>>,
}

fn value_out(v: Value) -> Result<TensorOut, String> {
    Ok(match v {
        Value::FloatTensor(t) => TensorOut { dtype: "f32", shape: t.shape().to_vec(), bytes: t.iter().flat_map(|x| x.to_le_bytes()).collect() },
        Value::Int32Tensor(t) => TensorOut { dtype: "i32", shape: t.shape().to_vec(), bytes: t.iter().flat_map(|x| x.to_le_bytes()).collect() },
        Value::UInt8Tensor(t) => TensorOut { dtype: "u8", shape: t.shape().to_vec(), bytes: t.iter().copied().collect() },
        Value::Int8Tensor(t) => TensorOut { dtype: "i8", shape: t.shape().to_vec(), bytes: t.iter().map(|x| *x as u8).collect() },
        _ => return Err("not a tensor".into()),
    })
}

/// Options for the in-memory loader: every standard key of the tree plus the
/// exact location strings the case uses.
pub fn mem_options(tree: &Tree, case: &Case, opts: &mut ModelOptions) {
    for (key, k, size) in tree.mem_standard_keys() {
        opts.external_data(&key, pattern(k, size));
    }
    for t in &case.tensors {
        if let Some(loc) = t.location.as_ref().and_then(|l| std::str::from_utf8(l).ok()) {
            let (k, size) = tree.mem_lookup(loc);
            opts.external_data(loc, pattern(k, size));
        }
    }
}

/// Load only (used by the system-call monitor's children).
pub fn load_only(tree: &Tree, case: &Case, loader: Loader, model_file: &str, prepared: Option<(ModelOptions, Vec<u8>)>) -> Result<Result<Model, String>, String> {
    let path = tree.model_path(&case.model_path, model_file);
    catch(|| match loader {
        Loader::File => {
            let mut opts = ModelOptions::with_all_ops();
            opts.enable_optimization(case.optimize);
            opts.load_file(&path).map_err(|e| e.to_string())
        }
        Loader::Mmap => {
            let mut opts = ModelOptions::with_all_ops();
            opts.enable_optimization(case.optimize);
            // Safety: the scratch files are not modified while mapped.
            unsafe { opts.load_mmap(&path) }.map_err(|e| e.to_string())
        }
        Loader::Mem => {
            let (opts, bytes) = prepared.unwrap_or_else(|| {
                let mut opts = ModelOptions::with_all_ops();
                opts.enable_optimization(case.optimize);
                mem_options(tree, case, &mut opts);
                (opts, case.model_bytes())
            });
            opts.load(bytes).map_err(|e| e.to_string())
        }
    })
}

/// Build what the in-memory load needs before the traced section starts.
pub fn prepare_mem(tree: &Tree, case: &Case) -> (ModelOptions, Vec<u8>) {
    let mut opts = ModelOptions::with_all_ops();
    opts.enable_optimization(case.optimize);
    mem_options(tree, case, &mut opts);
    (opts, case.model_bytes())
}

/// Load the case's model with `loader` and read every external constant back.
pub fn load_case(tree: &Tree, case: &Case, loader: Loader, model_file: &str) -> Outcome {
    let model = match load_only(tree, case, loader, model_file, None) {
        Err(p) => return Outcome { status: Status::Panic(p), outputs: vec![], consts: vec![] },
        Ok(Err(e)) => return Outcome { status: Status::Err(e), outputs: vec![], consts: vec![] },
        Ok(Ok(m)) => m,
    };
    let fetch = |name: String| -> Result<TensorOut, String> {
        let id = model.find_node(&name).ok_or_else(|| format!("node {} not found", name))?;
        let r = catch(|| model.run(vec![], &[id], None)).map_err(|p| format!("panic: {}", p))?;
        let mut vals = r.map_err(|e| format!("run error: {}", e))?;
        if vals.len() != 1 {
            return Err(format!("{} outputs", vals.len()));
        }
        value_out(vals.remove(0))
    };
    let n = case.tensors.len();
    let outputs = (0..n).map(|i| fetch(format!("y{}", i))).collect();
    let consts = (0..n).map(|i| fetch(format!("c{}", i))).collect();
    Outcome { status: Status::Ok, outputs, consts }
}

fn tensor_json(t: &Result<TensorOut, String>) -> Json {
    match t {
        Ok(t) => json!({"dtype": t.dtype, "shape": t.shape, "hex": to_hex(&t.bytes)}),
        Err(e) => json!({"error": e}),
    }
}

fn tensor_from_json(j: &Json) -> Result<TensorOut, String> {
    if let Some(e) = j.get("error") {
        return Err(e.as_str().unwrap_or("?").to_string());
    }
    let dtype = match j["dtype"].as_str().unwrap_or("") {
        "f32" => "f32",
        "i32" => "i32",
        "u8" => "u8",
        "i8" => "i8",
        _ => "?",
    };
    Ok(TensorOut {
        dtype,
        shape: j["shape"].as_array().map(|a| a.iter().map(|v| v.as_u64().unwrap_or(0) as usize).collect()).unwrap_or_default(),
        bytes: from_hex(j["hex"].as_str().unwrap_or("")),
    })
}

impl Outcome {
    pub fn to_string(&self) -> String {
        let (s, m) = match &self.status {
            Status::Ok => ("ok", String::new()),
            Status::Err(e) => ("err", e.clone()),
            Status::Panic(p) => ("panic", p.clone()),
        };
        json!({
            "status": s, "msg": m,
            "outputs": self.outputs.iter().map(tensor_json).collect::<Vec<_>>(),
            "consts": self.consts.iter().map(tensor_json).collect::<Vec<_>>(),
        })
        .to_string()
    }

    pub fn parse(s: &str) -> Option<Outcome> {
        let j: Json = serde_json::from_str(s).ok()?;
        let msg = j["msg"].as_str().unwrap_or("").to_string();
        let status = match j["status"].as_str()? {
            "ok" => Status::Ok,
            "err" => Status::Err(msg),
            "panic" => Status::Panic(msg),
            _ => return None,
        };
        let list = |k: &str| j[k].as_array().map(|a| a.iter().map(tensor_from_json).collect()).unwrap_or_default();
        Some(Outcome { status, outputs: list("outputs"), consts: list("consts") })
    }
}

// ------------------------------------------------------------------ fork runner

#[derive(Clone, Debug, PartialEq)]
pub enum End {
    /// Exited 0 after writing its result.
    Completed,
    Exit(i32),
    Signal(i32),
    Timeout,
}

pub struct ChildRes {
    pub end: End,
    pub result: Option<String>,
    pub stderr: String,
}

fn read_all(fd: i32, cap: usize) -> Vec<u8> {
    let mut all = Vec::new();
    let mut buf = vec![0u8; 65536];
    loop {
        let n = unsafe { libc::read(fd, buf.as_mut_ptr() as *mut _, buf.len()) };
        if n < 0 && unsafe { *libc::__errno_location() } == libc::EINTR {
            continue;
        }
        if n <= 0 {
            break;
        }
        if all.len() < cap {
            all.extend_from_slice(&buf[..n as usize]);
        }
    }
    all
}

/// Run `f` in a forked child. `f` gets an `emit` function; every emitted
/// string is one line on a pipe the parent collects (so results produced
/// before a crash survive it). The calling process must be single-threaded.
pub fn fork_stream(f: impl FnOnce(&mut dyn FnMut(&str))) -> (End, Vec<String>, String) {
    let mut rp = [0i32; 2];
    let mut ep = [0i32; 2];
    unsafe {
        assert_eq!(libc::pipe(rp.as_mut_ptr()), 0, "pipe");
        assert_eq!(libc::pipe(ep.as_mut_ptr()), 0, "pipe");
    }
    let pid = unsafe { libc::fork() };
    assert!(pid >= 0, "fork failed");
    if pid == 0 {
        unsafe {
            libc::close(rp[0]);
            libc::close(ep[0]);
            let fl = libc::fcntl(ep[1], libc::F_GETFL);
            libc::fcntl(ep[1], libc::F_SETFL, fl | libc::O_NONBLOCK);
            libc::dup2(ep[1], 2);
            libc::close(ep[1]);
        }
        let fd = rp[1];
        let mut emit = |s: &str| {
            let mut line = Vec::with_capacity(s.len() + 1);
            line.extend_from_slice(s.as_bytes());
            line.push(b'\n');
            let mut off = 0;
            while off < line.len() {
                let n = unsafe { libc::write(fd, line[off..].as_ptr() as *const _, line.len() - off) };
                if n <= 0 {
                    unsafe { libc::_exit(97) };
                }
                off += n as usize;
            }
        };
        f(&mut emit);
        unsafe { libc::_exit(0) };
    }
    unsafe {
        libc::close(rp[1]);
        libc::close(ep[1]);
    }
    let result = read_all(rp[0], 256 << 20);
    let stderr = read_all(ep[0], 1 << 20);
    unsafe {
        libc::close(rp[0]);
        libc::close(ep[0]);
    }
    let mut status = 0;
    loop {
        let r = unsafe { libc::waitpid(pid, &mut status, 0) };
        if r == pid {
            break;
        }
        if r < 0 && unsafe { *libc::__errno_location() } != libc::EINTR {
            break;
        }
    }
    let end = if libc::WIFEXITED(status) {
        match libc::WEXITSTATUS(status) {
            0 => End::Completed,
            c => End::Exit(c),
        }
    } else if libc::WIFSIGNALED(status) {
        match libc::WTERMSIG(status) {
            libc::SIGALRM => End::Timeout,
            s => End::Signal(s),
        }
    } else {
        End::Exit(-1)
    };
    let stderr = String::from_utf8_lossy(&stderr).into_owned();
    if stderr.contains("ERROR: AddressSanitizer") || stderr.contains("LeakSanitizer") || stderr.contains("ThreadSanitizer") {
        // sanitizer reports of a child must reach the driver
        eprintln!("{}", stderr);
    }
    // only complete lines count
    let text = String::from_utf8_lossy(&result).into_owned();
    let mut lines: Vec<String> = text.split('\n').map(|l| l.to_string()).collect();
    let last = lines.pop().unwrap_or_default();
    let _ = last; // an unterminated tail was being written when the child died
    (end, lines, stderr)
}

/// One execution in its own child.
pub fn fork_run(timeout_s: u32, f: impl FnOnce() -> String) -> ChildRes {
    let (end, mut lines, stderr) = fork_stream(|emit| {
        unsafe { libc::alarm(timeout_s) };
        let s = f();
        emit(&s);
    });
    let result = if lines.is_empty() { None } else { Some(lines.remove(0)) };
    ChildRes { end, result, stderr }
}

/// Name of an abnormal end for signatures.
pub fn end_class(r: &ChildRes) -> String {
    match &r.end {
        End::Completed => "completed".into(),
        End::Timeout => "hang".into(),
        End::Exit(c) if r.stderr.contains("memory allocation of") => format!("abort:alloc(exit {})", c),
        End::Signal(_) if r.stderr.contains("memory allocation of") => "abort:alloc".into(),
        End::Signal(_) if r.stderr.contains("capacity overflow") => "abort:capacity-overflow".into(),
        End::Signal(s) => match *s {
            libc::SIGSEGV => "SIGSEGV".into(),
            libc::SIGBUS => "SIGBUS".into(),
            libc::SIGABRT => "SIGABRT".into(),
            libc::SIGKILL => "SIGKILL".into(),
            s => format!("signal:{}", s),
        },
        End::Exit(c) => format!("exit:{}", c),
    }
}
