//! System-call monitor: a loading child is run under
//! `strace -f -xx -e trace=open,openat,openat2,creat`; the log is parsed and
//! every path opened successfully inside a case's section is checked against
//! the rule "<model dir>/<one acceptable component>". This observes the
//! operating-system boundary, not the implementation.
//!
//! The child (`extcheck c21-child <batch.json>`) runs its cases one after the
//! other (an aborting load ends it; the parent continues the rest in a new
//! traced child) and brackets each load with two marker opens of paths that
//! do not exist (`/VERIF-C21-MARK/<i>`, `/VERIF-C21-END/<i>/<status>`), which
//! show up in the log and delimit the section.
use crate::case::{Case, Loader};
use crate::exec;
use crate::oracle::{PathClass, classify_location};
use crate::tree::Tree;
use std::collections::BTreeMap;
use std::os::unix::ffi::OsStrExt;
use std::path::{Path, PathBuf};
use vcommon::{Json, json};

pub const MARK: &str = "/VERIF-C21-MARK/";
pub const ENDMARK: &str = "/VERIF-C21-END/";

#[derive(Clone, Debug)]
pub struct OpenEv {
    pub pid: u32,
    pub path: Vec<u8>,
    pub dirfd: String,
    pub flags: String,
    /// fd (>= 0) or -1 for failure.
    pub ret: i64,
}

fn unescape(s: &[u8]) -> Vec<u8> {
    // With -xx every byte is printed as \xHH; accept the C escapes as well.
    let mut out = Vec::with_capacity(s.len() / 4);
    let mut i = 0;
    while i < s.len() {
        if s[i] == b'\\' && i + 1 < s.len() {
            match s[i + 1] {
                b'x' if i + 3 < s.len() => {
                    let h = std::str::from_utf8(&s[i + 2..i + 4]).ok().and_then(|h| u8::from_str_radix(h, 16).ok());
                    if let Some(b) = h {
                        out.push(b);
                        i += 4;
                        continue;
                    }
                    out.push(b'\\');
                    i += 1;
                }
                b'n' => {
                    out.push(b'\n');
                    i += 2;
                }
                b't' => {
                    out.push(b'\t');
                    i += 2;
                }
                b'r' => {
                    out.push(b'\r');
                    i += 2;
                }
                b'"' => {
                    out.push(b'"');
                    i += 2;
                }
                b'\\' => {
                    out.push(b'\\');
                    i += 2;
                }
                c if c.is_ascii_digit() => {
                    let mut j = i + 1;
                    let mut v = 0u32;
                    while j < s.len() && j < i + 4 && (b'0'..=b'7').contains(&s[j]) {
                        v = v * 8 + (s[j] - b'0') as u32;
                        j += 1;
                    }
                    out.push(v as u8);
                    i = j;
                }
                _ => {
                    out.push(s[i]);
                    i += 1;
                }
            }
        } else {
            out.push(s[i]);
            i += 1;
        }
    }
    out
}

/// Parse an strace log. Returns the open events in order and the number of
/// open-family lines that could not be parsed (unfinished/resumed/truncated).
pub fn parse_log_samples(text: &[u8]) -> (Vec<OpenEv>, u64, Vec<String>) {
    let mut evs = Vec::new();
    let mut unparsed = 0u64;
    let mut samples: Vec<String> = Vec::new();
    for line in text.split(|b| *b == b'\n') {
        if line.is_empty() {
            continue;
        }
        // "<pid> <syscall>(...) = ret ..."; without -f there is no pid column.
        let mut rest = line;
        let mut pid = 0u32;
        if let Some(sp) = rest.iter().position(|b| *b == b' ') {
            if let Some(p) = std::str::from_utf8(&rest[..sp]).ok().and_then(|s| s.parse::<u32>().ok()) {
                pid = p;
                rest = &rest[sp + 1..];
                while rest.first() == Some(&b' ') {
                    rest = &rest[1..];
                }
            }
        }
        let name_end = rest.iter().position(|b| *b == b'(').unwrap_or(0);
        let name = &rest[..name_end];
        let is_open = matches!(name, b"open" | b"openat" | b"openat2" | b"creat");
        if !is_open {
            if rest.starts_with(b"<... open") || rest.starts_with(b"<... creat") {
                unparsed += 1;
            if samples.len() < 5 { let l = String::from_utf8_lossy(line); samples.push(format!("{}...{}", l.chars().take(200).collect::<String>(), l.chars().rev().take(120).collect::<Vec<_>>().into_iter().rev().collect::<String>())); }
            }
            continue;
        }
        let args = &rest[name_end + 1..];
        if args.ends_with(b"<unfinished ...>") {
            unparsed += 1;
            if samples.len() < 5 { let l = String::from_utf8_lossy(line); samples.push(format!("{}...{}", l.chars().take(200).collect::<String>(), l.chars().rev().take(120).collect::<Vec<_>>().into_iter().rev().collect::<String>())); }
            continue;
        }
        // dirfd (openat*): text before the first '"'
        let Some(q0) = args.iter().position(|b| *b == b'"') else {
            unparsed += 1;
            if samples.len() < 5 { let l = String::from_utf8_lossy(line); samples.push(format!("{}...{}", l.chars().take(200).collect::<String>(), l.chars().rev().take(120).collect::<Vec<_>>().into_iter().rev().collect::<String>())); }
            continue;
        };
        let dirfd = String::from_utf8_lossy(&args[..q0]).trim().trim_end_matches(',').to_string();
        // closing quote: first unescaped '"'
        let mut q1 = q0 + 1;
        let mut ok = false;
        while q1 < args.len() {
            if args[q1] == b'\\' {
                q1 += 2;
                continue;
            }
            if args[q1] == b'"' {
                ok = true;
                break;
            }
            q1 += 1;
        }
        if !ok {
            unparsed += 1;
            continue;
        }
        // strace cuts strings longer than PATH_MAX ("..."...): such a path cannot be opened
        // successfully; a failing call is recorded with the truncated path.
        let truncated = args[q1 + 1..].starts_with(b"...");
        if truncated && !line.windows(6).any(|w| w == b") = -1") {
            unparsed += 1;
            continue;
        }
        let path = unescape(&args[q0 + 1..q1]);
        let tail = &args[q1 + 1 + if truncated { 3 } else { 0 }..];
        let Some(eq) = tail.windows(3).rposition(|w| w == b" = ") else {
            unparsed += 1;
            if samples.len() < 5 { let l = String::from_utf8_lossy(line); samples.push(format!("{}...{}", l.chars().take(200).collect::<String>(), l.chars().rev().take(120).collect::<Vec<_>>().into_iter().rev().collect::<String>())); }
            continue;
        };
        let flags = String::from_utf8_lossy(&tail[..eq]).trim().trim_start_matches(',').trim().trim_end_matches(')').to_string();
        let ret_txt = String::from_utf8_lossy(&tail[eq + 3..]).to_string();
        let ret = ret_txt.split_whitespace().next().and_then(|t| t.parse::<i64>().ok());
        let Some(ret) = ret else {
            unparsed += 1;
            if samples.len() < 5 { let l = String::from_utf8_lossy(line); samples.push(format!("{}...{}", l.chars().take(200).collect::<String>(), l.chars().rev().take(120).collect::<Vec<_>>().into_iter().rev().collect::<String>())); }
            continue;
        };
        evs.push(OpenEv { pid, path, dirfd, flags, ret });
    }
    (evs, unparsed, samples)
}

/// One case's section of the log.
#[derive(Clone, Debug, Default)]
pub struct Section {
    pub opened: Vec<OpenEv>,
    pub failed: Vec<OpenEv>,
    /// Status text of the end marker ("ok", "err", "panic", or a self-test tag); None = the
    /// grandchild died before reaching it.
    pub end: Option<String>,
}

pub fn sections(evs: &[OpenEv]) -> BTreeMap<usize, Section> {
    let mut cur: BTreeMap<u32, usize> = BTreeMap::new(); // pid -> open section
    let mut out: BTreeMap<usize, Section> = BTreeMap::new();
    for ev in evs {
        if let Some(rest) = ev.path.strip_prefix(MARK.as_bytes()) {
            if let Some(i) = std::str::from_utf8(rest).ok().and_then(|s| s.parse::<usize>().ok()) {
                cur.insert(ev.pid, i);
                out.entry(i).or_default();
            }
            continue;
        }
        if let Some(rest) = ev.path.strip_prefix(ENDMARK.as_bytes()) {
            let s = String::from_utf8_lossy(rest).to_string();
            let mut it = s.splitn(2, '/');
            if let (Some(i), Some(st)) = (it.next().and_then(|i| i.parse::<usize>().ok()), it.next()) {
                out.entry(i).or_default().end = Some(st.to_string());
                cur.remove(&ev.pid);
            }
            continue;
        }
        if let Some(i) = cur.get(&ev.pid) {
            let sec = out.entry(*i).or_default();
            if ev.ret >= 0 {
                sec.opened.push(ev.clone());
            } else {
                sec.failed.push(ev.clone());
            }
        }
    }
    out
}

#[derive(Clone, Debug, PartialEq)]
pub enum OpenVerdict {
    ModelFile,
    /// Directly inside the model directory with an acceptable name.
    InDir { name: Vec<u8>, ambiguous: bool },
    /// A system pseudo-file (/proc, /sys, /dev) that no location of the case names.
    System,
    /// Anything else: the rule is broken.
    Escape(String),
}

fn bytes_path(b: &[u8]) -> PathBuf {
    PathBuf::from(std::ffi::OsStr::from_bytes(b))
}

/// Judge one successful open. `cwd` is the working directory of the child,
/// `mdir` the canonical model directory.
pub fn judge_open(ev: &OpenEv, cwd: &Path, mdir: &Path, model_file: Option<&str>, locations: &[Vec<u8>]) -> OpenVerdict {
    if !(ev.dirfd.is_empty() || ev.dirfd == "AT_FDCWD") {
        return OpenVerdict::Escape(format!("open relative to descriptor {}", ev.dirfd));
    }
    let mut raw = ev.path.clone();
    // Lexical clean-up of the tail: "x/" and "x/." name x itself.
    loop {
        if raw.len() > 1 && raw.ends_with(b"/") {
            raw.pop();
        } else if raw.ends_with(b"/.") && raw.len() > 2 {
            raw.truncate(raw.len() - 2);
        } else {
            break;
        }
    }
    let mut full = if raw.starts_with(b"/") { bytes_path(&raw) } else { cwd.join(bytes_path(&raw)) };
    if full.as_os_str().as_bytes().ends_with(b"/..") {
        // a trailing ".." can only be resolved by the file system
        if let Ok(c) = full.canonicalize() {
            full = c;
        }
    }
    let fb = full.as_os_str().as_bytes();
    let cut = fb.iter().rposition(|b| *b == b'/').unwrap_or(0);
    let (parent, name) = (&fb[..cut.max(1)], &fb[cut + 1..]);
    let system = [&b"/proc/"[..], b"/sys/", b"/dev/"].iter().any(|p| fb.starts_with(p));
    let named_by_case = locations.iter().any(|l| {
        l.as_slice() == ev.path.as_slice() || {
            let mut j = mdir.as_os_str().as_bytes().to_vec();
            j.push(b'/');
            j.extend_from_slice(l);
            j == fb
        }
    });
    if system && !named_by_case {
        return OpenVerdict::System;
    }
    if name.is_empty() || name == b"." || name == b".." {
        return OpenVerdict::Escape(format!("opened {:?}", String::from_utf8_lossy(fb)));
    }
    // Symbolic links in the *directory part* are resolved; the final component
    // is taken as named (policy: a link directly inside the model directory is
    // "a file directly inside the directory").
    let parent_canon = bytes_path(parent).canonicalize().unwrap_or_else(|_| bytes_path(parent));
    if parent_canon != mdir {
        return OpenVerdict::Escape(format!("opened {:?} (directory {:?} is not the model directory)", String::from_utf8_lossy(fb), parent_canon));
    }
    if let Some(mf) = model_file {
        if name == mf.as_bytes() {
            return OpenVerdict::ModelFile;
        }
    }
    match classify_location(name) {
        PathClass::Allowed { .. } => OpenVerdict::InDir { name: name.to_vec(), ambiguous: false },
        PathClass::Ambiguous(_) => OpenVerdict::InDir { name: name.to_vec(), ambiguous: true },
        PathClass::Disallowed(why) => OpenVerdict::Escape(format!("opened {:?} inside the model directory ({})", String::from_utf8_lossy(name), why)),
    }
}

/// An entry of a traced batch.
#[derive(Clone, Debug)]
pub enum BatchItem {
    Load { case: Case, loader: Loader },
    /// Positive/negative control: the harness itself opens this path.
    SelfOpen { path: String },
}

pub fn model_file_name(i: usize) -> String {
    format!("model_{}.onnx", i)
}

pub struct BatchRun {
    pub unparsed_samples: Vec<String>,
    pub sections: BTreeMap<usize, Section>,
    pub unparsed: u64,
    pub log_bytes: usize,
}

/// Write the batch's model files, run `strace <self> c21-child batch.json` and parse the log.
pub fn run_batch(tree: &Tree, items: &[BatchItem], tag: &str, timeout_s: u64) -> Result<BatchRun, String> {
    let batch_path = tree.root.join(format!("batch-{}.json", tag));
    let log_path = tree.root.join(format!("strace-{}.log", tag));
    let mut arr = Vec::new();
    for (i, it) in items.iter().enumerate() {
        match it {
            BatchItem::Load { case, loader } => {
                if *loader != Loader::Mem {
                    std::fs::write(tree.mdir.join(model_file_name(i)), case.model_bytes()).map_err(|e| format!("write model: {}", e))?;
                }
                arr.push(json!({"case": case.to_json(), "loader": loader.name()}));
            }
            BatchItem::SelfOpen { path } => arr.push(json!({"self_open": path})),
        }
    }
    std::fs::write(&batch_path, json!({"root": tree.root.to_string_lossy(), "items": arr}).to_string()).map_err(|e| format!("write batch: {}", e))?;
    let exe = std::env::current_exe().map_err(|e| format!("current_exe: {}", e))?;
    let mut cmd = std::process::Command::new("strace");
    cmd.arg("-f").arg("-qq").arg("-xx").arg("-s").arg("200000")
        .arg("-e").arg("trace=open,openat,openat2,creat").arg("-e").arg("signal=none")
        .arg("-o").arg(&log_path)
        .arg(&exe).arg("c21-child").arg(&batch_path)
        .current_dir(&tree.root)
        .stdin(std::process::Stdio::null())
        .stdout(std::process::Stdio::null())
        .stderr(std::process::Stdio::null());
    let mut child = cmd.spawn().map_err(|e| format!("cannot run strace: {}", e))?;
    let t0 = std::time::Instant::now();
    let mut timed_out = false;
    let status = loop {
        match child.try_wait() {
            Ok(Some(st)) => break format!("{:?}", st),
            Ok(None) => {
                if t0.elapsed().as_secs() > timeout_s {
                    let _ = child.kill();
                    let _ = child.wait();
                    timed_out = true;
                    break "watchdog".to_string();
                }
                std::thread::sleep(std::time::Duration::from_millis(3));
            }
            Err(e) => break format!("wait error {}", e),
        }
    };
    let text = std::fs::read(&log_path).map_err(|e| format!("no strace log ({}), strace status {}", e, status))?;
    let (evs, unparsed, unparsed_samples) = parse_log_samples(&text);
    let secs = sections(&evs);
    for (i, it) in items.iter().enumerate() {
        if let BatchItem::Load { loader, .. } = it {
            if *loader != Loader::Mem {
                let _ = std::fs::remove_file(tree.mdir.join(model_file_name(i)));
            }
        }
    }
    let _ = std::fs::remove_file(&batch_path);
    let _ = std::fs::remove_file(&log_path);
    if timed_out {
        return Err(format!("traced child exceeded {} s", timeout_s));
    }
    Ok(BatchRun { unparsed_samples, sections: secs, unparsed, log_bytes: text.len() })
}

fn marker(path: &str) {
    // A failing open of a path that does not exist: visible in the log.
    let c = std::ffi::CString::new(path).unwrap();
    unsafe {
        let fd = libc::open(c.as_ptr(), libc::O_RDONLY);
        if fd >= 0 {
            libc::close(fd);
        }
    }
}

/// Body of `extcheck c21-child <batch.json>` (runs under strace).
pub fn child_main(batch_file: &str) -> i32 {
    let text = match std::fs::read_to_string(batch_file) {
        Ok(t) => t,
        Err(_) => return 4,
    };
    let j: Json = match serde_json::from_str(&text) {
        Ok(j) => j,
        Err(_) => return 4,
    };
    let root = PathBuf::from(j["root"].as_str().unwrap_or("."));
    if std::env::set_current_dir(&root).is_err() {
        return 4;
    }
    let tree = Tree::spec(&root);
    let empty = Vec::new();
    for (i, it) in j["items"].as_array().unwrap_or(&empty).iter().enumerate() {
        unsafe { libc::alarm(60) };
        if let Some(p) = it.get("self_open").and_then(|p| p.as_str()) {
            marker(&format!("{}{}", MARK, i));
            let r = std::fs::File::open(p);
            marker(&format!("{}{}/self-{}", ENDMARK, i, if r.is_ok() { "opened" } else { "failed" }));
            continue;
        }
        let case = Case::from_json(&it["case"]);
        let loader = Loader::parse(it["loader"].as_str().unwrap_or("file")).unwrap_or(Loader::File);
        let prepared = if loader == Loader::Mem { Some(exec::prepare_mem(&tree, &case)) } else { None };
        marker(&format!("{}{}", MARK, i));
        let r = exec::load_only(&tree, &case, loader, &model_file_name(i), prepared);
        let st = match &r {
            Ok(Ok(_)) => "ok",
            Ok(Err(_)) => "err",
            Err(_) => "panic",
        };
        drop(r);
        marker(&format!("{}{}/{}", ENDMARK, i, st));
    }
    0
}
