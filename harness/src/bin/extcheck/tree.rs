//! The scratch directory tree the loaders are pointed at, and the registry the
//! oracle uses to know what every name directly inside the model directory
//! denotes. Every file is filled with a byte pattern that depends on the file
//! id and the position, so a returned tensor identifies the file and byte
//! range it was read from.
//!
//! ```text
//! <root>/                      cwd of every loading process
//!   secret.data  secret.txt    one level ABOVE the model directory
//!   mlink -> m                 the model directory through a symlink
//!   m/                         the model directory
//!     model*.onnx              written per case
//!     w.data w.onnx_data w.onnx_data_1 w.data_2 model.onnx.data   recognised
//!     notes.txt noext .data w.data. w.database W.DATA             other names
//!     sub/x.data sub/w.data  sub.data/inner.data                  one level down
//!     'C:\w.data' 'sub\x.data' '..\secret.data'                   backslash names
//!     unicode names, a 255-byte name, empty.data
//!     link.data -> ../secret.data   linkin.data -> w.data
//!     linkdir -> ..   loop.data -> loop.data   dangling.data -> nowhere.data
//! ```
use std::collections::HashMap;
use std::ffi::OsStr;
use std::os::unix::ffi::OsStrExt;
use std::path::{Path, PathBuf};

pub fn mix(z: u64) -> u64 {
    let mut z = z.wrapping_add(0x9e3779b97f4a7c15);
    z = (z ^ (z >> 30)).wrapping_mul(0xbf58476d1ce4e5b9);
    z = (z ^ (z >> 27)).wrapping_mul(0x94d049bb133111eb);
    z ^ (z >> 31)
}

/// Byte `i` of the file with id `k`.
pub fn pattern_byte(k: u32, i: u64) -> u8 {
    (mix(((k as u64) << 40) ^ i) >> 29) as u8
}

pub fn pattern(k: u32, len: usize) -> Vec<u8> {
    (0..len as u64).map(|i| pattern_byte(k, i)).collect()
}

/// What a name directly inside the model directory denotes.
#[derive(Clone, Debug, PartialEq)]
pub enum Entry {
    /// Regular file (or a symlink to a file inside the model directory).
    File { k: u32, size: usize },
    /// Symlink directly inside the model directory whose target is a file
    /// OUTSIDE the model directory.
    LinkOut { k: u32, size: usize },
    Dir,
    Loop,
    Dangling,
    Missing,
}

pub const LONG_NAME_LEN: usize = 250;

pub fn long_name() -> String {
    format!("{}.data", "L".repeat(LONG_NAME_LEN))
}

pub const UNI1: &str = "\u{fc}n\u{ef}-\u{3c9}.data"; // precomposed (NFC)
pub const UNI1_NFD: &str = "u\u{308}ni\u{308}-\u{3c9}.data"; // decomposed: a different byte string
pub const UNI2: &str = "\u{6570}\u{636e}.onnx_data";

pub struct Tree {
    pub root: PathBuf,
    pub mdir: PathBuf,
    /// (path relative to root, file id, size)
    pub files: Vec<(String, u32, usize)>,
    /// (link path relative to root, target string)
    pub links: Vec<(String, String)>,
    direct: HashMap<Vec<u8>, Entry>,
    mem: HashMap<String, (u32, usize)>,
}

impl Tree {
    /// Pure description of the tree below `root` (no file system access).
    pub fn spec(root: &Path) -> Tree {
        let long = format!("m/{}", long_name());
        let files: Vec<(String, u32, usize)> = vec![
            ("secret.data".into(), 1, 3001),
            ("secret.txt".into(), 2, 100),
            ("m/w.data".into(), 3, 20483),
            ("m/w.onnx_data".into(), 4, 4096),
            ("m/w.onnx_data_1".into(), 5, 8192),
            ("m/model.onnx.data".into(), 6, 1000),
            ("m/notes.txt".into(), 7, 2048),
            ("m/noext".into(), 8, 512),
            ("m/.data".into(), 9, 512),
            ("m/w.data.".into(), 10, 512),
            ("m/w.database".into(), 11, 640),
            ("m/W.DATA".into(), 12, 640),
            ("m/sub/x.data".into(), 13, 1536),
            ("m/sub/w.data".into(), 14, 20483),
            ("m/sub.data/inner.data".into(), 15, 256),
            ("m/C:\\w.data".into(), 16, 900),
            ("m/sub\\x.data".into(), 17, 900),
            ("m/..\\secret.data".into(), 18, 900),
            (format!("m/{}", UNI1), 19, 1200),
            (format!("m/{}", UNI2), 20, 1200),
            (long, 21, 700),
            ("m/empty.data".into(), 22, 0),
            ("m/w.data_2".into(), 23, 600),
        ];
        let links: Vec<(String, String)> = vec![
            ("mlink".into(), "m".into()),
            ("m/link.data".into(), "../secret.data".into()),
            ("m/linkin.data".into(), "w.data".into()),
            ("m/linkdir".into(), "..".into()),
            ("m/loop.data".into(), "loop.data".into()),
            ("m/dangling.data".into(), "nowhere.data".into()),
        ];
        let mut direct = HashMap::new();
        let mut mem = HashMap::new();
        let abs = |rel: &str| format!("{}/{}", root.display(), rel);
        for (rel, k, size) in &files {
            if let Some(name) = rel.strip_prefix("m/") {
                if !name.contains('/') {
                    direct.insert(name.as_bytes().to_vec(), Entry::File { k: *k, size: *size });
                } else {
                    let dir = name.split('/').next().unwrap();
                    direct.insert(dir.as_bytes().to_vec(), Entry::Dir);
                }
                mem.insert(name.to_string(), (*k, *size));
            } else {
                mem.insert(format!("../{}", rel), (*k, *size));
                // relative to the working directory of the loading process
                mem.insert(rel.to_string(), (*k, *size));
            }
            mem.insert(abs(rel), (*k, *size));
        }
        direct.insert(b"link.data".to_vec(), Entry::LinkOut { k: 1, size: 3001 });
        direct.insert(b"linkin.data".to_vec(), Entry::File { k: 3, size: 20483 });
        direct.insert(b"linkdir".to_vec(), Entry::Dir);
        direct.insert(b"loop.data".to_vec(), Entry::Loop);
        direct.insert(b"dangling.data".to_vec(), Entry::Dangling);
        mem.insert("link.data".into(), (1, 3001));
        mem.insert("linkin.data".into(), (3, 20483));
        mem.insert("linkdir/secret.data".into(), (1, 3001));
        mem.insert("m/w.data".into(), (3, 20483));
        Tree { root: root.to_path_buf(), mdir: root.join("m"), files, links, direct, mem }
    }

    /// Create the tree on disk. Returns notes about entries that could not be
    /// created (e.g. a file system refusing a name).
    pub fn create(&self) -> Vec<String> {
        let mut notes = Vec::new();
        std::fs::create_dir_all(self.root.join("m/sub")).expect("mkdir m/sub");
        std::fs::create_dir_all(self.root.join("m/sub.data")).expect("mkdir m/sub.data");
        for (rel, k, size) in &self.files {
            let p = self.root.join(OsStr::from_bytes(rel.as_bytes()));
            if let Err(e) = std::fs::write(&p, pattern(*k, *size)) {
                notes.push(format!("cannot create {:?}: {}", rel, e));
            }
        }
        for (rel, target) in &self.links {
            let p = self.root.join(rel);
            let _ = std::fs::remove_file(&p);
            if let Err(e) = std::os::unix::fs::symlink(target, &p) {
                notes.push(format!("cannot create symlink {:?}: {}", rel, e));
            }
        }
        notes
    }

    /// What `name` (a single component) denotes directly inside `m/`.
    pub fn lookup(&self, name: &[u8]) -> Entry {
        if name.starts_with(b"model") && name.ends_with(b".onnx") {
            // the model file(s) themselves; content not patterned
            return Entry::Missing;
        }
        self.direct.get(name).cloned().unwrap_or(Entry::Missing)
    }

    /// Content registered with the in-memory loader under exactly `key`.
    /// Standard keys mirror the tree (relative to the model directory, relative
    /// to the working directory, and absolute); any other key gets a synthetic
    /// buffer so that a missing location check is always exposed.
    pub fn mem_lookup(&self, key: &str) -> (u32, usize) {
        if let Some(v) = self.mem.get(key) {
            return *v;
        }
        let mut h = 0xcbf29ce484222325u64;
        for b in key.as_bytes() {
            h ^= *b as u64;
            h = h.wrapping_mul(0x100000001b3);
        }
        (0x4000_0000 | (h as u32 & 0x00ff_ffff), 777)
    }

    pub fn mem_standard_keys(&self) -> Vec<(String, u32, usize)> {
        let mut v: Vec<_> = self.mem.iter().map(|(k, (id, sz))| (k.clone(), *id, *sz)).collect();
        v.sort();
        v
    }

    /// Find which file (by id) contains `needle` as a contiguous slice.
    pub fn provenance(&self, needle: &[u8]) -> Option<(String, usize)> {
        if needle.len() < 6 {
            return None;
        }
        for (rel, k, size) in &self.files {
            if *size < needle.len() {
                continue;
            }
            let content = pattern(*k, *size);
            if let Some(pos) = content.windows(needle.len()).position(|w| w == needle) {
                return Some((rel.clone(), pos));
            }
        }
        None
    }

    /// Path string handed to the loader for a model file named `file`.
    pub fn model_path(&self, variant: &str, file: &str) -> String {
        match variant {
            "rel" => format!("m/{}", file),
            "dotdot" => format!("m/../m/{}", file),
            "symdir" => format!("mlink/{}", file),
            _ => format!("{}/m/{}", self.root.display(), file),
        }
    }
}

/// Create a fresh scratch root below VERIF_TMP, else below the directory of the
/// result file (the driver's per-run temp dir, which it removes afterwards),
/// else below /verif/tmp.
pub fn fresh_root(tag: &str, out: Option<&str>) -> PathBuf {
    let base = std::env::var("VERIF_TMP")
        .ok()
        .filter(|s| !s.is_empty())
        .map(PathBuf::from)
        .or_else(|| out.and_then(|o| Path::new(o).parent().map(|p| p.to_path_buf())).filter(|p| p.is_dir()))
        .unwrap_or_else(|| PathBuf::from("/verif/tmp"));
    std::fs::create_dir_all(&base).expect("create tmp base");
    let base = base.canonicalize().expect("canonical tmp base");
    for attempt in 0..1000u32 {
        let p = base.join(format!("extcheck-c21-{}-{}-{}", std::process::id(), tag, attempt));
        match std::fs::create_dir(&p) {
            Ok(()) => return p,
            Err(e) if e.kind() == std::io::ErrorKind::AlreadyExists => continue,
            Err(e) => panic!("cannot create scratch dir {:?}: {}", p, e),
        }
    }
    panic!("no free scratch dir name");
}
