//! Case generators: hand-written location list, a location grammar over
//! path components and separators, mutations of valid names, random strings;
//! offset/length classes including overflowing sums; dtype/shape choices
//! whose byte size equals / is less than / exceeds the named range.
use crate::case::{Case, FLOAT16, TensorSpec, elem_size};
use crate::oracle::{PathClass, classify_location};
use crate::tree::{Entry, Tree, UNI1, UNI1_NFD, UNI2, long_name};
use vcommon::Rng;
use vcommon::onnxpb::{BOOL, DOUBLE, FLOAT, INT8, INT32, INT64, UINT8};

const P31: u64 = 1 << 31;
const P32: u64 = 1 << 32;
const P63: u64 = 1 << 63;

fn b(s: &str) -> Vec<u8> {
    s.as_bytes().to_vec()
}

/// Names directly inside the model directory that a loader may accept.
pub fn accepted_names() -> Vec<Vec<u8>> {
    vec![
        b("w.data"), b("w.onnx_data"), b("w.onnx_data_1"), b("w.data_2"), b("model.onnx.data"),
        b("C:\\w.data"), b("sub\\x.data"), b("..\\secret.data"), b(UNI1), b(UNI2), b(&long_name()),
        b("link.data"), b("linkin.data"), b("empty.data"), b("w.database"),
    ]
}

/// The hand-written location list (every run executes all of it).
pub fn fixed_locations(tree: &Tree) -> Vec<Vec<u8>> {
    let root = tree.root.to_string_lossy().to_string();
    let mut v: Vec<Vec<u8>> = [
        "", ".", "..", "/", "//", "\\", "w.data", "./w.data", "w.data/", "w.data/.", "w.data//", "w.data/./", "w.data/..",
        "./", "../", "../secret.data", "..\\secret.data", "../m/w.data", "sub/x.data", "sub\\x.data", "sub/../w.data",
        "sub/w.data", "sub/", "sub", "sub.data", "sub.data/", "sub.data/inner.data", "sub.data/.", "inner.data", "notes.txt", "noext",
        ".data", "w.data.", "w.database", "W.DATA", "w.DATA", "w.onnx_data", "w.onnx_data_1", "w.data_2", "model.onnx.data",
        "model.onnx", "model_0.onnx", "C:", "C:\\w.data", "C:/w.data", "C:w.data", "c:\\w.data", "\\\\?\\C:\\w.data",
        "\\\\server\\share\\w.data", "\\w.data", "/w.data", "//w.data", "/etc/passwd", "/etc/hostname", "/proc/self/environ",
        "/proc/self/cmdline", "/dev/zero", "/dev/null", "file:///etc/passwd", "file:w.data", "~/w.data", "~", "%2e%2e/secret.data",
        "%2e%2e%2fsecret.data", "..%2fsecret.data", "....//secret.data", "...", "..data", "...data", "..data/..", "link.data",
        "linkin.data", "linkdir", "linkdir/secret.data", "linkdir/m/w.data", "loop.data", "dangling.data", "empty.data",
        "missing.data", "nowhere.data", UNI1, UNI1_NFD, UNI2, "\u{ff57}.data", "w.data\0", "w\0.data", "w.data\0.txt",
        "notes.txt\0.data", "../secret.data\0.data", "../secret.data\0w.data", "w.data\n", " w.data", "w.data ", "w.data\t",
        "secret.data", "secret.txt", "m/w.data", "./m/w.data", "mlink/w.data", "\u{2025}/secret.data",
        "\u{ff0e}\u{ff0e}/secret.data", "..\u{ff0f}secret.data", "..\u{2215}secret.data", "sub\u{2215}x.data",
        "sub\u{ff0f}x.data", "w.data:stream", "w.data::$DATA", "CON", "NUL.data", "w.data/../../secret.data",
        "sub/../../secret.data", "./../secret.data", "sub/./x.data", "sub//x.data", "sub\\..\\w.data", "..\\..\\secret.data",
        "..", "../", "../..", "../../../../../../../../../../etc/passwd",
    ]
    .iter()
    .map(|s| b(s))
    .collect();
    v.push(b(&long_name()));
    v.push(b(&format!("{}.data", "L".repeat(255))));
    v.push(b(&format!("{}.data", "a".repeat(5000))));
    v.push(b(&format!("{}x.data", "sub/".repeat(1200))));
    v.push(b(&format!("w.data/{}", "./".repeat(100))));
    v.push(b(&format!("{}/m/w.data", root)));
    v.push(b(&format!("{}/secret.data", root)));
    v.push(b(&format!("{}/m/../secret.data", root)));
    v.push(b(&format!("{}/m/sub/x.data", root)));
    v.push(b(&format!("/{}/m/w.data", root)));
    v.push(b(&format!("file://{}/m/w.data", root)));
    // not UTF-8
    v.push(b"w\xff.data".to_vec());
    v.push(b"..\xc0\xafsecret.data".to_vec());
    v.push(b"\xc0\xae\xc0\xae/secret.data".to_vec());
    v
}

fn components(tree: &Tree) -> Vec<Vec<u8>> {
    let root = tree.root.to_string_lossy().to_string();
    let mut v: Vec<Vec<u8>> = [
        "", ".", "..", "w.data", "sub", "x.data", "notes.txt", ".data", "w.data.", "C:", "C:\\w.data", "./w.data", "sub/../w.data",
        "//", "secret.data", "m", "link.data", "linkdir", "w.onnx_data_1", "w.onnx_data", "model.onnx", "noext", "w.database",
        "sub.data", "inner.data", "empty.data", "mlink", "...", "w\0.data", "\0", " ", "~", UNI1, UNI2, "\u{2025}", "etc", "passwd",
    ]
    .iter()
    .map(|s| b(s))
    .collect();
    v.push(b(&long_name()));
    v.push(b(&"z".repeat(300)));
    v.push(b(&format!("{}/m/w.data", root)));
    v.push(b(&format!("{}/m", root)));
    v.push(b(&root));
    v
}

fn grammar_location(tree: &Tree, rng: &mut Rng) -> Vec<u8> {
    let comps = components(tree);
    let n = match rng.below(10) {
        0..=2 => 1,
        3..=6 => 2,
        7..=8 => 3,
        _ => rng.urange(4, 6),
    };
    let mut out: Vec<u8> = Vec::new();
    match rng.below(12) {
        0 => out.extend_from_slice(b"/"),
        1 => out.extend_from_slice(b"\\"),
        2 => out.extend_from_slice(b"//"),
        3 => out.extend_from_slice(b"C:\\"),
        4 => out.extend_from_slice(b"./"),
        5 => out.extend_from_slice(b"\\\\?\\"),
        _ => {}
    }
    for i in 0..n {
        if i > 0 {
            out.extend_from_slice(match rng.below(8) {
                0..=4 => b"/",
                5..=6 => b"\\",
                _ => b"//",
            });
        }
        let c: &Vec<u8> = rng.choose(&comps[..]);
        out.extend_from_slice(c);
    }
    match rng.below(10) {
        0 => out.extend_from_slice(b"/"),
        1 => out.extend_from_slice(b"\\"),
        2 => out.extend_from_slice(b"/."),
        _ => {}
    }
    out
}

fn mutate_location(rng: &mut Rng) -> Vec<u8> {
    let names = accepted_names();
    let mut s = rng.choose(&names).clone();
    let inserts: [&[u8]; 18] = [
        b"\0", b"/", b"\\", b".", b"..", b" ", b"\n", b"\xc3\xa9", b"\xe2\x80\xae", b"%2f", b":", b"*", b"?", b"\x7f", b"\x01", b"/../", b"\xff", b"~",
    ];
    for _ in 0..rng.urange(1, 2) {
        match rng.below(7) {
            0 | 1 => {
                let pos = rng.below(s.len() + 1);
                let ins = rng.choose(&inserts);
                s.splice(pos..pos, ins.iter().copied());
            }
            2 if !s.is_empty() => {
                let pos = rng.below(s.len());
                s.remove(pos);
            }
            3 => {
                for c in s.iter_mut() {
                    if rng.chance(1, 3) {
                        *c = if c.is_ascii_lowercase() { c.to_ascii_uppercase() } else { c.to_ascii_lowercase() };
                    }
                }
            }
            4 => { let suf: [&[u8]; 9] = [b"x", b".txt", b".", b"/", b"_", b"_9", b"~", b".bak", b"\0.txt"]; let x: &&[u8] = rng.choose(&suf[..]); s.extend_from_slice(x) },
            5 => {
                // change the extension
                if let Some(dot) = s.iter().rposition(|c| *c == b'.') {
                    s.truncate(dot + 1);
                    let exts: [&[u8]; 13] = [b"dat", b"dat_a", b"onnx", b"onnx_dat", b"DATA", b"data_", b"datax", b"bin", b"", b"onnx_data_", b"onnx_data_77", b"data.1", b"data-3"];
                    let x: &&[u8] = rng.choose(&exts[..]);
                    s.extend_from_slice(x);
                }
            }
            _ => {
                let pres: [&[u8]; 9] = [b"./", b"../", b"sub/", b"/", b"\\", b"C:\\", b"..\\", b"m/", b"linkdir/"];
                let x: &&[u8] = rng.choose(&pres[..]);
                let mut pre = x.to_vec();
                pre.extend_from_slice(&s);
                s = pre;
            }
        }
    }
    s
}

fn random_location(rng: &mut Rng) -> Vec<u8> {
    let n = rng.urange(0, 24);
    let alphabet: &[u8] = b"abw./\\.-_: ~%data\0onx";
    let mut s: Vec<u8> = (0..n)
        .map(|_| if rng.chance(1, 10) { rng.next_u32() as u8 } else { *rng.choose(alphabet) })
        .collect();
    if rng.bool() {
        s.extend_from_slice(b".data");
    }
    s
}

/// Size of the file a location would denote if it were resolved naively
/// (used to pick ranges that WOULD succeed if a check were missing).
fn naive_size(tree: &Tree, loc: &[u8]) -> u64 {
    let s = String::from_utf8_lossy(loc);
    let last = s.rsplit(['/', '\\']).next().unwrap_or("");
    for (rel, _, size) in &tree.files {
        if rel.rsplit('/').next() == Some(last) && *size > 0 {
            return *size as u64;
        }
    }
    match tree.lookup(loc) {
        Entry::File { size, .. } | Entry::LinkOut { size, .. } => size as u64,
        _ => 777,
    }
}

pub fn offset_candidates(size: u64) -> Vec<Option<String>> {
    let mut v: Vec<Option<String>> = vec![None];
    for n in [0, 1, 4, 8, 4096, 8192, size.saturating_sub(1), size, size + 1, size + 4096, P31, P32, P32 + 8, P63 - 1, P63, u64::MAX - 7, u64::MAX] {
        v.push(Some(n.to_string()));
    }
    for s in ["18446744073709551616", "-1", "-8", "-0", "+4", "0x10", "1e3", "", " 4", "4 ", "\u{ff14}", "abc", "4.0", "00000000000000000000008", "99999999999999999999999999999999"] {
        v.push(Some(s.to_string()));
    }
    v
}

pub fn length_candidates(size: u64, off: u64) -> Vec<Option<String>> {
    let room = size.saturating_sub(off);
    let mut v: Vec<Option<String>> = vec![None];
    for n in [
        0, 1, 4, 16, 8192, 8193, room.saturating_sub(1), room, room + 1, size, size + 1, P31, P32, 1 << 40, 1 << 62, P63 - 1, P63, u64::MAX,
        // sums that wrap u64: off + len == 2^64 (+ k)
        0u64.wrapping_sub(off), 0u64.wrapping_sub(off).wrapping_add(4), 0u64.wrapping_sub(off).wrapping_add(room),
    ] {
        v.push(Some(n.to_string()));
    }
    for s in ["18446744073709551616", "-1", "-16", "+16", "0x10", "", "abc", "16 ", "1e1"] {
        v.push(Some(s.to_string()));
    }
    v
}

fn parse_u64(s: &Option<String>) -> Option<u64> {
    s.as_ref().and_then(|s| s.parse::<u64>().ok())
}

const DTYPES: [i64; 8] = [FLOAT, INT32, UINT8, INT8, INT64, DOUBLE, BOOL, FLOAT16];

/// dims for `len` bytes of `dtype`: mode 0 equal, 1 less, 2 more, 3 odd shapes.
fn dims_for(rng: &mut Rng, dtype: i64, len: Option<u64>, mode: usize) -> Vec<i64> {
    let es = elem_size(dtype) as u64;
    let n = len.map(|l| l / es).unwrap_or(4);
    let n_i = n.min(i64::MAX as u64) as i64;
    match mode {
        0 => {
            // a factorisation
            if n_i > 0 && n_i % 2 == 0 && rng.bool() {
                vec![2, n_i / 2]
            } else if n_i > 0 && n_i % 3 == 0 && rng.bool() {
                vec![n_i / 3, 1, 3]
            } else {
                vec![n_i]
            }
        }
        1 => vec![(n_i - 1).max(0)],
        2 => vec![n_i.saturating_add(*rng.choose(&[1, 2, 1024]))],
        _ => rng
            .choose(&[vec![], vec![0], vec![-1], vec![n_i, 0], vec![1 << 31], vec![1 << 32, 1 << 32], vec![i64::MAX], vec![i64::MIN], vec![n_i, -1, -1]])
            .clone(),
    }
}

fn simple_tensor(loc: Vec<u8>, off: u64, len: u64) -> TensorSpec {
    TensorSpec { dtype: UINT8, dims: vec![len as i64], location: Some(loc), offset: Some(off.to_string()), length: Some(len.to_string()), extra: vec![] }
}

/// Deterministic part of the workload.
pub fn fixed_cases(tree: &Tree) -> Vec<Case> {
    let mut out = Vec::new();
    let variants = ["abs", "rel", "dotdot", "symdir"];
    // 1. every hand-written location with a range that would succeed if the
    //    location check were missing, as u8 and as f32.
    for (i, loc) in fixed_locations(tree).into_iter().enumerate() {
        let size = naive_size(tree, &loc);
        let empty = loc == b"empty.data";
        let l1 = if empty { 0 } else { 16.min(size) };
        out.push(Case { tensors: vec![simple_tensor(loc.clone(), 0, l1)], optimize: false, model_path: variants[i % 4].into(), family: "fixed-loc".into() });
        let l2 = if empty { 0 } else { 32.min(size.saturating_sub(8)) / 4 * 4 };
        out.push(Case {
            tensors: vec![TensorSpec { dtype: FLOAT, dims: vec![(l2 / 4) as i64], location: Some(loc), offset: Some(if empty { "0".into() } else { "8".into() }), length: Some(l2.to_string()), extra: vec![] }],
            optimize: true,
            model_path: variants[(i + 1) % 4].into(),
            family: "fixed-loc".into(),
        });
    }
    // Empty ranges of multi-byte element types, un-optimised so that the constant the
    // loader built is the one the alignment monitor sees (an empty read yields a
    // buffer whose dangling pointer is only byte-aligned).
    for (dtype, loc, off) in [(FLOAT, "empty.data", 0u64), (INT32, "empty.data", 0), (FLOAT, "w.data", 20483), (INT32, "w.data", 16), (FLOAT, "w.data", 0)] {
        for optimize in [false, true] {
            out.push(Case {
                tensors: vec![TensorSpec { dtype, dims: vec![0], location: Some(loc.as_bytes().to_vec()), offset: Some(off.to_string()), length: Some("0".into()), extra: vec![] }],
                optimize,
                model_path: "abs".into(),
                family: "fixed-empty".into(),
            });
        }
    }
    // location key absent
    out.push(Case {
        tensors: vec![TensorSpec { dtype: UINT8, dims: vec![4], location: None, offset: Some("0".into()), length: Some("4".into()), extra: vec![] }],
        optimize: false,
        model_path: "abs".into(),
        family: "fixed-loc".into(),
    });
    // 2. the offset x length grid on w.data (20483 bytes) and on the 8192-byte file.
    for (name, size) in [("w.data", 20483u64), ("w.onnx_data_1", 8192u64)] {
        for (oi, off) in offset_candidates(size).into_iter().enumerate() {
            // the second file gets a thinner grid
            if name != "w.data" && !matches!(oi, 0 | 1 | 5 | 7 | 8 | 9 | 12 | 17 | 19) {
                continue;
            }
            let off_v = parse_u64(&off).unwrap_or(0);
            for len in length_candidates(size, off_v) {
                let len_v = parse_u64(&len);
                // huge lengths are paired with a few offsets only (each one costs a process if the loader aborts)
                if len_v.map(|l| l >= 1 << 40).unwrap_or(false) && off_v != 0 && off_v < size && off_v != 4096 {
                    continue;
                }
                let dims = match len_v {
                    Some(l) if l <= i64::MAX as u64 => vec![l as i64],
                    _ => vec![1],
                };
                out.push(Case {
                    tensors: vec![TensorSpec { dtype: UINT8, dims, location: Some(b(name)), offset: off.clone(), length: len, extra: vec![] }],
                    optimize: false,
                    model_path: "abs".into(),
                    family: "fixed-grid".into(),
                });
            }
        }
    }
    // 2b. a plain load of w.data followed by another spelling of the same file: exercises the
    //     loaders' per-file caches (keyed by path), which must not bypass the location check.
    for (i, v) in ["w.data/", "w.data/.", "w.data//", "./w.data", "sub/../w.data", "W.DATA", "w.data\0", "w.data/..", "../m/w.data", "m/w.data", "w.data\\", "linkin.data", "w.data"].iter().enumerate() {
        out.push(Case {
            tensors: vec![simple_tensor(b("w.data"), 0, 16), simple_tensor(b(v), 16, 16)],
            optimize: i % 2 == 1,
            model_path: variants[i % 4].into(),
            family: "fixed-pair".into(),
        });
    }
    // 3. every accepted name x dtype with an aligned in-range slice, whole file, and one byte too many.
    for name in accepted_names() {
        let size = naive_size_direct(tree, &name);
        for (di, dtype) in DTYPES.iter().enumerate() {
            let es = elem_size(*dtype) as u64;
            let whole = size / es * es;
            for (off, len) in [(0, whole), (8.min(whole), (whole.saturating_sub(8)).min(40) / es * es), (0, whole + es)] {
                out.push(Case {
                    tensors: vec![TensorSpec { dtype: *dtype, dims: vec![(len / es) as i64], location: Some(name.clone()), offset: Some(off.to_string()), length: Some(len.to_string()), extra: vec![] }],
                    optimize: di % 2 == 0,
                    model_path: variants[di % 4].into(),
                    family: "fixed-dtype".into(),
                });
            }
        }
    }
    out
}

fn naive_size_direct(tree: &Tree, name: &[u8]) -> u64 {
    match tree.lookup(name) {
        Entry::File { size, .. } | Entry::LinkOut { size, .. } => size as u64,
        _ => 0,
    }
}

fn random_tensor(tree: &Tree, rng: &mut Rng, kind: usize) -> TensorSpec {
    // kind 0: adversarial location, benign range; 1: accepted name, adversarial range;
    // 2: accepted name, benign range, shape/dtype variety
    let loc: Vec<u8> = match kind {
        0 => match rng.below(10) {
            0..=3 => grammar_location(tree, rng),
            4..=6 => mutate_location(rng),
            7 => rng.choose(&fixed_locations(tree)).clone(),
            _ => random_location(rng),
        },
        _ => rng.choose(&accepted_names()).clone(),
    };
    let size = match classify_location(&loc) {
        PathClass::Disallowed(_) => naive_size(tree, &loc),
        _ => match tree.lookup(&loc) {
            Entry::File { size, .. } | Entry::LinkOut { size, .. } => size as u64,
            _ => naive_size(tree, &loc),
        },
    };
    let dtype = if rng.chance(2, 3) { *rng.choose(&DTYPES[..4]) } else { *rng.choose(&DTYPES) };
    let es = elem_size(dtype) as u64;
    let (offset, length, mode) = if kind == 1 {
        let offs = offset_candidates(size);
        let off = rng.choose(&offs).clone();
        let lens = length_candidates(size, parse_u64(&off).unwrap_or(0));
        let len = rng.choose(&lens).clone();
        (off, len, if rng.chance(3, 4) { 0 } else { rng.below(4) })
    } else {
        // benign: aligned offset and a length that fits
        let max_elems = (size / es).min(6000);
        let n = if max_elems == 0 { 0 } else if rng.chance(1, 8) { max_elems } else { rng.urange(0, max_elems.min(64) as usize) as u64 };
        let room = size - n * es;
        let mut off = if room == 0 { 0 } else { rng.urange(0, room as usize) as u64 };
        if rng.chance(5, 6) {
            off = off / 8 * 8;
        }
        let mode = if kind == 2 { rng.below(4) } else if rng.chance(9, 10) { 0 } else { rng.below(4) };
        let mut len = n * es;
        if kind == 2 && rng.chance(1, 6) {
            len += rng.urange(1, es as usize * 2) as u64; // not a multiple of the element size / mismatching
        }
        (Some(off.to_string()), Some(len.to_string()), mode)
    };
    let dims = dims_for(rng, dtype, parse_u64(&length), mode);
    let extra = match rng.below(12) {
        0 => vec![("checksum".to_string(), "da39a3ee5e6b4b0d3255bfef95601890afd80709".to_string())],
        1 => vec![("foo".to_string(), "bar".to_string())],
        _ => vec![],
    };
    TensorSpec { dtype, dims, location: Some(loc), offset, length, extra }
}

pub fn random_case(tree: &Tree, rng: &mut Rng) -> Case {
    let variants = ["abs", "abs", "rel", "dotdot", "symdir"];
    let r = rng.below(100);
    let (family, tensors) = if r < 45 {
        ("rand-location", vec![random_tensor(tree, rng, 0)])
    } else if r < 78 {
        ("rand-range", vec![random_tensor(tree, rng, 1)])
    } else if r < 90 {
        ("rand-shape", vec![random_tensor(tree, rng, 2)])
    } else {
        let n = rng.urange(2, 4);
        let mut ts = Vec::new();
        for _ in 0..n {
            let kind = match rng.below(10) {
                0 => 0,
                1 | 2 => 1,
                _ => 2,
            };
            let mut t = random_tensor(tree, rng, kind);
            if kind == 2 && rng.chance(2, 3) {
                // keep it loadable so that later tensors are reached
                let es = elem_size(t.dtype) as u64;
                if let Some(l) = parse_u64(&t.length) {
                    let l = l / es * es;
                    t.length = Some(l.to_string());
                    t.dims = vec![(l / es) as i64];
                }
            }
            ts.push(t);
        }
        ("rand-multi", ts)
    };
    Case { tensors, optimize: rng.bool(), model_path: rng.choose(&variants).to_string(), family: family.into() }
}

#[allow(dead_code)]
pub fn all_dtypes() -> &'static [i64] {
    &DTYPES
}

#[allow(dead_code)]
pub const F16: i64 = FLOAT16;
