//! `extcheck`: runtime monitors for external tensor data loading (property C21).
//!
//!     extcheck c21 --seed N --tier quick|thorough --out FILE [--shard i/n] [--replay FILE] [--pinned a,b] [--n CASES]
//!     extcheck c21-child <batch.json>     (internal: runs under strace)
mod c21;
mod case;
mod exec;
mod cgen;
mod oracle;
mod strace;
mod tree;

use vcommon::{Args, run_main};

fn real_main() {
    let raw: Vec<String> = std::env::args().collect();
    if raw.get(1).map(|s| s.as_str()) == Some("c21-child") {
        let code = strace::child_main(raw.get(2).map(|s| s.as_str()).unwrap_or(""));
        std::process::exit(code);
    }
    let mut args = Args::parse();
    match args.cmd.as_str() {
        "c21" => c21::run(&mut args),
        "noop" => {}
        "bench" => c21::bench(&args),
        other => {
            eprintln!("extcheck: unknown sub-command {:?} (expected c21)", other);
            std::process::exit(3);
        }
    }
}

fn main() {
    run_main(real_main);
}
