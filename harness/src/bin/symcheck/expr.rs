//! Harness-side expression tree, conversion to / from `SymExpr`, prefix
//! printing / parsing and the reference evaluators.
//!
//! Nothing in here calls `SymExpr::eval`, `simplify`, `range` or
//! `is_positive`: this file is the oracle side.
use rten_shape_inference::SymExpr;

#[derive(Clone, Copy, PartialEq, Eq, Hash, Debug, PartialOrd, Ord)]
pub enum Op {
    Add,
    Sub,
    Mul,
    Div,
    DivCeil,
    Max,
    Min,
    Broadcast,
}

pub const OPS: [Op; 8] = [Op::Add, Op::Sub, Op::Mul, Op::Div, Op::DivCeil, Op::Max, Op::Min, Op::Broadcast];

impl Op {
    pub fn name(self) -> &'static str {
        match self {
            Op::Add => "add",
            Op::Sub => "sub",
            Op::Mul => "mul",
            Op::Div => "div",
            Op::DivCeil => "divceil",
            Op::Max => "max",
            Op::Min => "min",
            Op::Broadcast => "broadcast",
        }
    }

    pub fn index(self) -> usize {
        self as usize
    }

    pub fn from_name(s: &str) -> Option<Op> {
        OPS.iter().copied().find(|o| o.name() == s)
    }
}

/// Symbols: 0 = x (declared positive, i.e. >= 0), 1 = y (positive),
/// 2 = z (no assumption).
pub const SYM_NAMES: [&str; 3] = ["x", "y", "z"];
pub const SYM_POSITIVE: [bool; 3] = [true, true, false];

#[derive(Clone, PartialEq, Eq, Hash, Debug)]
pub enum E {
    C(i32),
    S(u8),
    Neg(Box<E>),
    Bin(Op, Box<E>, Box<E>),
}

impl E {
    pub fn bin(op: Op, a: E, b: E) -> E {
        E::Bin(op, Box::new(a), Box::new(b))
    }

    pub fn neg(a: E) -> E {
        E::Neg(Box::new(a))
    }

    pub fn depth(&self) -> usize {
        match self {
            E::C(_) | E::S(_) => 0,
            E::Neg(a) => 1 + a.depth(),
            E::Bin(_, a, b) => 1 + a.depth().max(b.depth()),
        }
    }

    pub fn size(&self) -> usize {
        match self {
            E::C(_) | E::S(_) => 1,
            E::Neg(a) => 1 + a.size(),
            E::Bin(_, a, b) => 1 + a.size() + b.size(),
        }
    }

    /// Bit mask of the symbols used.
    pub fn sym_mask(&self) -> u8 {
        match self {
            E::C(_) => 0,
            E::S(i) => 1 << *i,
            E::Neg(a) => a.sym_mask(),
            E::Bin(_, a, b) => a.sym_mask() | b.sym_mask(),
        }
    }

    /// 0 = constant, 1 = symbol, 2 = neg, 3.. = binary operators.
    pub fn kind_index(&self) -> usize {
        match self {
            E::C(_) => 0,
            E::S(_) => 1,
            E::Neg(_) => 2,
            E::Bin(op, ..) => 3 + op.index(),
        }
    }

    pub fn kind_name(i: usize) -> &'static str {
        match i {
            0 => "const",
            1 => "sym",
            2 => "neg",
            n => OPS[n - 3].name(),
        }
    }

    /// Visit every node (pre-order).
    pub fn visit(&self, f: &mut impl FnMut(&E)) {
        f(self);
        match self {
            E::C(_) | E::S(_) => {}
            E::Neg(a) => a.visit(f),
            E::Bin(_, a, b) => {
                a.visit(f);
                b.visit(f);
            }
        }
    }

    /// The sub-expression at pre-order position `pos`.
    pub fn node_at(&self, pos: usize) -> Option<&E> {
        fn go<'a>(e: &'a E, pos: &mut usize) -> Option<&'a E> {
            if *pos == 0 {
                return Some(e);
            }
            *pos -= 1;
            match e {
                E::C(_) | E::S(_) => None,
                E::Neg(a) => go(a, pos),
                E::Bin(_, a, b) => go(a, pos).or_else(|| go(b, pos)),
            }
        }
        let mut p = pos;
        go(self, &mut p)
    }

    /// A copy with the sub-expression at pre-order position `pos` replaced.
    pub fn replace_at(&self, pos: usize, with: &E) -> E {
        fn go(e: &E, pos: &mut isize, with: &E) -> E {
            if *pos == 0 {
                *pos = -1;
                return with.clone();
            }
            if *pos > 0 {
                *pos -= 1;
            }
            match e {
                E::C(_) | E::S(_) => e.clone(),
                E::Neg(a) => E::neg(go(a, pos, with)),
                E::Bin(op, a, b) => {
                    let na = go(a, pos, with);
                    let nb = go(b, pos, with);
                    E::bin(*op, na, nb)
                }
            }
        }
        let mut p = pos as isize;
        go(self, &mut p, with)
    }

    /// Prefix form with the harness's symbol names, e.g. `(add x (neg 3))`.
    pub fn prefix(&self) -> String {
        let mut s = String::new();
        self.write_prefix(&mut s, &mut |i| SYM_NAMES[i as usize].to_string());
        s
    }

    /// Prefix form with symbols renamed in order of first appearance:
    /// `p<k>` for a positive symbol, `u<k>` for an unrestricted one.
    pub fn canonical(&self) -> String {
        let mut order: Vec<u8> = Vec::new();
        let mut s = String::new();
        self.write_prefix(&mut s, &mut |i| {
            let k = match order.iter().position(|x| *x == i) {
                Some(k) => k,
                None => {
                    order.push(i);
                    order.len() - 1
                }
            };
            format!("{}{}", if SYM_POSITIVE[i as usize] { 'p' } else { 'u' }, k)
        });
        s
    }

    fn write_prefix(&self, out: &mut String, name: &mut impl FnMut(u8) -> String) {
        match self {
            E::C(c) => out.push_str(&c.to_string()),
            E::S(i) => out.push_str(&name(*i)),
            E::Neg(a) => {
                out.push_str("(neg ");
                a.write_prefix(out, name);
                out.push(')');
            }
            E::Bin(op, a, b) => {
                out.push('(');
                out.push_str(op.name());
                out.push(' ');
                a.write_prefix(out, name);
                out.push(' ');
                b.write_prefix(out, name);
                out.push(')');
            }
        }
    }

    /// Parse the output of [`E::prefix`].
    pub fn parse(text: &str) -> Result<E, String> {
        let spaced = text.replace('(', " ( ").replace(')', " ) ");
        let toks: Vec<&str> = spaced.split_whitespace().collect();
        let mut pos = 0usize;
        let e = parse_tokens(&toks, &mut pos)?;
        if pos != toks.len() {
            return Err(format!("trailing tokens in {:?}", text));
        }
        Ok(e)
    }

    pub fn to_sym(&self) -> SymExpr {
        match self {
            E::C(c) => SymExpr::Value(*c),
            E::S(i) => {
                if SYM_POSITIVE[*i as usize] {
                    SymExpr::pos_var(SYM_NAMES[*i as usize])
                } else {
                    SymExpr::var(SYM_NAMES[*i as usize])
                }
            }
            E::Neg(a) => SymExpr::Neg(a.to_sym().into()),
            E::Bin(op, a, b) => {
                let (a, b) = (a.to_sym().into(), b.to_sym().into());
                match op {
                    Op::Add => SymExpr::Add(a, b),
                    Op::Sub => SymExpr::Sub(a, b),
                    Op::Mul => SymExpr::Mul(a, b),
                    Op::Div => SymExpr::Div(a, b),
                    Op::DivCeil => SymExpr::DivCeil(a, b),
                    Op::Max => SymExpr::Max(a, b),
                    Op::Min => SymExpr::Min(a, b),
                    Op::Broadcast => SymExpr::Broadcast(a, b),
                }
            }
        }
    }

    /// Read back an expression produced by rten. `None` if it mentions a
    /// symbol the harness did not create.
    pub fn from_sym(s: &SymExpr) -> Option<E> {
        Some(match s {
            SymExpr::Value(v) => E::C(*v),
            SymExpr::Var(sym) => E::S(SYM_NAMES.iter().position(|n| *n == sym.name)? as u8),
            SymExpr::Neg(a) => E::neg(E::from_sym(a)?),
            SymExpr::Add(a, b) => E::bin(Op::Add, E::from_sym(a)?, E::from_sym(b)?),
            SymExpr::Sub(a, b) => E::bin(Op::Sub, E::from_sym(a)?, E::from_sym(b)?),
            SymExpr::Mul(a, b) => E::bin(Op::Mul, E::from_sym(a)?, E::from_sym(b)?),
            SymExpr::Div(a, b) => E::bin(Op::Div, E::from_sym(a)?, E::from_sym(b)?),
            SymExpr::DivCeil(a, b) => E::bin(Op::DivCeil, E::from_sym(a)?, E::from_sym(b)?),
            SymExpr::Max(a, b) => E::bin(Op::Max, E::from_sym(a)?, E::from_sym(b)?),
            SymExpr::Min(a, b) => E::bin(Op::Min, E::from_sym(a)?, E::from_sym(b)?),
            SymExpr::Broadcast(a, b) => E::bin(Op::Broadcast, E::from_sym(a)?, E::from_sym(b)?),
        })
    }
}

fn parse_tokens(toks: &[&str], pos: &mut usize) -> Result<E, String> {
    let t = *toks.get(*pos).ok_or("unexpected end")?;
    *pos += 1;
    if t == "(" {
        let head = *toks.get(*pos).ok_or("unexpected end")?;
        *pos += 1;
        let e = if head == "neg" {
            E::neg(parse_tokens(toks, pos)?)
        } else {
            let op = Op::from_name(head).ok_or_else(|| format!("unknown operator {:?}", head))?;
            let a = parse_tokens(toks, pos)?;
            let b = parse_tokens(toks, pos)?;
            E::bin(op, a, b)
        };
        if toks.get(*pos) != Some(&")") {
            return Err("expected )".to_string());
        }
        *pos += 1;
        Ok(e)
    } else if let Some(i) = SYM_NAMES.iter().position(|n| *n == t) {
        Ok(E::S(i as u8))
    } else {
        t.parse::<i32>().map(E::C).map_err(|_| format!("bad token {:?}", t))
    }
}

// ------------------------------------------------------------ reference

pub type Env = [i32; 3];

/// Why an (expression, assignment) pair is outside the property's domain.
#[derive(Clone, Copy, PartialEq, Eq, Debug)]
pub enum Inadm {
    /// A divisor evaluates to zero.
    DivZero = 0,
    /// Some intermediate value is outside i32.
    Overflow = 1,
    /// A `Div` node whose quotient is inexact and negative: the variant is
    /// documented as flooring division while `eval` and constant folding
    /// truncate; the two readings differ by one, so the value of the
    /// expression is not defined unambiguously.
    DivAmbiguous = 2,
    /// A `Broadcast` node whose operands are not both >= 0 and (equal or one
    /// of them 1), which its documentation assumes.
    BroadcastPre = 3,
    /// `Broadcast` of 0 with 1: "behaves like Max" says 1, broadcasting says
    /// 0. Ambiguous, not used.
    BroadcastZeroOne = 4,
}

pub const INADM_NAMES: [&str; 5] = ["division_by_zero", "intermediate_outside_i32", "div_floor_vs_trunc_ambiguous", "broadcast_precondition", "broadcast_zero_with_one"];

#[derive(Clone, Copy, PartialEq, Eq, Debug)]
pub enum DivMode {
    /// Inexact negative quotients are inadmissible.
    Strict,
    Trunc,
    Floor,
}

const LO: i128 = i32::MIN as i128;
const HI: i128 = i32::MAX as i128;

fn floor_div(x: i128, y: i128) -> i128 {
    let q = x / y;
    if x % y != 0 && ((x < 0) != (y < 0)) { q - 1 } else { q }
}

fn ceil_div(x: i128, y: i128) -> i128 {
    let q = x / y;
    if x % y != 0 && ((x < 0) == (y < 0)) { q + 1 } else { q }
}

/// The reference evaluator for the *original* expression: 128-bit
/// arithmetic, every intermediate (including leaves) must be inside i32.
pub fn eval_ref(e: &E, env: &Env, mode: DivMode) -> Result<i128, Inadm> {
    let v: i128 = match e {
        E::C(c) => *c as i128,
        E::S(i) => env[*i as usize] as i128,
        E::Neg(a) => -eval_ref(a, env, mode)?,
        E::Bin(op, a, b) => {
            let x = eval_ref(a, env, mode)?;
            let y = eval_ref(b, env, mode)?;
            match op {
                Op::Add => x + y,
                Op::Sub => x - y,
                Op::Mul => x * y,
                Op::Div => {
                    if y == 0 {
                        return Err(Inadm::DivZero);
                    }
                    let (t, f) = (x / y, floor_div(x, y));
                    match mode {
                        DivMode::Strict if t != f => return Err(Inadm::DivAmbiguous),
                        DivMode::Strict | DivMode::Trunc => t,
                        DivMode::Floor => f,
                    }
                }
                Op::DivCeil => {
                    if y == 0 {
                        return Err(Inadm::DivZero);
                    }
                    ceil_div(x, y)
                }
                Op::Max => x.max(y),
                Op::Min => x.min(y),
                Op::Broadcast => {
                    if x < 0 || y < 0 {
                        return Err(Inadm::BroadcastPre);
                    }
                    if (x == 0 && y == 1) || (x == 1 && y == 0) {
                        return Err(Inadm::BroadcastZeroOne);
                    }
                    if !(x == y || x == 1 || y == 1) {
                        return Err(Inadm::BroadcastPre);
                    }
                    x.max(y)
                }
            }
        }
    };
    if v < LO || v > HI {
        return Err(Inadm::Overflow);
    }
    Ok(v)
}

/// Result of evaluating a *simplified* expression leniently.
#[derive(Clone, Copy, PartialEq, Eq, Debug)]
pub enum Lv {
    Val(i128),
    DivZero,
    /// i128 overflowed (exact readings) - value not known to the harness.
    Unknown,
    /// `i32::MIN / -1` in the wrapping reading (rten's eval would panic).
    Trap,
}

impl Lv {
    pub fn describe(&self) -> String {
        match self {
            Lv::Val(v) => v.to_string(),
            Lv::DivZero => "division by zero".to_string(),
            Lv::Unknown => "unknown (exceeds 128 bits)".to_string(),
            Lv::Trap => "i32::MIN / -1".to_string(),
        }
    }
}

/// Exact (unbounded up to 128 bits) evaluation; `Div` truncates or floors.
pub fn eval_exact(e: &E, env: &Env, floor: bool) -> Lv {
    macro_rules! get {
        ($x:expr) => {
            match $x {
                Lv::Val(v) => v,
                other => return other,
            }
        };
    }
    macro_rules! chk {
        ($x:expr) => {
            match $x {
                Some(v) => v,
                None => return Lv::Unknown,
            }
        };
    }
    Lv::Val(match e {
        E::C(c) => *c as i128,
        E::S(i) => env[*i as usize] as i128,
        E::Neg(a) => chk!(get!(eval_exact(a, env, floor)).checked_neg()),
        E::Bin(op, a, b) => {
            let x = get!(eval_exact(a, env, floor));
            let y = get!(eval_exact(b, env, floor));
            match op {
                Op::Add => chk!(x.checked_add(y)),
                Op::Sub => chk!(x.checked_sub(y)),
                Op::Mul => chk!(x.checked_mul(y)),
                Op::Div => {
                    if y == 0 {
                        return Lv::DivZero;
                    }
                    if x == i128::MIN {
                        return Lv::Unknown;
                    }
                    if floor { floor_div(x, y) } else { x / y }
                }
                Op::DivCeil => {
                    if y == 0 {
                        return Lv::DivZero;
                    }
                    if x == i128::MIN {
                        return Lv::Unknown;
                    }
                    ceil_div(x, y)
                }
                Op::Max | Op::Broadcast => x.max(y),
                Op::Min => x.min(y),
            }
        }
    })
}

/// Model of what `SymExpr::eval` computes in a build without overflow
/// checks: wrapping i32 arithmetic, truncating division.
pub fn eval_wrap(e: &E, env: &Env) -> Lv {
    fn go(e: &E, env: &Env) -> Result<i32, Lv> {
        Ok(match e {
            E::C(c) => *c,
            E::S(i) => env[*i as usize],
            E::Neg(a) => go(a, env)?.wrapping_neg(),
            E::Bin(op, a, b) => {
                let x = go(a, env)?;
                let y = go(b, env)?;
                match op {
                    Op::Add => x.wrapping_add(y),
                    Op::Sub => x.wrapping_sub(y),
                    Op::Mul => x.wrapping_mul(y),
                    Op::Div | Op::DivCeil => {
                        if y == 0 {
                            return Err(Lv::DivZero);
                        }
                        if x == i32::MIN && y == -1 {
                            return Err(Lv::Trap);
                        }
                        if *op == Op::Div { x / y } else { ceil_div(x as i128, y as i128) as i32 }
                    }
                    Op::Max | Op::Broadcast => x.max(y),
                    Op::Min => x.min(y),
                }
            }
        })
    }
    match go(e, env) {
        Ok(v) => Lv::Val(v as i128),
        Err(l) => l,
    }
}

/// Set-valued lenient evaluation of a *simplified* expression: every node
/// whose exact result leaves i32 may either keep the exact value or wrap to
/// i32 (the statement does not say how an overflowing simplified expression
/// is to be read, and `SymExpr::eval` wraps in a build without overflow
/// checks), and every `Div` node may truncate or floor. The simplified
/// expression is accepted when the reference value is in the set.
pub struct ValSet {
    pub vals: Vec<i128>,
    /// Some choice ends in a division by zero.
    pub div_zero: bool,
    /// 128-bit overflow or too many alternatives: the set is incomplete.
    pub unknown: bool,
}

const SET_CAP: usize = 16;

pub fn eval_set(e: &E, env: &Env) -> ValSet {
    fn push(out: &mut ValSet, r: i128) {
        let mut add = |v: i128| {
            if !out.vals.contains(&v) {
                if out.vals.len() >= SET_CAP {
                    out.unknown = true;
                } else {
                    out.vals.push(v);
                }
            }
        };
        add(r);
        if r < LO || r > HI {
            add((r as i32) as i128);
        }
    }
    match e {
        E::C(c) => ValSet { vals: vec![*c as i128], div_zero: false, unknown: false },
        E::S(i) => ValSet { vals: vec![env[*i as usize] as i128], div_zero: false, unknown: false },
        E::Neg(a) => {
            let sa = eval_set(a, env);
            let mut out = ValSet { vals: Vec::new(), div_zero: sa.div_zero, unknown: sa.unknown };
            for x in sa.vals {
                match x.checked_neg() {
                    Some(r) => push(&mut out, r),
                    None => out.unknown = true,
                }
            }
            out
        }
        E::Bin(op, a, b) => {
            let sa = eval_set(a, env);
            let sb = eval_set(b, env);
            let mut out = ValSet { vals: Vec::new(), div_zero: sa.div_zero || sb.div_zero, unknown: sa.unknown || sb.unknown };
            for &x in &sa.vals {
                for &y in &sb.vals {
                    let r = match op {
                        Op::Add => x.checked_add(y),
                        Op::Sub => x.checked_sub(y),
                        Op::Mul => x.checked_mul(y),
                        Op::Max | Op::Broadcast => Some(x.max(y)),
                        Op::Min => Some(x.min(y)),
                        Op::Div | Op::DivCeil => {
                            if y == 0 {
                                out.div_zero = true;
                                continue;
                            }
                            if x == i128::MIN {
                                None
                            } else if *op == Op::Div {
                                push(&mut out, floor_div(x, y));
                                Some(x / y)
                            } else {
                                Some(ceil_div(x, y))
                            }
                        }
                    };
                    match r {
                        Some(r) => push(&mut out, r),
                        None => out.unknown = true,
                    }
                }
            }
            out
        }
    }
}
