//! symcheck: runtime monitors for rten-shape-inference symbolic expressions.
//!
//!   symcheck c11   C11  simplify / range / is_positive of SymExpr vs a
//!                       128-bit reference evaluator (exhaustive depth <= 2
//!                       plus random trees to depth 5)
use vcommon::*;

mod c11;
mod expr;

fn main() {
    run_main(real_main)
}

fn real_main() {
    let args = Args::parse();
    match args.cmd.as_str() {
        "c11" => c11::run(&args),
        other => {
            eprintln!("unknown sub-command {:?}", other);
            std::process::exit(3);
        }
    }
}
