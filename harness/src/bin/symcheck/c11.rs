//! C11: `SymExpr::simplify`, `range` and `is_positive` are sound with respect
//! to a 128-bit reference evaluation of the original expression.
//!
//! Domain (what the statement quantifies over, read literally):
//!  * symbols declared positive (`>= 0`, see `Symbol::positive`) get values
//!    `>= 0`;
//!  * the ORIGINAL expression evaluates with every intermediate inside i32 and
//!    no division by zero;
//!  * `Div` is documented as flooring but implemented (eval, constant folding)
//!    as truncating: only assignments where both readings agree at every
//!    `Div` node of the original are used (the others are counted and probed
//!    under both readings into `unflagged_*` counters, never reported);
//!  * `Broadcast` is documented to imply "both positive and either equal or
//!    1": only such operands are used; (0, 1) is left out because "behaves
//!    like Max" and broadcasting disagree about it.
//!
//! What is flagged:
//!  * simplify: the reference value is not among the values the simplified
//!    expression can take when every node whose exact result leaves i32 may
//!    keep the exact value or wrap (as `SymExpr::eval` does in a build without
//!    overflow checks) and every `Div` node may truncate or floor; a division
//!    by zero yields no value; if the exact value exceeds 128 bits the case is
//!    undecided and only counted;
//!  * range: reference value outside `range(e)` (inclusive bounds);
//!  * nonneg: `is_positive(e)` (documented: "known to be >= 0") and the
//!    reference value is negative.
use std::collections::HashMap;

use rayon::prelude::*;
use rten_shape_inference::{SymExpr, SymbolMap};
use vcommon::*;

use crate::expr::*;

const CONSTS: [i32; 12] = [-7, -3, -2, -1, 0, 1, 2, 3, 7, i32::MIN, i32::MAX, 65536];
/// Extra constants used by random trees only (gcd / common factor rules).
const EXTRA_CONSTS: [i32; 10] = [4, 5, 6, 8, 12, 256, 768, -4, -6, 32768];
/// Values for symbols declared positive.
const POS_VALS: [i32; 7] = [0, 1, 2, 3, 7, 32768, i32::MAX];
/// Values for the unrestricted symbol.
const ANY_VALS: [i32; 11] = [-3, -2, -1, 0, 1, 2, 3, 7, 32768, i32::MAX, i32::MIN];
/// Constants ordered from "simplest"; used to normalise shrunk witnesses.
const SIMPLE_CONSTS: [i32; 12] = [0, 1, -1, 2, -2, 3, -3, 7, -7, 65536, i32::MAX, i32::MIN];

const NONTRIVIAL_CAP: usize = 2_000_000;

#[derive(Clone, Copy, PartialEq, Eq, Hash, PartialOrd, Ord, Debug)]
enum Kind {
    Simplify = 0,
    Range = 1,
    NonNeg = 2,
}

const KINDS: [Kind; 3] = [Kind::Simplify, Kind::Range, Kind::NonNeg];

impl Kind {
    fn name(self) -> &'static str {
        match self {
            Kind::Simplify => "simplify",
            Kind::Range => "range",
            Kind::NonNeg => "nonneg",
        }
    }
}

// ------------------------------------------------------------ counters

macro_rules! counters {
    ($($name:ident),* $(,)?) => {
        #[derive(Default, Clone)]
        struct Cn {
            $($name: u64,)*
            by_root: [u64; 11],
            op_nodes_admissible: [u64; 11],
            by_depth: [u64; 8],
            by_depth_admissible: [u64; 8],
            inadm: [u64; 5],
            by_nsyms: [u64; 4],
            fail_assignments: [u64; 3],
            fail_exprs: [u64; 3],
        }
        impl Cn {
            fn merge(&mut self, o: &Cn) {
                $(self.$name += o.$name;)*
                for i in 0..11 { self.by_root[i] += o.by_root[i]; self.op_nodes_admissible[i] += o.op_nodes_admissible[i]; }
                for i in 0..8 { self.by_depth[i] += o.by_depth[i]; self.by_depth_admissible[i] += o.by_depth_admissible[i]; }
                for i in 0..5 { self.inadm[i] += o.inadm[i]; }
                for i in 0..4 { self.by_nsyms[i] += o.by_nsyms[i]; }
                for i in 0..3 { self.fail_assignments[i] += o.fail_assignments[i]; self.fail_exprs[i] += o.fail_exprs[i]; }
            }
            fn emit(&self, rep: &mut Report, prefix: &str) {
                $(rep.add(&format!("{}{}", prefix, stringify!($name)), self.$name);)*
                for i in 0..11 {
                    rep.add(&format!("{}root_{}", prefix, E::kind_name(i)), self.by_root[i]);
                    rep.add(&format!("{}admissible_exprs_containing_{}", prefix, E::kind_name(i)), self.op_nodes_admissible[i]);
                }
                for i in 0..8 {
                    if self.by_depth[i] > 0 {
                        rep.add(&format!("{}depth_{}", prefix, i), self.by_depth[i]);
                        rep.add(&format!("{}depth_{}_with_admissible_assignment", prefix, i), self.by_depth_admissible[i]);
                    }
                }
                for i in 0..5 { rep.add(&format!("{}inadmissible_{}", prefix, INADM_NAMES[i]), self.inadm[i]); }
                for i in 0..4 { rep.add(&format!("{}exprs_with_{}_symbols", prefix, i), self.by_nsyms[i]); }
                for k in KINDS {
                    rep.add(&format!("{}failing_assignments_{}", prefix, k.name()), self.fail_assignments[k as usize]);
                    rep.add(&format!("{}failing_exprs_{}", prefix, k.name()), self.fail_exprs[k as usize]);
                }
            }
        }
    };
}

counters!(
    exprs,
    assignments,
    admissible_assignments,
    exprs_with_admissible_assignment,
    exprs_without_admissible_assignment,
    simplify_changed_expr,
    simplify_returned_constant,
    simplify_panicked_no_result,
    simplify_panicked_but_admissible_assignment_exists,
    simplified_has_foreign_symbol,
    range_proper_subinterval,
    range_full_i32,
    range_single_point,
    is_positive_true,
    is_positive_true_with_admissible_assignment,
    nontrivial_total,
    simplify_checks,
    simplified_equal_exact_trunc,
    simplified_equal_only_under_floor_reading,
    simplified_equal_only_under_wrapping_i32,
    simplified_equal_only_with_per_node_leniency,
    simplified_undecided_exceeds_128_bits,
    range_checks,
    nonneg_checks,
    eval_crosschecks,
    eval_agrees_with_reference,
    eval_disagrees_with_reference_not_reported,
    eval_panicked_on_admissible_original,
    wrapmodel_crosschecks,
    wrapmodel_disagrees_with_eval_of_simplified,
    unflagged_truncdiv_evaluated,
    unflagged_truncdiv_simplify_mismatch,
    unflagged_truncdiv_outside_range,
    unflagged_floordiv_evaluated,
    unflagged_floordiv_simplify_mismatch,
    unflagged_floordiv_outside_range,
);

// ------------------------------------------------------------ facts about one expression

struct Facts {
    sym: SymExpr,
    /// The simplified expression read back into the harness representation;
    /// Err = simplify panicked / mentions an unknown symbol.
    simp: Result<E, String>,
    simp_sym: Option<SymExpr>,
    simp_changed: bool,
    range: Result<(i32, i32), String>,
    is_pos: Result<bool, String>,
}

fn facts(e: &E) -> Facts {
    let sym = e.to_sym();
    let simp_sym = catch(|| sym.simplify());
    let (simp, simp_sym) = match simp_sym {
        Ok(s) => match E::from_sym(&s) {
            Some(back) => (Ok(back), Some(s)),
            None => (Err("simplified expression mentions an unknown symbol".to_string()), Some(s)),
        },
        Err(msg) => (Err(format!("panic: {}", msg)), None),
    };
    let simp_changed = matches!(&simp, Ok(s) if s != e);
    let range = catch(|| sym.range());
    let is_pos = catch(|| sym.is_positive());
    Facts { sym, simp, simp_sym, simp_changed, range, is_pos }
}

fn for_each_env(mask: u8, mut f: impl FnMut(&Env)) {
    let one = [0i32];
    let xs: &[i32] = if mask & 1 != 0 { &POS_VALS } else { &one };
    let ys: &[i32] = if mask & 2 != 0 { &POS_VALS } else { &one };
    let zs: &[i32] = if mask & 4 != 0 { &ANY_VALS } else { &one };
    for &x in xs {
        for &y in ys {
            for &z in zs {
                f(&[x, y, z]);
            }
        }
    }
}

/// Does the simplified expression agree with `v`? Accepted when `v` is in the
/// set-valued lenient evaluation (see `eval_set`). Returns (agrees,
/// undecided, [exact-truncating, exact-flooring, wrapping-i32] readings for
/// the report).
fn simplified_agrees(simp: &E, env: &Env, v: i128) -> (bool, bool, [Lv; 3]) {
    let et = eval_exact(simp, env, false);
    if et == Lv::Val(v) {
        return (true, false, [et, et, et]);
    }
    let ef = eval_exact(simp, env, true);
    let ew = eval_wrap(simp, env);
    let set = eval_set(simp, env);
    let agrees = set.vals.contains(&v);
    let undecided = !agrees && set.unknown;
    (agrees, undecided, [et, ef, ew])
}

#[derive(Default)]
struct Outcome {
    n_adm: u32,
    fail: [Option<Env>; 3],
    first_adm: Option<(Env, i128)>,
}

fn check(e: &E, f: &Facts, cn: &mut Cn, crosscheck: bool) -> Outcome {
    let mut out = Outcome::default();
    let mask = e.sym_mask();
    for_each_env(mask, |env| {
        cn.assignments += 1;
        let v = match eval_ref(e, env, DivMode::Strict) {
            Ok(v) => v,
            Err(why) => {
                cn.inadm[why as usize] += 1;
                if why == Inadm::DivAmbiguous {
                    probe_ambiguous(e, f, env, cn);
                }
                return;
            }
        };
        cn.admissible_assignments += 1;
        out.n_adm += 1;
        if out.first_adm.is_none() {
            out.first_adm = Some((*env, v));
        }

        // --- simplify
        if let Ok(simp) = &f.simp {
            cn.simplify_checks += 1;
            let (agrees, undecided, r) = simplified_agrees(simp, env, v);
            if r[0] == Lv::Val(v) {
                cn.simplified_equal_exact_trunc += 1;
            } else if r[1] == Lv::Val(v) {
                cn.simplified_equal_only_under_floor_reading += 1;
            } else if r[2] == Lv::Val(v) {
                cn.simplified_equal_only_under_wrapping_i32 += 1;
            } else if agrees {
                cn.simplified_equal_only_with_per_node_leniency += 1;
            } else if undecided {
                cn.simplified_undecided_exceeds_128_bits += 1;
            } else {
                cn.fail_assignments[Kind::Simplify as usize] += 1;
                if out.fail[Kind::Simplify as usize].is_none() {
                    out.fail[Kind::Simplify as usize] = Some(*env);
                }
            }
        }

        // --- range
        if let Ok((lo, hi)) = f.range {
            cn.range_checks += 1;
            if v < lo as i128 || v > hi as i128 {
                cn.fail_assignments[Kind::Range as usize] += 1;
                if out.fail[Kind::Range as usize].is_none() {
                    out.fail[Kind::Range as usize] = Some(*env);
                }
            }
        }

        // --- is_positive ("known to be >= 0")
        if let Ok(true) = f.is_pos {
            cn.nonneg_checks += 1;
            if v < 0 {
                cn.fail_assignments[Kind::NonNeg as usize] += 1;
                if out.fail[Kind::NonNeg as usize].is_none() {
                    out.fail[Kind::NonNeg as usize] = Some(*env);
                }
            }
        }

        // --- side checks, counted only
        if crosscheck {
            let pairs = [("x", env[0]), ("y", env[1]), ("z", env[2])];
            let map = SymbolMap::new(&pairs);
            cn.eval_crosschecks += 1;
            match catch(|| f.sym.eval(&map)) {
                Ok(Ok(got)) if got as i128 == v => cn.eval_agrees_with_reference += 1,
                Ok(_) => cn.eval_disagrees_with_reference_not_reported += 1,
                Err(_) => cn.eval_panicked_on_admissible_original += 1,
            }
            if let (Ok(simp), Some(simp_sym)) = (&f.simp, &f.simp_sym) {
                cn.wrapmodel_crosschecks += 1;
                let model = eval_wrap(simp, env);
                let real = match catch(|| simp_sym.eval(&map)) {
                    Ok(Ok(v)) => Lv::Val(v as i128),
                    Ok(Err(_)) => Lv::DivZero,
                    Err(_) => Lv::Trap,
                };
                if model != real {
                    cn.wrapmodel_disagrees_with_eval_of_simplified += 1;
                }
            }
        }
    });
    out
}

/// Assignments left out because a `Div` node is ambiguous: evaluate under
/// each reading and count what would have been seen. Never reported.
fn probe_ambiguous(e: &E, f: &Facts, env: &Env, cn: &mut Cn) {
    if let Ok(v) = eval_ref(e, env, DivMode::Trunc) {
        cn.unflagged_truncdiv_evaluated += 1;
        if let Ok(simp) = &f.simp {
            let (et, ew) = (eval_exact(simp, env, false), eval_wrap(simp, env));
            if et != Lv::Val(v) && ew != Lv::Val(v) && et != Lv::Unknown {
                cn.unflagged_truncdiv_simplify_mismatch += 1;
                if debug_enabled() && e.size() <= 7 {
                    eprintln!("DEBUG truncdiv-mismatch {} -> {} env={:?} v={} simp={:?}", e.prefix(), simp.prefix(), env, v, et);
                }
            }
        }
        if let Ok((lo, hi)) = f.range {
            if v < lo as i128 || v > hi as i128 {
                cn.unflagged_truncdiv_outside_range += 1;
            }
        }
    }
    if let Ok(v) = eval_ref(e, env, DivMode::Floor) {
        cn.unflagged_floordiv_evaluated += 1;
        if let Ok(simp) = &f.simp {
            let ef = eval_exact(simp, env, true);
            if ef != Lv::Val(v) && ef != Lv::Unknown {
                cn.unflagged_floordiv_simplify_mismatch += 1;
            }
        }
        if let Ok((lo, hi)) = f.range {
            if v < lo as i128 || v > hi as i128 {
                cn.unflagged_floordiv_outside_range += 1;
            }
        }
    }
}

// ------------------------------------------------------------ accumulation

struct Acc {
    cn: Cn,
    nontrivial: Vec<u64>,
    /// Raw failures, one (the lowest case index) per (kind, shape class).
    raw: HashMap<(Kind, u32), (u64, E)>,
    samples: Vec<(u64, Json)>,
}

impl Acc {
    fn new() -> Acc {
        Acc { cn: Cn::default(), nontrivial: Vec::new(), raw: HashMap::new(), samples: Vec::new() }
    }

    fn merge(mut self, other: Acc) -> Acc {
        self.cn.merge(&other.cn);
        let room = NONTRIVIAL_CAP.saturating_sub(self.nontrivial.len());
        self.nontrivial.extend(other.nontrivial.into_iter().take(room));
        for (k, (idx, e)) in other.raw {
            match self.raw.get(&k) {
                Some((have, _)) if *have <= idx => {}
                _ => {
                    self.raw.insert(k, (idx, e));
                }
            }
        }
        self.samples.extend(other.samples);
        self.samples.sort_by_key(|(i, _)| *i);
        self.samples.truncate(4);
        self
    }
}

fn debug_enabled() -> bool {
    static ON: std::sync::OnceLock<bool> = std::sync::OnceLock::new();
    *ON.get_or_init(|| std::env::var_os("SYMCHECK_DEBUG").is_some())
}

fn shape_class(e: &E) -> u32 {
    let (l, r) = match e {
        E::C(_) | E::S(_) => (0, 0),
        E::Neg(a) => (a.kind_index(), 0),
        E::Bin(_, a, b) => (a.kind_index(), b.kind_index()),
    };
    (e.kind_index() * 256 + l * 16 + r) as u32
}

fn process(acc: &mut Acc, idx: u64, e: &E) {
    let cn = &mut acc.cn;
    cn.exprs += 1;
    cn.by_root[e.kind_index()] += 1;
    let depth = e.depth().min(7);
    cn.by_depth[depth] += 1;
    cn.by_nsyms[e.sym_mask().count_ones() as usize] += 1;

    let f = facts(e);
    match &f.simp {
        Ok(s) => {
            if f.simp_changed {
                cn.simplify_changed_expr += 1;
            }
            if matches!(s, E::C(_)) && !matches!(e, E::C(_)) {
                cn.simplify_returned_constant += 1;
            }
        }
        Err(msg) if msg.starts_with("panic") => cn.simplify_panicked_no_result += 1,
        Err(_) => cn.simplified_has_foreign_symbol += 1,
    }
    let mut range_proper = false;
    if let Ok((lo, hi)) = f.range {
        if lo == i32::MIN && hi == i32::MAX {
            cn.range_full_i32 += 1;
        } else {
            range_proper = true;
            cn.range_proper_subinterval += 1;
            if lo == hi {
                cn.range_single_point += 1;
            }
        }
    }
    if let Ok(true) = f.is_pos {
        cn.is_positive_true += 1;
    }

    let out = check(e, &f, cn, true);

    if out.n_adm > 0 {
        cn.exprs_with_admissible_assignment += 1;
        cn.by_depth_admissible[depth] += 1;
        let mut seen = [false; 11];
        e.visit(&mut |n| seen[n.kind_index()] = true);
        for i in 0..11 {
            if seen[i] {
                cn.op_nodes_admissible[i] += 1;
            }
        }
        if let Ok(true) = f.is_pos {
            cn.is_positive_true_with_admissible_assignment += 1;
        }
        if let Err(msg) = &f.simp {
            cn.simplify_panicked_but_admissible_assignment_exists += 1;
            if debug_enabled() {
                eprintln!("DEBUG simplify-panic-with-admissible {} first_adm={:?} msg={}", e.prefix(), out.first_adm, msg);
            }
        }
        if f.simp_changed || range_proper {
            cn.nontrivial_total += 1;
            if acc.nontrivial.len() < NONTRIVIAL_CAP / 8 {
                acc.nontrivial.push(hash_of(e));
            }
            if f.simp_changed && e.depth() >= 2 && out.n_adm >= 2 && (acc.samples.len() < 4 || idx < acc.samples.last().unwrap().0) {
                let (env, v) = out.first_adm.unwrap();
                let s = json!({
                    "expr": e.prefix(),
                    "simplified": f.simp.as_ref().map(|s| s.prefix()).unwrap_or_default(),
                    "range": f.range.as_ref().map(|r| json!([r.0, r.1])).unwrap_or(json!(null)),
                    "is_positive": f.is_pos.as_ref().ok(),
                    "admissible_assignments": out.n_adm,
                    "example": {"x": env[0], "y": env[1], "z": env[2], "value": v as i64},
                });
                acc.samples.push((idx, s));
                acc.samples.sort_by_key(|(i, _)| *i);
                acc.samples.truncate(4);
            }
        }
    } else {
        cn.exprs_without_admissible_assignment += 1;
    }

    for k in KINDS {
        if out.fail[k as usize].is_some() {
            acc.cn.fail_exprs[k as usize] += 1;
            let key = (k, shape_class(e));
            match acc.raw.get(&key) {
                Some((have, _)) if *have <= idx => {}
                _ => {
                    acc.raw.insert(key, (idx, e.clone()));
                }
            }
        }
    }
}

// ------------------------------------------------------------ shrinking

/// First admissible assignment under which `e` fails `kind`.
fn fails(kind: Kind, e: &E) -> Option<Env> {
    let f = facts(e);
    let mut scratch = Cn::default();
    check(e, &f, &mut scratch, false).fail[kind as usize]
}

fn leaf_rank(e: &E) -> usize {
    match e {
        E::C(c) => SIMPLE_CONSTS.iter().position(|x| x == c).unwrap_or(40),
        E::S(i) => 100 + *i as usize,
        _ => 0,
    }
}

fn measure(e: &E) -> (usize, usize) {
    let mut w = 0;
    e.visit(&mut |n| w += leaf_rank(n));
    (e.size(), w)
}

/// Greedy shrinking: replace a sub-tree by one of its descendants, by the
/// constant it evaluates to under the failing assignment, or by a simple
/// leaf; replace leaves by simpler leaves. A step is kept when the same kind
/// of failure persists (for some admissible assignment) and the measure
/// (node count, then leaf complexity) drops.
fn shrink(kind: Kind, start: &E) -> (E, u32) {
    let mut cur = start.clone();
    let mut cur_env = match fails(kind, &cur) {
        Some(env) => env,
        None => return (cur, 0),
    };
    let mut budget = 4000u32;
    let mut used = 0u32;
    'outer: loop {
        let cur_m = measure(&cur);
        let n = cur.size();
        for pos in 0..n {
            let sub = cur.node_at(pos).unwrap().clone();
            let mut cands: Vec<E> = Vec::new();
            match &sub {
                E::C(_) | E::S(_) => {
                    let r = leaf_rank(&sub);
                    for (i, c) in SIMPLE_CONSTS.iter().enumerate() {
                        if i < r {
                            cands.push(E::C(*c));
                        }
                    }
                    if let E::S(i) = sub {
                        for j in 0..i {
                            cands.push(E::S(j));
                        }
                    }
                }
                _ => {
                    // proper descendants, smallest first
                    let mut desc: Vec<E> = Vec::new();
                    let mut first = true;
                    sub.visit(&mut |d| {
                        if !first {
                            desc.push(d.clone());
                        }
                        first = false;
                    });
                    desc.sort_by_key(|d| d.size());
                    desc.dedup();
                    cands.extend(desc);
                    if let Ok(v) = eval_ref(&sub, &cur_env, DivMode::Strict) {
                        cands.push(E::C(v as i32));
                    }
                    for c in SIMPLE_CONSTS {
                        cands.push(E::C(c));
                    }
                    cands.push(E::S(0));
                    cands.push(E::S(2));
                }
            }
            for cand in cands {
                let new = cur.replace_at(pos, &cand);
                if measure(&new) >= cur_m {
                    continue;
                }
                if budget == 0 {
                    break 'outer;
                }
                budget -= 1;
                used += 1;
                if let Some(env) = fails(kind, &new) {
                    cur = new;
                    cur_env = env;
                    continue 'outer;
                }
            }
        }
        break;
    }
    (cur, used)
}

fn report_failure(rep: &mut Report, kind: Kind, start: &E, found_as: &E, origin: &str) {
    let (small, steps) = shrink(kind, start);
    let env = match fails(kind, &small) {
        Some(env) => env,
        None => return, // cannot happen: shrink only keeps failing cases
    };
    let f = facts(&small);
    let v = eval_ref(&small, &env, DivMode::Strict).unwrap();
    let signature = format!("C11|{}|{}", kind.name(), small.canonical());
    let infix = format!("{}", f.sym);
    let at = format!("x={} y={} z={}", env[0], env[1], env[2]);
    let mut observed = json!({
        "reference_value": v as i64,
        "range": f.range.as_ref().map(|r| json!([r.0, r.1])).unwrap_or(json!(null)),
        "is_positive": f.is_pos.as_ref().ok(),
    });
    let summary = match kind {
        Kind::Simplify => {
            let simp = f.simp.as_ref().unwrap();
            let (_, _, r) = simplified_agrees(simp, &env, v);
            observed["simplified"] = json!(simp.prefix());
            observed["simplified_display"] = json!(f.simp_sym.as_ref().map(|s| s.to_string()));
            observed["simplified_value_exact_trunc"] = json!(r[0].describe());
            observed["simplified_value_exact_floor"] = json!(r[1].describe());
            observed["simplified_value_wrapping_i32"] = json!(r[2].describe());
            format!(
                "simplify({}) = {} ; at {} the original evaluates to {} but the simplified form gives {} (exact), {} (wrapping i32)",
                infix,
                f.simp_sym.as_ref().map(|s| s.to_string()).unwrap_or_default(),
                at,
                v,
                r[0].describe(),
                r[2].describe()
            )
        }
        Kind::Range => {
            let (lo, hi) = f.range.clone().unwrap();
            format!("range({}) = ({}, {}) but at {} the expression evaluates to {}", infix, lo, hi, at, v)
        }
        Kind::NonNeg => format!("is_positive({}) is true but at {} the expression evaluates to {}", infix, at, v),
    };
    rep.violation(
        signature,
        summary,
        json!({
            "kind": kind.name(),
            "expr": small.prefix(),
            "env": {"x": env[0], "y": env[1], "z": env[2]},
            "symbols": {"x": "positive", "y": "positive", "z": "unrestricted"},
            "observed": observed,
            "found_as": found_as.prefix(),
            "origin": origin,
            "shrink_steps": steps,
        }),
    );
}

/// Shrink and report the raw failures of a phase, deterministically.
fn report_raw(rep: &mut Report, raw: HashMap<(Kind, u32), (u64, E)>, origin: &str) {
    let mut items: Vec<((Kind, u32), (u64, E))> = raw.into_iter().collect();
    items.sort_by_key(|(k, (idx, _))| (k.0, *idx, k.1));
    rep.add(&format!("{}_failure_classes", origin), items.len() as u64);
    // Shrink in parallel (pure functions), report in order.
    let shrunk: Vec<(Kind, E, E)> = items
        .par_iter()
        .map(|((kind, _), (_, e))| {
            let (small, _) = shrink(*kind, e);
            (*kind, small, e.clone())
        })
        .collect();
    // Smallest witnesses first so that the kept violations are the simplest.
    let mut order: Vec<usize> = (0..shrunk.len()).collect();
    order.sort_by_key(|&i| (shrunk[i].0, measure(&shrunk[i].1), shrunk[i].1.canonical()));
    let mut seen: Vec<(Kind, String)> = Vec::new();
    for i in order {
        let (kind, small, orig) = &shrunk[i];
        let key = (*kind, small.canonical());
        if seen.contains(&key) {
            rep.count("raw_failures_with_same_shrunk_signature");
            continue;
        }
        seen.push(key);
        // `report_failure` shrinks again from the already shrunk form (a
        // fixed point) and fills in the details.
        report_failure(rep, *kind, small, orig, origin);
    }
}

// ------------------------------------------------------------ generation

fn leaves() -> Vec<E> {
    let mut v: Vec<E> = CONSTS.iter().map(|c| E::C(*c)).collect();
    v.extend((0..3u8).map(E::S));
    v
}

/// All expressions of depth <= 1.
fn depth1(leaves: &[E]) -> Vec<E> {
    let mut v: Vec<E> = leaves.to_vec();
    v.extend(leaves.iter().map(|l| E::neg(l.clone())));
    for op in OPS {
        for a in leaves {
            for b in leaves {
                v.push(E::bin(op, a.clone(), b.clone()));
            }
        }
    }
    v
}

fn random_leaf(rng: &mut Rng) -> E {
    match rng.below(100) {
        0..=44 => E::S(rng.below(3) as u8),
        45..=79 => E::C(*rng.choose(&[-3, -2, -1, 0, 1, 2, 3, 7, -7])),
        80..=90 => E::C(*rng.choose(&EXTRA_CONSTS)),
        _ => E::C(*rng.choose(&[i32::MIN, i32::MAX, 65536])),
    }
}

fn random_tree(rng: &mut Rng, depth: usize) -> E {
    if depth == 0 || rng.chance(15, 100) {
        return random_leaf(rng);
    }
    if rng.chance(10, 100) {
        return E::neg(random_tree(rng, depth - 1));
    }
    let op = *rng.choose(&OPS);
    // Structured cases that make rewrite rules applicable.
    if depth >= 2 && rng.chance(25, 100) {
        let t = random_tree(rng, depth - 2);
        let u = random_tree(rng, depth - 2);
        let w = random_tree(rng, depth - 2);
        let c1 = random_leaf(rng);
        let c2 = random_leaf(rng);
        return match rng.below(8) {
            0 => E::bin(Op::Div, E::bin(Op::Mul, t.clone(), u), t),
            1 => E::bin(Op::Div, E::bin(Op::Mul, t.clone(), u), E::bin(Op::Mul, w, t)),
            2 => E::bin(Op::Div, E::bin(Op::Div, t, c1), c2),
            3 => E::bin(Op::DivCeil, E::bin(Op::DivCeil, t, c1), c2),
            4 => E::bin(Op::Sub, E::bin(Op::Add, t.clone(), u), t),
            5 => E::bin(Op::Add, E::bin(Op::Add, t.clone(), u), E::neg(t)),
            6 => E::bin(Op::Div, E::bin(Op::Mul, c1, t), E::bin(Op::Mul, c2, u)),
            _ => E::bin(op, E::bin(op, t.clone(), u), E::bin(op, w, t)),
        };
    }
    let a = random_tree(rng, depth - 1);
    let b = if op == Op::Broadcast {
        match rng.below(100) {
            0..=44 => a.clone(),
            45..=79 => E::C(1),
            _ => random_tree(rng, depth - 1),
        }
    } else if rng.chance(12, 100) {
        a.clone()
    } else {
        random_tree(rng, depth - 1)
    };
    if op == Op::Broadcast && rng.bool() { E::bin(op, b, a) } else { E::bin(op, a, b) }
}

// ------------------------------------------------------------ templates

/// Deterministic families aimed at the rewrite rules (constant folding after
/// re-association, nested division merging, common factor / gcd removal) over
/// a wider pool of constants than the depth-2 enumeration.
#[derive(Clone, Copy)]
enum Batch {
    /// op2(op1(s, c1), c2) in the four operand orders.
    A { op1: Op, op2: Op, c1: i32 },
    /// (c1 * (c2 * s)) div c3
    B { d: Op, c1: i32 },
    /// (c1 * s) div (c2 * s)
    B2 { d: Op },
    /// op3(op2(op1(s, c1), c2), c3) over the arithmetic operators.
    C { o1: Op, o2: Op, o3: Op, c1: i32 },
}

fn const_pool() -> Vec<i32> {
    let mut p: Vec<i32> = CONSTS.to_vec();
    p.extend_from_slice(&EXTRA_CONSTS);
    p
}

fn template_batches(thorough: bool) -> Vec<Batch> {
    let pool = const_pool();
    let mut v = Vec::new();
    for op1 in OPS {
        for op2 in OPS {
            for &c1 in &pool {
                v.push(Batch::A { op1, op2, c1 });
            }
        }
    }
    for d in [Op::Div, Op::DivCeil] {
        for &c1 in &pool {
            v.push(Batch::B { d, c1 });
        }
        v.push(Batch::B2 { d });
    }
    if thorough {
        let arith = [Op::Add, Op::Sub, Op::Mul, Op::Div, Op::DivCeil];
        for o1 in arith {
            for o2 in arith {
                for o3 in arith {
                    for &c1 in &pool {
                        v.push(Batch::C { o1, o2, o3, c1 });
                    }
                }
            }
        }
    }
    v
}

fn expand_batch(b: Batch, mut f: impl FnMut(E)) {
    let pool = const_pool();
    let syms = [E::S(0), E::S(2)];
    match b {
        Batch::A { op1, op2, c1 } => {
            for &c2 in &pool {
                for s in &syms {
                    for form in 0..4 {
                        let inner = if form & 1 == 0 { E::bin(op1, s.clone(), E::C(c1)) } else { E::bin(op1, E::C(c1), s.clone()) };
                        f(if form & 2 == 0 { E::bin(op2, inner, E::C(c2)) } else { E::bin(op2, E::C(c2), inner) });
                    }
                }
            }
        }
        Batch::B { d, c1 } => {
            for &c2 in &pool {
                for &c3 in &pool {
                    for s in &syms {
                        f(E::bin(d, E::bin(Op::Mul, E::C(c1), E::bin(Op::Mul, E::C(c2), s.clone())), E::C(c3)));
                    }
                }
            }
        }
        Batch::B2 { d } => {
            for &c1 in &pool {
                for &c2 in &pool {
                    for s in &syms {
                        f(E::bin(d, E::bin(Op::Mul, E::C(c1), s.clone()), E::bin(Op::Mul, E::C(c2), s.clone())));
                    }
                }
            }
        }
        Batch::C { o1, o2, o3, c1 } => {
            for &c2 in &pool {
                for &c3 in &pool {
                    for s in &syms {
                        f(E::bin(o3, E::bin(o2, E::bin(o1, s.clone(), E::C(c1)), E::C(c2)), E::C(c3)));
                    }
                }
            }
        }
    }
}

// ------------------------------------------------------------ entry point

const RULE: &str = "every expression tree of depth <= 2 over Add/Sub/Mul/Div/DivCeil/Max/Min/Broadcast/Neg with leaves {-7,-3,-2,-1,0,1,2,3,7,i32::MIN,i32::MAX,65536, x>=0, y>=0, z} (enumerated completely, split over the shards), plus fixed template families for the rewrite rules (nested operator/constant chains, products divided by constants, common factors) over 22 constants, plus seeded random trees up to depth 5; for each, every assignment of the symbols it uses from x,y in {0,1,2,3,7,32768,i32::MAX}, z in {-3..3,7,32768,i32::MAX,i32::MIN}; an assignment is admissible when a 128-bit reference evaluation of the original keeps every intermediate inside i32, divides by no zero, has no Div node where flooring and truncation differ, and gives Broadcast only operands that are >= 0 and equal-or-one; at each admissible assignment simplify(e) must evaluate to the reference value (leniently: a node of the simplified form that leaves i32 may keep its exact value or wrap, a Div may truncate or floor), the value must lie in range(e), and is_positive(e) implies value >= 0. Non-trivial = the expression has an admissible assignment and (simplify changed it structurally or range(e) is a proper sub-interval of i32); distinct by expression (at most 2,000,000 identities are kept, counter nontrivial_total has the full number)";

pub fn run(args: &Args) {
    let mut rep = Report::new("C11", "symcheck c11", args, RULE);
    rep.max_samples = 8;
    rep.max_violations = 60;
    rep.max_per_group = 20;

    if let Some(path) = &args.replay {
        replay(rep, path);
        return;
    }

    let max_exh_depth = args.get_u64("exhaustive", 2);
    let lv = leaves();
    let d1 = depth1(&lv);
    let n_d1 = d1.len() as u64;

    // ---- exhaustive phase: leaves, Neg(D1), Bin(op, D1, D1)
    let mut total = Acc::new();
    if max_exh_depth >= 1 {
        let n_items: u64 = if max_exh_depth >= 2 { n_d1 * 8 + 1 } else { 1 };
        let mine: Vec<u64> = (0..n_items).filter(|w| (*w as usize) % args.shards == args.shard).collect();
        let lv_len = lv.len() as u64;
        let acc = mine
            .par_iter()
            .fold(Acc::new, |mut acc, &w| {
                if w == n_items - 1 {
                    // leaves and negations; for depth <= 1 only, also the
                    // depth-1 binary expressions (they are in D1).
                    let base = w * n_d1;
                    if max_exh_depth >= 2 {
                        for (j, l) in lv.iter().enumerate() {
                            process(&mut acc, base + j as u64, l);
                        }
                        for (j, a) in d1.iter().enumerate() {
                            process(&mut acc, base + lv_len + j as u64, &E::neg(a.clone()));
                        }
                    } else {
                        for (j, a) in d1.iter().enumerate() {
                            process(&mut acc, base + j as u64, a);
                        }
                    }
                } else {
                    let a = &d1[(w / 8) as usize];
                    let op = OPS[(w % 8) as usize];
                    for (j, b) in d1.iter().enumerate() {
                        process(&mut acc, w * n_d1 + j as u64, &E::bin(op, a.clone(), b.clone()));
                    }
                }
                acc
            })
            .reduce(Acc::new, Acc::merge);
        rep.note(
            "exhaustive",
            json!({
                "max_depth": max_exh_depth,
                "leaves": lv.iter().map(|l| l.prefix()).collect::<Vec<_>>(),
                "expressions_in_space": if max_exh_depth >= 2 { lv_len + n_d1 + 8 * n_d1 * n_d1 } else { n_d1 },
                "expressions_this_shard": acc.cn.exprs,
                "complete_over_all_shards": true,
                "shard": format!("{}/{}", args.shard, args.shards),
            }),
        );
        acc.cn.emit(&mut rep, "exh_");
        total = total.merge(Acc { cn: acc.cn.clone(), nontrivial: acc.nontrivial, raw: HashMap::new(), samples: acc.samples });
        report_raw(&mut rep, acc.raw, "exhaustive");
    }

    // ---- template phase (deterministic, seed independent)
    if args.get_u64("templates", 1) != 0 {
        let batches = template_batches(args.thorough);
        let mine: Vec<(u64, Batch)> = batches.iter().copied().enumerate().map(|(i, b)| (i as u64, b)).filter(|(i, _)| (*i as usize) % args.shards == args.shard).collect();
        let acc = mine
            .par_iter()
            .fold(Acc::new, |mut acc, (bi, b)| {
                let mut j = 0u64;
                expand_batch(*b, |e| {
                    process(&mut acc, bi * 1_000_000 + j, &e);
                    j += 1;
                });
                acc
            })
            .reduce(Acc::new, Acc::merge);
        acc.cn.emit(&mut rep, "tpl_");
        rep.note("templates", json!({"batches_total": batches.len(), "batches_this_shard": mine.len(), "expressions_this_shard": acc.cn.exprs, "constant_pool": const_pool()}));
        let raw = acc.raw;
        total = total.merge(Acc { cn: acc.cn, nontrivial: acc.nontrivial, raw: HashMap::new(), samples: acc.samples });
        report_raw(&mut rep, raw, "templates");
    }

    // ---- random phase
    let n = args.budget(200_000, 10_000_000);
    let max_depth = args.get_u64("depth", 5) as usize;
    let (shard, shards, seed) = (args.shard as u64, args.shards as u64, args.seed);
    let acc = (0..n)
        .into_par_iter()
        .fold(Acc::new, |mut acc, k| {
            let i = k * shards + shard;
            let mut rng = Rng::derive(seed, 0xC11_0000_0000u64.wrapping_add(i));
            let depth = 2 + rng.below(max_depth.saturating_sub(1).max(1));
            let mut e = random_tree(&mut rng, depth.min(max_depth));
            for _ in 0..8 {
                if e.depth() > 0 {
                    break;
                }
                e = random_tree(&mut rng, depth.min(max_depth));
            }
            process(&mut acc, i, &e);
            acc
        })
        .reduce(Acc::new, Acc::merge);
    acc.cn.emit(&mut rep, "rnd_");
    rep.note("random", json!({"cases_this_shard": n, "max_depth": max_depth, "extra_constants": EXTRA_CONSTS}));
    let rnd_raw = acc.raw;
    total = total.merge(Acc { cn: acc.cn, nontrivial: acc.nontrivial, raw: HashMap::new(), samples: acc.samples });
    report_raw(&mut rep, rnd_raw, "random");

    // ---- totals
    let cn = &total.cn;
    rep.evaluations = cn.exprs;
    cn.emit(&mut rep, "");
    for h in &total.nontrivial {
        rep.nontrivial(h);
    }
    for (_, s) in total.samples {
        rep.sample(|| s);
    }

    // Evidence floors that make "held" meaningful.
    let mut missing: Vec<String> = Vec::new();
    for i in 2..11 {
        if cn.op_nodes_admissible[i] == 0 {
            missing.push(format!("no admissible expression contains {}", E::kind_name(i)));
        }
    }
    if cn.admissible_assignments == 0 {
        missing.push("no admissible assignment".to_string());
    }
    if cn.simplify_changed_expr == 0 {
        missing.push("simplify never changed an expression".to_string());
    }
    if cn.simplify_checks == 0 || cn.range_checks == 0 || cn.nonneg_checks == 0 {
        missing.push("one of the three clauses was never checked".to_string());
    }
    if cn.eval_disagrees_with_reference_not_reported + cn.eval_panicked_on_admissible_original > 0 {
        rep.note(
            "reference_vs_eval",
            json!("SymExpr::eval disagreed with the 128-bit reference on admissible assignments of ORIGINAL expressions; not part of C11 as stated, see counters"),
        );
    }
    if !missing.is_empty() && rep.n_violations() == 0 {
        rep.inconclusive = Some(missing.join("; "));
    }
    rep.finish();
}

fn replay(mut rep: Report, path: &str) {
    let w: Json = serde_json::from_str(&std::fs::read_to_string(path).expect("read replay file")).expect("replay json");
    let w = if w.get("witness").is_some() { w["witness"].clone() } else { w };
    let text = w["expr"].as_str().expect("witness.expr");
    let e = E::parse(text).expect("parse witness.expr");
    let mut acc = Acc::new();
    process(&mut acc, 0, &e);
    acc.cn.emit(&mut rep, "");
    let mut items: Vec<((Kind, u32), (u64, E))> = acc.raw.into_iter().collect();
    items.sort_by_key(|(k, _)| k.0);
    let only = w["kind"].as_str().map(|s| s.to_string());
    for ((kind, _), (_, e)) in items {
        if only.as_deref().map(|k| k == kind.name()).unwrap_or(true) {
            report_failure(&mut rep, kind, &e, &e, "replay");
        }
    }
    rep.evaluations = 1;
    rep.nontrivial(&0u8);
    rep.nontrivial(&1u8);
    rep.finish();
}
