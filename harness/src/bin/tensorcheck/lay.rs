//! Harness-side layout generation, independent of rten's own layout code.
use vcommon::naive;
use vcommon::{Json, Rng, json};

#[derive(Clone, Debug, PartialEq, Eq, Hash)]
pub struct Lay {
    pub shape: Vec<usize>,
    pub strides: Vec<usize>,
    /// Number of storage elements to allocate (>= max offset + 1).
    pub storage_len: usize,
    /// How the layout was derived: subset of "contig", "perm", "step",
    /// "bcast", "ins1".
    pub class: String,
}

impl Lay {
    pub fn numel(&self) -> usize {
        naive::numel(&self.shape)
    }

    /// Storage offsets of all elements in logical (row-major) order.
    pub fn offsets(&self) -> Vec<usize> {
        naive::indices(&self.shape)
            .iter()
            .map(|idx| idx.iter().zip(&self.strides).map(|(i, s)| i * s).sum())
            .collect()
    }

    pub fn offset_of(&self, idx: &[usize]) -> usize {
        idx.iter().zip(&self.strides).map(|(i, s)| i * s).sum()
    }

    pub fn is_broadcast(&self) -> bool {
        self.numel() > 0 && self.shape.iter().zip(&self.strides).any(|(d, s)| *d > 1 && *s == 0)
    }

    /// True if two distinct indices map to the same offset (brute force).
    pub fn overlaps(&self) -> bool {
        let mut offs = self.offsets();
        offs.sort_unstable();
        offs.windows(2).any(|w| w[0] == w[1])
    }

    pub fn is_row_major_contiguous(&self) -> bool {
        let mut product = 1;
        for (d, s) in self.shape.iter().zip(&self.strides).rev() {
            if *d == 1 {
                continue;
            }
            if *s != product {
                return false;
            }
            product *= d;
        }
        true
    }

    pub fn to_json(&self) -> Json {
        json!({"shape": self.shape, "strides": self.strides, "storage_len": self.storage_len, "class": self.class})
    }

    pub fn from_json(j: &Json) -> Lay {
        let v = |k: &str| -> Vec<usize> {
            j[k].as_array().unwrap().iter().map(|x| x.as_u64().unwrap() as usize).collect()
        };
        Lay {
            shape: v("shape"),
            strides: v("strides"),
            storage_len: j["storage_len"].as_u64().unwrap() as usize,
            class: j["class"].as_str().unwrap_or("").to_string(),
        }
    }

    pub fn sig(&self) -> String {
        format!("shape={:?},strides={:?}", self.shape, self.strides)
    }
}

pub struct LayOpts {
    pub max_rank: usize,
    pub max_dim: usize,
    pub allow_broadcast: bool,
    pub allow_zero: bool,
}

/// Generate a layout that is what one obtains from a contiguous tensor by
/// stepped slicing, permutation, (optionally) broadcasting and insertion of
/// size-1 axes - computed here, not through rten.
pub fn gen_layout(rng: &mut Rng, o: &LayOpts) -> Lay {
    let rank = if rng.chance(1, 12) { 0 } else { rng.urange(1, o.max_rank) };
    let mut class: Vec<&str> = Vec::new();

    // Logical dims and the step applied to each.
    let mut dims: Vec<usize> = (0..rank)
        .map(|_| {
            if o.allow_zero && rng.chance(1, 15) {
                0
            } else {
                rng.urange(1, o.max_dim)
            }
        })
        .collect();
    let steps: Vec<usize> = (0..rank)
        .map(|_| if rng.chance(1, 3) { rng.urange(2, 3) } else { 1 })
        .collect();
    if steps.iter().any(|s| *s > 1) {
        class.push("step");
    }
    // Allocated extent per dim in the underlying contiguous buffer.
    let extents: Vec<usize> = dims
        .iter()
        .zip(&steps)
        .map(|(d, s)| if *d == 0 { rng.urange(1, 2) } else { (d - 1) * s + 1 + rng.urange(0, 1) })
        .collect();
    let base_strides = naive::row_major_strides(&extents);
    let mut strides: Vec<usize> = base_strides.iter().zip(&steps).map(|(b, s)| b * s).collect();
    let mut storage_len = naive::numel(&extents);

    // Permute.
    if rank > 1 && rng.chance(1, 2) {
        let mut perm: Vec<usize> = (0..rank).collect();
        rng.shuffle(&mut perm);
        if perm.iter().enumerate().any(|(i, p)| i != *p) {
            class.push("perm");
        }
        dims = perm.iter().map(|&p| dims[p]).collect();
        strides = perm.iter().map(|&p| strides[p]).collect();
    }

    // Broadcast: turn some dims into stride-0 dims of a new size, or add new
    // leading stride-0 dims.
    if o.allow_broadcast && rng.chance(1, 4) {
        class.push("bcast");
        if !dims.is_empty() && rng.bool() {
            let d = rng.below(dims.len());
            if dims[d] == 1 {
                dims[d] = rng.urange(2, o.max_dim.max(2));
                strides[d] = 0;
            }
        }
        if dims.len() < o.max_rank + 1 && rng.bool() {
            dims.insert(0, rng.urange(1, 3));
            strides.insert(0, 0);
        }
    }

    // Insert size-1 axes with arbitrary strides.
    if dims.len() < o.max_rank + 1 && rng.chance(1, 4) {
        class.push("ins1");
        let pos = rng.below(dims.len() + 1);
        dims.insert(pos, 1);
        let stride = *rng.choose(&[0usize, 1, 7, 1 << 20, usize::MAX / 2]);
        strides.insert(pos, stride);
    }

    if class.is_empty() {
        class.push("contig");
    }
    // Slack at the end of the storage.
    storage_len += rng.urange(0, 2);
    if rng.chance(1, 10) && naive::numel(&dims) > 0 {
        // Tight storage: exactly max offset + 1.
        let max_off: usize = dims.iter().zip(&strides).map(|(d, s)| (d - 1) * s).sum();
        storage_len = max_off + 1;
    }

    Lay {
        shape: dims,
        strides,
        storage_len,
        class: class.join("+"),
    }
}

/// All layouts with rank <= max_rank, dims in 1..=max_dim, obtained from a
/// contiguous buffer by every permutation and steps in {1, 2}.
pub fn enumerate_layouts(max_rank: usize, max_dim: usize) -> Vec<Lay> {
    let mut out = Vec::new();
    for rank in 0..=max_rank {
        let mut shapes: Vec<Vec<usize>> = vec![vec![]];
        for _ in 0..rank {
            let mut next = Vec::new();
            for s in &shapes {
                for d in 1..=max_dim {
                    let mut s2 = s.clone();
                    s2.push(d);
                    next.push(s2);
                }
            }
            shapes = next;
        }
        let perms = permutations(rank);
        for shape in &shapes {
            for step_mask in 0..(1usize << rank) {
                let steps: Vec<usize> = (0..rank).map(|i| if step_mask >> i & 1 == 1 { 2 } else { 1 }).collect();
                // Steps on size-1 dims change nothing; skip duplicates.
                if (0..rank).any(|i| steps[i] == 2 && shape[i] == 1) {
                    continue;
                }
                let extents: Vec<usize> = shape.iter().zip(&steps).map(|(d, s)| (d - 1) * s + 1).collect();
                let base = naive::row_major_strides(&extents);
                let strided: Vec<usize> = base.iter().zip(&steps).map(|(b, s)| b * s).collect();
                for perm in &perms {
                    let dims: Vec<usize> = perm.iter().map(|&p| shape[p]).collect();
                    let strides: Vec<usize> = perm.iter().map(|&p| strided[p]).collect();
                    out.push(Lay {
                        shape: dims,
                        strides,
                        storage_len: naive::numel(&extents),
                        class: "enum".to_string(),
                    });
                }
            }
        }
    }
    out.sort_by(|a, b| (&a.shape, &a.strides).cmp(&(&b.shape, &b.strides)));
    out.dedup_by(|a, b| a.shape == b.shape && a.strides == b.strides);
    out
}

pub fn permutations(n: usize) -> Vec<Vec<usize>> {
    fn rec(cur: &mut Vec<usize>, used: &mut Vec<bool>, n: usize, out: &mut Vec<Vec<usize>>) {
        if cur.len() == n {
            out.push(cur.clone());
            return;
        }
        for i in 0..n {
            if !used[i] {
                used[i] = true;
                cur.push(i);
                rec(cur, used, n, out);
                cur.pop();
                used[i] = false;
            }
        }
    }
    let mut out = Vec::new();
    rec(&mut Vec::new(), &mut vec![false; n], n, &mut out);
    out
}
