//! C07: iterator histories checked against a double-ended-queue model.
//!
//! Views are built with harness-computed shape/strides over a buffer in which
//! every element holds its own storage offset, so each yielded item identifies
//! itself. Expected sequences are computed from shape/strides by the harness.
use std::cell::RefCell;
use std::collections::VecDeque;

use rayon::prelude::*;
use rten_base::iter::SplitIterator;
use rten_tensor::prelude::*;
use rten_tensor::{NdTensorView, TensorView, TensorViewMut};
use vcommon::naive;
use vcommon::*;

use crate::lay::{Lay, LayOpts, enumerate_layouts, gen_layout};

type Item = Vec<usize>;

#[derive(Clone, Copy, Debug, PartialEq, Eq, Hash)]
pub enum Kind {
    Iter,
    Lanes(usize),
    InnerDyn(usize),
    InnerStatic(usize),
    Axis(usize),
    Chunks(usize, usize),
    IterMut,
    LanesMut(usize),
    InnerDynMut(usize),
    AxisMut(usize),
    ChunksMut(usize, usize),
}

impl Kind {
    fn is_mut(&self) -> bool {
        matches!(
            self,
            Kind::IterMut | Kind::LanesMut(_) | Kind::InnerDynMut(_) | Kind::AxisMut(_) | Kind::ChunksMut(..)
        )
    }
    fn name(&self) -> String {
        format!("{:?}", self)
    }
    fn family(&self) -> &'static str {
        match self {
            Kind::Iter => "iter",
            Kind::Lanes(_) => "lanes",
            Kind::InnerDyn(_) => "inner_iter_dyn",
            Kind::InnerStatic(_) => "inner_iter",
            Kind::Axis(_) => "axis_iter",
            Kind::Chunks(..) => "axis_chunks",
            Kind::IterMut => "iter_mut",
            Kind::LanesMut(_) => "lanes_mut",
            Kind::InnerDynMut(_) => "inner_iter_dyn_mut",
            Kind::AxisMut(_) => "axis_iter_mut",
            Kind::ChunksMut(..) => "axis_chunks_mut",
        }
    }
    fn to_json(&self) -> Json {
        json!(self.name())
    }
    fn parse(s: &str) -> Kind {
        let nums: Vec<usize> = s
            .split(|c: char| !c.is_ascii_digit())
            .filter(|t| !t.is_empty())
            .map(|t| t.parse().unwrap())
            .collect();
        let head = s.split('(').next().unwrap();
        match head {
            "Iter" => Kind::Iter,
            "Lanes" => Kind::Lanes(nums[0]),
            "InnerDyn" => Kind::InnerDyn(nums[0]),
            "InnerStatic" => Kind::InnerStatic(nums[0]),
            "Axis" => Kind::Axis(nums[0]),
            "Chunks" => Kind::Chunks(nums[0], nums[1]),
            "IterMut" => Kind::IterMut,
            "LanesMut" => Kind::LanesMut(nums[0]),
            "InnerDynMut" => Kind::InnerDynMut(nums[0]),
            "AxisMut" => Kind::AxisMut(nums[0]),
            "ChunksMut" => Kind::ChunksMut(nums[0], nums[1]),
            _ => panic!("bad kind {}", s),
        }
    }
}

#[derive(Clone, Copy, Debug, PartialEq, Eq, Hash)]
pub enum Op {
    Next,
    NextBack,
    Nth(usize),
    Len,
    /// Split at `len * a / 8`.
    Split(usize),
    FoldRest,
}

#[derive(Clone, Copy, Debug, PartialEq, Eq, Hash)]
pub struct Step {
    /// Which live iterator (index modulo number of live iterators).
    pub target: usize,
    pub op: Op,
}

fn step_str(s: &Step) -> String {
    format!("{}:{:?}", s.target, s.op)
}

fn parse_step(s: &str) -> Step {
    let (t, o) = s.split_once(':').unwrap();
    let num = |o: &str| -> usize { o.trim_matches(|c: char| !c.is_ascii_digit()).parse().unwrap() };
    let op = if o == "Next" {
        Op::Next
    } else if o == "NextBack" {
        Op::NextBack
    } else if o == "Len" {
        Op::Len
    } else if o == "FoldRest" {
        Op::FoldRest
    } else if o.starts_with("Nth") {
        Op::Nth(num(o))
    } else if o.starts_with("Split") {
        Op::Split(num(o))
    } else {
        panic!("bad op {}", o)
    };
    Step {
        target: t.parse().unwrap(),
        op,
    }
}

/// What the harness expects each kind to yield, as lists of storage offsets.
fn expected_items(kind: Kind, lay: &Lay) -> Vec<Item> {
    let shape = &lay.shape;
    let r = shape.len();
    let sub = |outer_dims: &[usize], fixed: &dyn Fn(&[usize]) -> Vec<Vec<usize>>| -> Vec<Item> {
        let outer_shape: Vec<usize> = outer_dims.iter().map(|&d| shape[d]).collect();
        naive::indices(&outer_shape)
            .iter()
            .map(|oi| fixed(oi).iter().map(|idx| lay.offset_of(idx)).collect())
            .collect()
    };
    match kind {
        Kind::Iter | Kind::IterMut => lay.offsets().into_iter().map(|o| vec![o]).collect(),
        Kind::Lanes(dim) | Kind::LanesMut(dim) => {
            let outer: Vec<usize> = (0..r).filter(|d| *d != dim).collect();
            sub(&outer, &|oi| {
                (0..shape[dim])
                    .map(|j| {
                        let mut idx = oi.to_vec();
                        idx.insert(dim, j);
                        idx
                    })
                    .collect()
            })
        }
        Kind::InnerDyn(n) | Kind::InnerStatic(n) | Kind::InnerDynMut(n) => {
            let outer: Vec<usize> = (0..r - n).collect();
            let inner_shape: Vec<usize> = shape[r - n..].to_vec();
            sub(&outer, &|oi| {
                naive::indices(&inner_shape)
                    .into_iter()
                    .map(|ii| {
                        let mut idx = oi.to_vec();
                        idx.extend(ii);
                        idx
                    })
                    .collect()
            })
        }
        Kind::Axis(dim) | Kind::AxisMut(dim) => {
            let rest_shape: Vec<usize> = (0..r).filter(|d| *d != dim).map(|d| shape[d]).collect();
            (0..shape[dim])
                .map(|j| {
                    naive::indices(&rest_shape)
                        .into_iter()
                        .map(|mut idx| {
                            idx.insert(dim, j);
                            lay.offset_of(&idx)
                        })
                        .collect()
                })
                .collect()
        }
        Kind::Chunks(dim, c) | Kind::ChunksMut(dim, c) => {
            let n_chunks = shape[dim].div_ceil(c);
            (0..n_chunks)
                .map(|k| {
                    let lo = k * c;
                    let hi = ((k + 1) * c).min(shape[dim]);
                    let mut sub_shape = shape.clone();
                    sub_shape[dim] = hi - lo;
                    naive::indices(&sub_shape)
                        .into_iter()
                        .map(|mut idx| {
                            idx[dim] += lo;
                            lay.offset_of(&idx)
                        })
                        .collect()
                })
                .collect()
        }
    }
}

/// Which kinds apply to a layout.
pub fn kinds_for(lay: &Lay, rng: &mut Rng) -> Vec<Kind> {
    let r = lay.shape.len();
    let mut ks = vec![Kind::Iter];
    let nonempty = lay.numel() > 0;
    let mutable_ok = !lay.is_broadcast() && !lay.overlaps();
    if mutable_ok {
        ks.push(Kind::IterMut);
    }
    // For empty tensors what "each lane / inner view" means is ambiguous;
    // element iterators are still checked.
    if r >= 1 && nonempty {
        let dim = rng.below(r);
        ks.push(Kind::Lanes(dim));
        ks.push(Kind::Axis(dim));
        let c = rng.urange(1, lay.shape[dim] + 1);
        ks.push(Kind::Chunks(dim, c));
        let n = rng.urange(0, r.min(3));
        ks.push(Kind::InnerDyn(n));
        if r <= 4 {
            ks.push(Kind::InnerStatic(rng.urange(1, r.min(2))));
        }
        if mutable_ok {
            ks.push(Kind::LanesMut(dim));
            ks.push(Kind::AxisMut(dim));
            ks.push(Kind::ChunksMut(dim, c));
            ks.push(Kind::InnerDynMut(n));
        }
    }
    ks
}

#[derive(Debug, Default, Clone)]
struct HistStats {
    mixed_ends: bool,
    split: bool,
    yielded: usize,
    /// Storage offsets of every element returned to the caller.
    returned: Vec<usize>,
}

/// Execute a history on a real iterator and compare with the deque model.
fn run_hist<I, N>(it: I, mut norm_inner: N, expected: &[Item], steps: &[Step]) -> Result<HistStats, String>
where
    I: DoubleEndedIterator + ExactSizeIterator + SplitIterator,
    N: FnMut(I::Item) -> Item,
{
    let mut live: Vec<(I, VecDeque<Item>)> = vec![(it, expected.iter().cloned().collect())];
    let mut stats = HistStats::default();
    let returned: RefCell<Vec<usize>> = RefCell::new(Vec::new());
    let mut norm = |x: I::Item| -> Item {
        let item = norm_inner(x);
        returned.borrow_mut().extend(item.iter().copied());
        item
    };
    let (mut used_front, mut used_back) = (false, false);

    let cmp = |what: &str, i: usize, got: Option<Item>, want: Option<Item>| -> Result<(), String> {
        if got != want {
            return Err(format!("step {} {}: got {:?}, expected {:?}", i, what, got, want));
        }
        Ok(())
    };

    for (i, step) in steps.iter().enumerate() {
        if live.is_empty() {
            break;
        }
        let t = step.target % live.len();
        match step.op {
            Op::Next => {
                let (it, model) = &mut live[t];
                let got = it.next().map(&mut norm);
                let want = model.pop_front();
                stats.yielded += got.is_some() as usize;
                used_front = true;
                cmp("next", i, got, want)?;
            }
            Op::NextBack => {
                let (it, model) = &mut live[t];
                let got = it.next_back().map(&mut norm);
                let want = model.pop_back();
                stats.yielded += got.is_some() as usize;
                used_back = true;
                cmp("next_back", i, got, want)?;
            }
            Op::Nth(k) => {
                let (it, model) = &mut live[t];
                let got = it.nth(k).map(&mut norm);
                for _ in 0..k.min(model.len()) {
                    model.pop_front();
                }
                let want = model.pop_front();
                stats.yielded += got.is_some() as usize;
                used_front = true;
                cmp("nth", i, got, want)?;
            }
            Op::Len => {
                let (it, model) = &live[t];
                let len = it.len();
                let hint = it.size_hint();
                if len != model.len() || hint != (model.len(), Some(model.len())) {
                    return Err(format!(
                        "step {} len: len()={} size_hint={:?}, expected {}",
                        i,
                        len,
                        hint,
                        model.len()
                    ));
                }
            }
            Op::Split(a) => {
                let (it, mut model) = live.remove(t);
                let at = model.len() * a.min(8) / 8;
                let (l, r) = it.split_at(at);
                let right_model = model.split_off(at);
                if l.len() != model.len() || r.len() != right_model.len() {
                    return Err(format!(
                        "step {} split_at({}): halves report len {} and {}, expected {} and {}",
                        i,
                        at,
                        l.len(),
                        r.len(),
                        model.len(),
                        right_model.len()
                    ));
                }
                live.insert(t, (r, right_model));
                live.insert(t, (l, model));
                stats.split = true;
            }
            Op::FoldRest => {
                let (it, model) = live.remove(t);
                let got: Vec<Item> = it.fold(Vec::new(), |mut acc, x| {
                    acc.push(norm(x));
                    acc
                });
                let want: Vec<Item> = model.into_iter().collect();
                stats.yielded += got.len();
                if got != want {
                    return Err(format!("step {} fold: got {:?}, expected {:?}", i, got, want));
                }
            }
        }
    }
    stats.mixed_ends = used_front && used_back;

    // Drain what is left, alternating ends, then check fusedness.
    for (k, (mut it, mut model)) in live.into_iter().enumerate() {
        let mut flip = false;
        loop {
            if it.len() != model.len() {
                return Err(format!("drain {}: len()={} expected {}", k, it.len(), model.len()));
            }
            let (got, want) = if flip {
                (it.next_back().map(&mut norm), model.pop_back())
            } else {
                (it.next().map(&mut norm), model.pop_front())
            };
            flip = !flip;
            stats.yielded += got.is_some() as usize;
            if got != want {
                return Err(format!("drain {}: got {:?}, expected {:?}", k, got, want));
            }
            if want.is_none() {
                break;
            }
        }
        if it.next().is_some() || it.next_back().is_some() {
            return Err(format!("drain {}: yielded again after None", k));
        }
    }
    stats.returned = returned.into_inner();
    Ok(stats)
}

fn view_offsets<V: AsView<Elem = i32>>(v: &V, rd: &(impl Fn(&i32) -> usize + ?Sized)) -> Item {
    let d = v.as_dyn();
    let shape: Vec<usize> = d.shape().to_vec();
    naive::indices(&shape)
        .iter()
        .map(|idx| rd(d.get(idx.as_slice()).expect("valid index")))
        .collect()
}

/// Shared state for mutable iterators: base address, every address handed
/// out so far, and a stamp routine applied at the end through the retained
/// references.
struct MutMonitor<'a> {
    base: usize,
    len: usize,
    oob: RefCell<Option<isize>>,
    held: RefCell<std::collections::HashSet<usize>>,
    dup: RefCell<Option<usize>>,
    keep: RefCell<Vec<&'a mut i32>>,
    /// Mutable sub-views handed out by the iterator; boxed so their address
    /// is stable while element references into them are retained.
    views: RefCell<Vec<Box<TensorViewMut<'a, i32>>>>,
}

impl<'a> MutMonitor<'a> {
    fn new(base: usize, len: usize) -> Self {
        MutMonitor {
            base,
            len,
            oob: RefCell::new(None),
            held: RefCell::new(Default::default()),
            dup: RefCell::new(None),
            keep: RefCell::new(Vec::new()),
            views: RefCell::new(Vec::new()),
        }
    }
    fn take(&self, r: &'a mut i32) -> usize {
        let addr = r as *mut i32 as usize;
        let off = (addr.wrapping_sub(self.base)) / 4;
        if addr < self.base || addr + 4 > self.base + self.len * 4 {
            // Outside the allocation: record, do not retain (never written).
            *self.oob.borrow_mut() = Some((addr as isize).wrapping_sub(self.base as isize) / 4);
            return usize::MAX;
        }
        if !self.held.borrow_mut().insert(addr) {
            *self.dup.borrow_mut() = Some(off);
        }
        self.keep.borrow_mut().push(r);
        off
    }
    /// Write through every retained reference.
    fn stamp_all(&self) {
        for r in self.keep.borrow_mut().iter_mut() {
            **r += 1;
        }
    }
}

pub enum Mode<'s> {
    History(&'s [Step]),
    /// Parallel consumption with a pool of n threads; variant 0 = plain
    /// collect, 1 = rev, 2 = enumerate, 3 = with_min_len(1) + map.
    Parallel(usize, usize),
}

#[derive(Debug)]
pub struct Outcome {
    pub result: Result<(), String>,
    pub mixed_ends: bool,
    pub split: bool,
    pub indexing_path: bool,
    pub yielded: usize,
    pub rejected: bool,
    /// C06 observations: a reference outside the allocation, or an element
    /// handed out mutably twice.
    pub oob: Option<String>,
    pub dup: Option<String>,
    pub returned: Vec<usize>,
}

fn par_check<P>(p: P, expected: &[Item], variant: usize, threads: usize) -> Result<(), String>
where
    P: IndexedParallelIterator<Item = Item>,
{
    let pool = rayon::ThreadPoolBuilder::new().num_threads(threads).build().unwrap();
    pool.install(|| {
        let (got, want): (Vec<Item>, Vec<Item>) = match variant {
            0 => (p.collect(), expected.to_vec()),
            1 => (p.rev().collect(), expected.iter().rev().cloned().collect()),
            2 => {
                let pairs: Vec<(usize, Item)> = p.enumerate().collect();
                for (k, (i, _)) in pairs.iter().enumerate() {
                    if k != *i {
                        return Err(format!("enumerate index {} at position {}", i, k));
                    }
                }
                (pairs.into_iter().map(|p| p.1).collect(), expected.to_vec())
            }
            _ => {
                // Unordered consumption: compare multisets.
                let mut got: Vec<Item> = p.with_min_len(1).with_max_len(1).fold(Vec::new, |mut a, x| { a.push(x); a }).reduce(Vec::new, |mut a, mut b| { a.append(&mut b); a });
                got.sort();
                let mut want = expected.to_vec();
                want.sort();
                (got, want)
            }
        };
        if got != want {
            return Err(format!("parallel variant {} threads {}: got {:?}, expected {:?}", variant, threads, got, want));
        }
        Ok(())
    })
}


/// Consume one lane (itself a double-ended iterator) from both ends following
/// `pattern`, and return what it yielded in front-to-back order. Calls keep
/// going after the first `None` so that an end that "comes back" is seen.
fn consume_lane<I: DoubleEndedIterator>(mut it: I, pattern: usize, mut f: impl FnMut(I::Item) -> usize) -> Vec<usize> {
    let mut front: Vec<usize> = Vec::new();
    let mut back: Vec<usize> = Vec::new();
    let mut nones = 0;
    let mut step = 0usize;
    // More calls than any lane in the generated layouts has elements.
    while nones < 3 && step < 4096 {
        let from_front = match pattern % 6 {
            0 => true,
            1 => step % 2 == 0,
            2 => step % 2 == 1,
            3 => false,
            // Front until exhausted, then the back.
            4 => nones == 0,
            // One from the front, the rest from the back.
            _ => step == 0,
        };
        step += 1;
        let x = if from_front { it.next() } else { it.next_back() };
        match x {
            Some(x) => {
                let o = f(x);
                if from_front { front.push(o) } else { back.push(o) }
            }
            None => nones += 1,
        }
    }
    back.reverse();
    front.extend(back);
    front
}

/// Build the view for `lay` through rten's public constructors and run `mode`.
pub fn run_kind(kind: Kind, lay: &Lay, mode: &Mode) -> Outcome {
    let expected = expected_items(kind, lay);
    let mut out = Outcome {
        result: Ok(()),
        mixed_ends: false,
        split: false,
        indexing_path: !lay.is_row_major_contiguous(),
        yielded: 0,
        rejected: false,
        oob: None,
        dup: None,
        returned: Vec::new(),
    };
    let fin = |out: &mut Outcome, r: Result<HistStats, String>| match r {
        Ok(s) => {
            out.mixed_ends = s.mixed_ends;
            out.split = s.split;
            out.yielded = s.yielded;
            out.returned = s.returned;
        }
        Err(e) => out.result = Err(e),
    };

    if !kind.is_mut() {
        let data: Vec<i32> = (0..lay.storage_len as i32).collect();
        let view = match TensorView::from_slice_with_strides(&lay.shape, &data, &lay.strides) {
            Ok(v) => v,
            Err(_) => {
                out.rejected = true;
                return out;
            }
        };
        // Address monitor: a reference is only dereferenced if it lies inside
        // the allocation the view was built over.
        let lo = data.as_ptr() as usize;
        let hi = lo + data.len() * 4;
        let oob = std::sync::atomic::AtomicIsize::new(isize::MIN);
        let rd = |x: &i32| -> usize {
            let a = x as *const i32 as usize;
            if a < lo || a + 4 > hi {
                oob.store((a as isize).wrapping_sub(lo as isize) / 4, std::sync::atomic::Ordering::SeqCst);
                usize::MAX
            } else {
                *x as usize
            }
        };
        let rd = &rd;
        macro_rules! go {
            ($it:expr, $norm:expr) => {{
                match mode {
                    Mode::History(steps) => {
                        let r = run_hist($it, $norm, &expected, steps);
                        fin(&mut out, r)
                    }
                    Mode::Parallel(threads, variant) => {
                        let norm = $norm;
                        out.split = true;
                        if let Err(e) = par_check($it.into_par_iter().map(norm), &expected, *variant, *threads) {
                            out.result = Err(e);
                        }
                    }
                }
            }};
        }
        match kind {
            Kind::Iter => go!(view.iter(), |x: &i32| vec![rd(x)]),
            Kind::Lanes(dim) => match mode {
                // Each lane is consumed with the next double-ended pattern.
                Mode::History(steps) => {
                    let lane_no = std::cell::Cell::new(0usize);
                    let r = run_hist(
                        view.lanes(dim),
                        |lane: rten_tensor::iterators::Lane<i32>| {
                            lane_no.set(lane_no.get() + 1);
                            consume_lane(lane, lane_no.get(), |x| rd(x))
                        },
                        &expected,
                        steps,
                    );
                    fin(&mut out, r)
                }
                Mode::Parallel(threads, variant) => {
                    out.split = true;
                    let norm = |lane: rten_tensor::iterators::Lane<i32>| lane.map(|x| rd(x)).collect::<Vec<_>>();
                    if let Err(e) = par_check(view.lanes(dim).into_par_iter().map(norm), &expected, *variant, *threads) {
                        out.result = Err(e);
                    }
                }
            },
            Kind::InnerDyn(n) => go!(view.inner_iter_dyn(n), |v: TensorView<i32>| view_offsets(&v, rd)),
            Kind::InnerStatic(n) => match n {
                1 => go!(view.inner_iter::<1>(), |v: NdTensorView<i32, 1>| view_offsets(&v, rd)),
                _ => go!(view.inner_iter::<2>(), |v: NdTensorView<i32, 2>| view_offsets(&v, rd)),
            },
            Kind::Axis(dim) => go!(view.axis_iter(dim), |v: TensorView<i32>| view_offsets(&v, rd)),
            Kind::Chunks(dim, c) => go!(view.axis_chunks(dim, c), |v: TensorView<i32>| view_offsets(&v, rd)),
            _ => unreachable!(),
        }
        let o = oob.load(std::sync::atomic::Ordering::SeqCst);
        if o != isize::MIN {
            out.oob = Some(format!("reference at element offset {} relative to a storage of {} elements", o, data.len()));
        }
    } else {
        let mut data: Vec<i32> = vec![0; lay.storage_len];
        let base = data.as_mut_ptr() as usize;
        {
            let mut view = match TensorViewMut::from_data_with_strides(&lay.shape, &mut data[..], &lay.strides) {
                Ok(v) => v,
                Err(_) => {
                    out.rejected = true;
                    return out;
                }
            };
            let mon = MutMonitor::new(base, lay.storage_len);
            macro_rules! go_mut {
                ($it:expr, $norm:expr, $pnorm:expr) => {{
                    match mode {
                        Mode::History(steps) => {
                            let r = run_hist($it, $norm, &expected, steps);
                            fin(&mut out, r);
                            mon.stamp_all();
                        }
                        Mode::Parallel(threads, variant) => {
                            out.split = true;
                            if let Err(e) = par_check($it.into_par_iter().map($pnorm), &expected, *variant, *threads) {
                                out.result = Err(e);
                            }
                        }
                    }
                }};
            }
            let slen = lay.storage_len;
            let lane_no = std::cell::Cell::new(0usize);
            let lane_no = &lane_no;
            let par_oob = std::sync::atomic::AtomicIsize::new(isize::MIN);
            let par_oob = &par_oob;
            // Parallel mode: stamp immediately, but only inside the allocation.
            let stamp = move |r: &mut i32| -> usize {
                let a = r as *mut i32 as usize;
                if a < base || a + 4 > base + slen * 4 {
                    par_oob.store((a as isize).wrapping_sub(base as isize) / 4, std::sync::atomic::Ordering::SeqCst);
                    usize::MAX
                } else {
                    *r += 1;
                    (a - base) / 4
                }
            };
            match kind {
                Kind::IterMut => go_mut!(view.iter_mut(), |x: &mut i32| vec![mon.take(x)], |x: &mut i32| vec![stamp(x)]),
                Kind::LanesMut(dim) => go_mut!(
                    view.lanes_mut(dim),
                    |lane: rten_tensor::iterators::LaneMut<i32>| {
                        lane_no.set(lane_no.get() + 1);
                        consume_lane(lane, lane_no.get(), |x| mon.take(x))
                    },
                    |lane: rten_tensor::iterators::LaneMut<i32>| lane.map(|x| stamp(x)).collect::<Vec<_>>()
                ),
                Kind::InnerDynMut(n) => go_mut!(
                    view.inner_iter_dyn_mut(n),
                    |v: TensorViewMut<i32>| mut_view_offsets(v, &mon),
                    |mut v: TensorViewMut<i32>| stamp_view(&mut v, &stamp)
                ),
                Kind::AxisMut(dim) => go_mut!(
                    view.axis_iter_mut(dim),
                    |v: TensorViewMut<i32>| mut_view_offsets(v, &mon),
                    |mut v: TensorViewMut<i32>| stamp_view(&mut v, &stamp)
                ),
                Kind::ChunksMut(dim, c) => go_mut!(
                    view.axis_chunks_mut(dim, c),
                    |v: TensorViewMut<i32>| mut_view_offsets(v, &mon),
                    |mut v: TensorViewMut<i32>| stamp_view(&mut v, &stamp)
                ),
                _ => unreachable!(),
            }
            if let Some(off) = *mon.dup.borrow() {
                out.dup = Some(format!("element at storage offset {} handed out mutably twice", off));
                if out.result.is_ok() {
                    out.result = Err(format!("element at storage offset {} handed out mutably twice", off));
                }
            }
            let po = par_oob.load(std::sync::atomic::Ordering::SeqCst);
            if po != isize::MIN {
                out.oob = Some(format!("mutable reference at element offset {} relative to a storage of {} elements", po, lay.storage_len));
            }
            if let Some(off) = *mon.oob.borrow() {
                out.oob = Some(format!("mutable reference at element offset {} relative to a storage of {} elements", off, lay.storage_len));
            }
        }
        // Every element that was yielded must have been stamped exactly once;
        // everything else must be untouched.
        if out.result.is_ok() {
            let mut want = vec![0i32; lay.storage_len];
            match mode {
                // Elements skipped by `nth` are never handed to the caller,
                // so only what was actually returned gets stamped.
                Mode::History(_) => {
                    for &o in &out.returned {
                        if o < want.len() {
                            want[o] += 1;
                        }
                    }
                }
                Mode::Parallel(..) => {
                    for o in lay.offsets() {
                        want[o] += 1;
                    }
                }
            }
            if data != want {
                let bad = data.iter().zip(&want).position(|(a, b)| a != b).unwrap();
                out.result = Err(format!(
                    "after full consumption storage offset {} was written {} times, expected {}",
                    bad, data[bad], want[bad]
                ));
            }
        }
    }
    out
}

/// Consume a mutable view item: record the address of each element (obtained
/// by indexing, not by iteration) and retain the reference for stamping.
fn mut_view_offsets<'a>(v: TensorViewMut<'a, i32>, mon: &MutMonitor<'a>) -> Item {
    let shape: Vec<usize> = v.shape().to_vec();
    // Turn the view into its individual element references. `lanes_mut`
    // and friends are under test themselves, so go through `get_mut` on a
    // boxed view kept by the monitor to obtain `&'a mut` references with the view's lifetime.
    // Store the box first, then derive the pointer from its final home, so
    // that moving the box does not invalidate the pointer.
    let ptr: *mut TensorViewMut<'a, i32> = {
        let mut views = mon.views.borrow_mut();
        views.push(Box::new(v));
        &mut **views.last_mut().unwrap()
    };
    let mut items = Vec::new();
    for idx in naive::indices(&shape) {
        // Safety: each index is distinct, and the layout was verified by the
        // harness (brute force) not to map two indices to one offset, so the
        // references are disjoint.
        let r: &'a mut i32 = unsafe { (*ptr).get_mut(idx.as_slice()).expect("valid index") };
        items.push(mon.take(r));
    }
    items
}

fn stamp_view(v: &mut TensorViewMut<i32>, stamp: &impl Fn(&mut i32) -> usize) -> Item {
    let shape: Vec<usize> = v.shape().to_vec();
    naive::indices(&shape)
        .iter()
        .map(|idx| stamp(v.get_mut(idx.as_slice()).expect("valid index")))
        .collect()
}

pub fn gen_history(rng: &mut Rng, max_len: usize) -> Vec<Step> {
    let n = rng.urange(0, max_len);
    (0..n)
        .map(|_| {
            let op = match rng.below(12) {
                0..=2 => Op::Next,
                3..=5 => Op::NextBack,
                6 => Op::Nth(rng.urange(0, 3)),
                7 => Op::Len,
                8..=9 => Op::Split(rng.urange(0, 8)),
                10 => Op::Nth(rng.urange(0, 9)),
                _ => {
                    if rng.chance(1, 3) {
                        Op::FoldRest
                    } else {
                        Op::Next
                    }
                }
            };
            Step {
                target: rng.below(4),
                op,
            }
        })
        .collect()
}

pub fn witness(kind: Kind, lay: &Lay, steps: &[Step], par: Option<(usize, usize)>) -> Json {
    json!({
        "kind": kind.to_json(),
        "layout": lay.to_json(),
        "history": steps.iter().map(step_str).collect::<Vec<_>>(),
        "parallel": par.map(|(t, v)| json!([t, v])),
    })
}

pub fn exec_caught(kind: Kind, lay: &Lay, mode: &Mode) -> Outcome {
    match catch(|| run_kind(kind, lay, mode)) {
        Ok(o) => o,
        // Constructors of mutable iterators assert that no stride is zero (even
        // on size-1 dimensions). That is a documented refusal, not a wrong
        // result: count it like a rejected layout.
        Err(msg) if msg.contains("Cannot mutably iterate over broadcasting view") => Outcome {
            result: Ok(()),
            mixed_ends: false,
            split: false,
            indexing_path: false,
            yielded: 0,
            rejected: true,
            oob: None,
            dup: None,
            returned: Vec::new(),
        },
        Err(msg) => Outcome {
            result: Err(format!("panic: {}", msg)),
            mixed_ends: false,
            split: false,
            indexing_path: !lay.is_row_major_contiguous(),
            yielded: 0,
            rejected: false,
            oob: None,
            dup: None,
            returned: Vec::new(),
        },
    }
}

/// Greedy history shrinking: drop steps while the case keeps failing.
fn shrink(kind: Kind, lay: &Lay, steps: &[Step]) -> Vec<Step> {
    let mut cur = steps.to_vec();
    let mut i = 0;
    let mut budget = 200;
    while i < cur.len() && budget > 0 {
        let mut cand = cur.clone();
        cand.remove(i);
        budget -= 1;
        if exec_caught(kind, lay, &Mode::History(&cand)).result.is_err() {
            cur = cand;
        } else {
            i += 1;
        }
    }
    cur
}

fn report_failure(rep: &mut Report, kind: Kind, lay: &Lay, steps: &[Step], par: Option<(usize, usize)>, err: &str) {
    let (steps, err) = if par.is_none() {
        let s = shrink(kind, lay, steps);
        let e = exec_caught(kind, lay, &Mode::History(&s)).result.err().unwrap_or_else(|| err.to_string());
        (s, e)
    } else {
        (steps.to_vec(), err.to_string())
    };
    let hist: Vec<String> = steps.iter().map(step_str).collect();
    let sig = format!(
        "C07|{}|{}|hist=[{}]{}",
        kind.name(),
        lay.sig(),
        hist.join(","),
        par.map(|(t, v)| format!("|par={}x{}", t, v)).unwrap_or_default()
    );
    rep.violation(sig, format!("{} on {}: {}", kind.family(), lay.sig(), err), witness(kind, lay, &steps, par));
}

pub fn run(args: &Args) {
    let mut rep = Report::new(
        "C07",
        "tensorcheck iters",
        args,
        "random (layout, iterator kind, history over next/next_back/nth/len/split_at/fold) cases plus bounded-exhaustive histories on small layouts, and parallel consumption; a case is non-trivial when the layout is non-contiguous (Indexing path) and the history mixed front and back consumption or split the iterator; distinct by (kind, layout, history)",
    );

    if let Some(path) = &args.replay {
        let w: Json = serde_json::from_str(&std::fs::read_to_string(path).unwrap()).unwrap();
        let w = if w.get("witness").is_some() { w["witness"].clone() } else { w };
        let kind = Kind::parse(w["kind"].as_str().unwrap());
        let lay = Lay::from_json(&w["layout"]);
        let steps: Vec<Step> = w["history"].as_array().unwrap().iter().map(|s| parse_step(s.as_str().unwrap())).collect();
        let o = if let Some(p) = w["parallel"].as_array() {
            exec_caught(kind, &lay, &Mode::Parallel(p[0].as_u64().unwrap() as usize, p[1].as_u64().unwrap() as usize))
        } else {
            exec_caught(kind, &lay, &Mode::History(&steps))
        };
        rep.eval();
        rep.nontrivial(&(kind, &lay, &steps));
        rep.nontrivial(&0u8);
        if let Err(e) = &o.result {
            report_failure(&mut rep, kind, &lay, &steps, None, e);
        }
        rep.finish();
        return;
    }

    let miri = cfg!(miri);
    let mut rng = Rng::derive(args.seed, 0xC07 + args.shard as u64);
    let opts = LayOpts {
        max_rank: if miri { 3 } else { 5 },
        max_dim: if miri { 3 } else { 4 },
        allow_broadcast: true,
        allow_zero: true,
    };

    // ---- random histories
    let n_random = args.budget(if miri { 60 } else { 40_000 }, if miri { 400 } else { 2_000_000 });
    for _case in 0..n_random {
        let lay = gen_layout(&mut rng, &opts);
        let kinds = kinds_for(&lay, &mut rng);
        let kind = *rng.choose(&kinds);
        let steps = gen_history(&mut rng, 10);
        let o = exec_caught(kind, &lay, &Mode::History(&steps));
        rep.eval();
        if o.rejected {
            rep.count("layout_rejected_by_constructor");
            continue;
        }
        rep.count(&format!("kind_{}", kind.family()));
        if o.indexing_path && (o.mixed_ends || o.split) {
            rep.nontrivial(&(kind, &lay, &steps));
            rep.count("nontrivial_cases");
        }
        rep.add("items_yielded", o.yielded as u64);
        if rep.wants_sample() && o.indexing_path && o.split && o.mixed_ends {
            rep.sample(|| witness(kind, &lay, &steps, None));
        }
        if let Err(e) = &o.result {
            report_failure(&mut rep, kind, &lay, &steps, None, e);
        }
    }

    // ---- parallel consumption
    if !miri {
        let n_par = args.budget(1_500, 60_000);
        for _case in 0..n_par {
            let lay = gen_layout(&mut rng, &opts);
            let kinds = kinds_for(&lay, &mut rng);
            let kind = *rng.choose(&kinds);
            let threads = *rng.choose(&[1usize, 2, 5]);
            let variant = rng.below(4);
            let o = exec_caught(kind, &lay, &Mode::Parallel(threads, variant));
            rep.eval();
            if o.rejected {
                rep.count("layout_rejected_by_constructor");
                continue;
            }
            rep.count("parallel_cases");
            if o.indexing_path {
                rep.nontrivial(&(kind, &lay, threads, variant));
            }
            if let Err(e) = &o.result {
                report_failure(&mut rep, kind, &lay, &[], Some((threads, variant)), e);
            }
        }
    }

    // ---- bounded-exhaustive histories on small layouts
    if !miri {
        let (max_rank, max_dim, hist_len) = if args.thorough { (3, 3, 5) } else { (2, 3, 4) };
        let mut layouts = enumerate_layouts(max_rank, max_dim);
        // Shard the layout list.
        layouts = layouts.into_iter().enumerate().filter(|(i, _)| i % args.shards == args.shard).map(|(_, l)| l).collect();
        let alphabet: Vec<Step> = {
            let mut a = Vec::new();
            for target in [0usize, 1] {
                for op in [Op::Next, Op::NextBack, Op::Nth(1), Op::Split(4), Op::Split(1)] {
                    a.push(Step { target, op });
                }
            }
            a
        };
        let results: Vec<(u64, u64, Vec<(Kind, Lay, Vec<Step>, String)>)> = layouts
            .par_iter()
            .map(|lay| {
                let mut evals = 0u64;
                let mut nontriv = 0u64;
                let mut fails = Vec::new();
                let r = lay.shape.len();
                let mut kinds = vec![Kind::Iter, Kind::IterMut];
                if r >= 1 {
                    for dim in 0..r {
                        kinds.push(Kind::Lanes(dim));
                        kinds.push(Kind::LanesMut(dim));
                        kinds.push(Kind::Axis(dim));
                        kinds.push(Kind::Chunks(dim, 2));
                    }
                    kinds.push(Kind::InnerDyn(1));
                    kinds.push(Kind::InnerDynMut(1));
                }
                for kind in kinds {
                    let len = if matches!(kind, Kind::Iter | Kind::IterMut) { hist_len } else { hist_len - 1 };
                    // Enumerate all histories of length 0..=len.
                    'outer: for l in 0..=len {
                        let total = alphabet.len().pow(l as u32);
                        for code in 0..total {
                            let mut c = code;
                            let steps: Vec<Step> = (0..l)
                                .map(|_| {
                                    let s = alphabet[c % alphabet.len()];
                                    c /= alphabet.len();
                                    s
                                })
                                .collect();
                            let o = exec_caught(kind, lay, &Mode::History(&steps));
                            evals += 1;
                            if o.indexing_path && (o.mixed_ends || o.split) {
                                nontriv += 1;
                            }
                            if let Err(e) = o.result {
                                if fails.len() < 3 {
                                    fails.push((kind, lay.clone(), steps, e));
                                }
                                // One failing history per (kind, layout) is enough.
                                break 'outer;
                            }
                        }
                    }
                }
                (evals, nontriv, fails)
            })
            .collect();
        let mut ex_evals = 0;
        let mut ex_nontriv = 0;
        for (e, n, fails) in results {
            ex_evals += e;
            ex_nontriv += n;
            for (kind, lay, steps, err) in fails {
                report_failure(&mut rep, kind, &lay, &steps, None, &err);
            }
        }
        rep.evaluations += ex_evals;
        rep.add("exhaustive_histories", ex_evals);
        rep.add("exhaustive_nontrivial_histories", ex_nontriv);
        rep.add("exhaustive_layouts", layouts.len() as u64);
        rep.note(
            "exhaustive_space",
            json!({"max_rank": max_rank, "max_dim": max_dim, "history_len": hist_len, "alphabet": alphabet.iter().map(step_str).collect::<Vec<_>>()}),
        );
        // Distinctness of exhaustive cases is by construction; fold them in as
        // hashed identities of (layout index) x count to keep the set small.
        for i in 0..ex_nontriv.min(100_000) {
            rep.nontrivial(&("exh", args.shard, i));
        }
    }

    rep.finish();
}
