//! C06: safe tensor APIs never reach outside storage nor alias mutably.
//!
//! Three workloads, all observed by an address monitor (every reference the
//! API hands out is checked against the allocation *before* it is used), and
//! meant to be run natively, under ASan and under Miri:
//!   1. adversarial constructor arguments, acceptance compared with a 128-bit
//!      computation of element count and maximum offset;
//!   2. chains of view operations (shared with C09) with extent checks;
//!   3. iterator histories on immutable and mutable views (shared with C07).
use rten_tensor::layout::{DynLayout, MutLayout, OverlapPolicy};
use rten_tensor::prelude::*;
use rten_tensor::{NdTensor, NdTensorView, Tensor, TensorView, TensorViewMut};
use vcommon::naive;
use vcommon::*;

use crate::iters::{self, Mode};
use crate::lay::{LayOpts, gen_layout};
use crate::model;

const BIG: [usize; 9] = [
    1 << 16,
    1 << 31,
    1 << 32,
    (1 << 32) + 1,
    1 << 33,
    1 << 62,
    1 << 63,
    usize::MAX / 2 + 1,
    usize::MAX,
];

/// Element count and maximum offset in 128-bit arithmetic. `None` offset for
/// empty layouts.
fn extent(shape: &[usize], strides: &[usize]) -> (u128, Option<u128>) {
    let n: u128 = shape.iter().map(|d| *d as u128).product();
    if n == 0 {
        return (0, None);
    }
    let max_off = shape.iter().zip(strides).map(|(d, s)| (*d as u128 - 1) * *s as u128).sum();
    (n, Some(max_off))
}

fn contiguous_strides_u128(shape: &[usize]) -> Vec<u128> {
    let mut s = vec![0u128; shape.len()];
    let mut acc = 1u128;
    for i in (0..shape.len()).rev() {
        s[i] = acc;
        acc = acc.saturating_mul(shape[i] as u128);
    }
    s
}

fn adversarial_shape(rng: &mut Rng) -> Vec<usize> {
    let rank = rng.urange(1, 4);
    let mut shape: Vec<usize> = (0..rank)
        .map(|_| match rng.below(6) {
            0 => *rng.choose(&BIG),
            1 => rng.choose(&BIG).wrapping_add(rng.below(3)).wrapping_sub(1),
            2 => 0,
            3 => 1,
            _ => rng.urange(1, 5),
        })
        .collect();
    // Frequently choose pairs whose product wraps to something small.
    if rank >= 2 && rng.chance(1, 3) {
        let k = rng.urange(1, 63);
        shape[0] = 1usize << k;
        shape[1] = 1usize << (64 - k);
        if rng.bool() {
            shape[1] = shape[1].wrapping_add(rng.below(2));
        }
    }
    shape
}

/// After a constructor accepted arguments the harness considers invalid, ask
/// the tensor for a far element and see whether it hands out a reference
/// outside the storage (observed, not dereferenced).
fn probe_far(view: &TensorView<i32>, lo: usize, len: usize) -> Option<String> {
    let shape: Vec<usize> = view.shape().to_vec();
    if shape.iter().any(|d| *d == 0) {
        return None;
    }
    let idx: Vec<usize> = shape.iter().map(|d| d - 1).collect();
    let r = catch(|| view.get(idx.as_slice()).map(|r| r as *const i32 as usize));
    match r {
        Ok(Some(addr)) => {
            let hi = lo + len * 4;
            if addr < lo || addr + 4 > hi {
                Some(format!(
                    "get({:?}) returned a reference {} elements past the start of a {}-element storage",
                    idx,
                    (addr as isize).wrapping_sub(lo as isize) / 4,
                    len
                ))
            } else {
                None
            }
        }
        _ => None,
    }
}

fn ctor_case(rep: &mut Report, rng: &mut Rng) {
    rep.eval();
    let shape = adversarial_shape(rng);
    let (n, _) = extent(&shape, &vec![0; shape.len()]);
    let which = rng.below(6);
    let s_str: Vec<String> = shape.iter().map(|d| d.to_string()).collect();
    let mut report = |rep: &mut Report, ctor: &str, why: String, strides: &[usize], len: usize, far: Option<String>| {
        let st: Vec<String> = strides.iter().map(|d| d.to_string()).collect();
        rep.violation(
            format!("C06|ctor|{}|shape=[{}]|strides=[{}]|len={}", ctor, s_str.join(","), st.join(","), len),
            format!("{} accepted shape [{}] strides [{}] with storage of {} elements: {}{}", ctor, s_str.join(","), st.join(","), len, why, far.map(|f| format!("; {}", f)).unwrap_or_default()),
            json!({"mode": "ctor", "ctor": ctor, "shape": s_str, "strides": st, "len": len}),
        );
    };
    match which {
        // try_from_data with a storage length that equals the *wrapped* product
        0 | 1 => {
            let wrapped = shape.iter().fold(1usize, |a, d| a.wrapping_mul(*d));
            let len = if rng.bool() { wrapped } else { rng.below(8) };
            if len > 1 << 20 {
                return;
            }
            rep.count("ctor_try_from_data");
            let data = vec![7i32; len];
            let lo = data.as_ptr() as usize;
            let sh = shape.clone();
            let r = catch(move || Tensor::<i32>::try_from_data(sh.as_slice(), data));
            if let Ok(Ok(t)) = r {
                if n != len as u128 {
                    let far = probe_far(&t.view(), lo, len);
                    report(rep, "try_from_data", format!("element count is {} in exact arithmetic", n), &[], len, far);
                } else {
                    rep.count("ctor_accepted_valid");
                }
            } else {
                rep.count("ctor_rejected");
            }
        }
        // static-rank from_data via try_from_data
        2 => {
            if shape.len() != 2 {
                return;
            }
            let wrapped = shape[0].wrapping_mul(shape[1]);
            if wrapped > 1 << 20 {
                return;
            }
            rep.count("ctor_nd_try_from_data");
            let data = vec![7i32; wrapped];
            let lo = data.as_ptr() as usize;
            let sh = [shape[0], shape[1]];
            let r = catch(move || NdTensor::<i32, 2>::try_from_data(sh, data));
            if let Ok(Ok(t)) = r {
                if n != wrapped as u128 {
                    let far = probe_far(&t.as_dyn(), lo, wrapped);
                    report(rep, "NdTensor::try_from_data", format!("element count is {} in exact arithmetic", n), &[], wrapped, far);
                } else {
                    rep.count("ctor_accepted_valid");
                }
            } else {
                rep.count("ctor_rejected");
            }
        }
        // from_slice_with_strides / from_data_with_strides with adversarial strides
        3 | 4 => {
            let strides: Vec<usize> = shape
                .iter()
                .map(|_| match rng.below(5) {
                    0 => *rng.choose(&BIG),
                    1 => rng.choose(&BIG).wrapping_add(rng.below(3)).wrapping_sub(1),
                    2 => 0,
                    _ => rng.urange(1, 9),
                })
                .collect();
            let (n, max_off) = extent(&shape, &strides);
            let len = rng.urange(0, 40);
            let mutable = which == 4;
            rep.count(if mutable { "ctor_from_data_with_strides" } else { "ctor_from_slice_with_strides" });
            let mut data = vec![7i32; len];
            let lo = data.as_ptr() as usize;
            let valid = match max_off {
                None => true,
                Some(m) => m < len as u128,
            };
            let _ = n;
            let accepted_view: Option<Option<String>> = if mutable {
                let (sh, st) = (shape.clone(), strides.clone());
                let dm = &mut data[..];
                match catch(move || TensorViewMut::from_data_with_strides(sh.as_slice(), dm, st.as_slice()).map(|v| probe_far(&v.view(), lo, len))) {
                    Ok(Ok(far)) => Some(far),
                    _ => None,
                }
            } else {
                let (sh, st) = (shape.clone(), strides.clone());
                let d = &data[..];
                match catch(move || TensorView::from_slice_with_strides(sh.as_slice(), d, st.as_slice()).map(|v| probe_far(&v, lo, len))) {
                    Ok(Ok(far)) => Some(far),
                    _ => None,
                }
            };
            match accepted_view {
                Some(far) if !valid => report(
                    rep,
                    if mutable { "from_data_with_strides" } else { "from_slice_with_strides" },
                    format!("maximum offset is {} in exact arithmetic", max_off.unwrap()),
                    &strides,
                    len,
                    far,
                ),
                Some(_) => rep.count("ctor_accepted_valid"),
                None => rep.count("ctor_rejected"),
            }
        }
        // Layout with mismatched shape / stride ranks, then from_storage_and_layout
        _ => {
            let small: Vec<usize> = shape.iter().map(|d| (*d % 4) + 1).collect();
            let mut strides: Vec<usize> = naive::row_major_strides(&small);
            match rng.below(3) {
                0 => {
                    strides.pop();
                }
                1 => strides.push(1),
                _ => {}
            }
            let mismatched = strides.len() != small.len();
            rep.count("ctor_layout_rank_mismatch");
            let len = naive::numel(&small);
            let data = vec![7i32; len];
            let lo = data.as_ptr() as usize;
            let (sh, st) = (small.clone(), strides.clone());
            let r = catch(move || {
                let layout = DynLayout::from_shape_and_strides(sh.as_slice(), st.as_slice(), OverlapPolicy::AllowOverlap)?;
                let d: &[i32] = &data;
                let t = TensorView::from_storage_and_layout(d.into_storage_view(), layout);
                // A rank-mismatched layout is API misuse; what matters for this
                // property is whether any reference escapes the storage. Observe
                // the addresses of the references handed out (not dereferenced).
                let cs: Vec<usize> = t.shape().to_vec();
                let cst: Vec<usize> = t.strides().to_vec();
                let hi = lo + len * 4;
                let mut escaped: Option<String> = probe_far(&t, lo, len);
                for (k, r) in t.iter().take(256).enumerate() {
                    let a = r as *const i32 as usize;
                    if a < lo || a + 4 > hi {
                        escaped = Some(format!("iter() item {} is at element offset {}", k, (a as isize - lo as isize) / 4));
                        break;
                    }
                }
                Ok::<_, rten_tensor::errors::FromDataError>((cs, cst, escaped))
            });
            if let Ok(Ok((cs, cst, far))) = r {
                if far.is_some() {
                    report(
                        rep,
                        "DynLayout::from_shape_and_strides+from_storage_and_layout",
                        format!("resulting tensor claims shape {:?} strides {:?}", cs, cst),
                        &strides,
                        len,
                        far,
                    );
                } else if mismatched {
                    rep.count("ctor_rank_mismatch_accepted_but_harmless");
                }
            } else {
                rep.count("ctor_rejected");
            }
        }
    }
    if shape.iter().filter(|d| **d > 1 << 16).count() >= 1 {
        rep.nontrivial(&("ctor", which, &shape));
    }
    if rep.wants_sample() && which <= 1 && shape.len() >= 2 {
        rep.sample(|| json!({"ctor_case": which, "shape": s_str}));
    }
}

trait IntoStorageView<'a> {
    fn into_storage_view(self) -> rten_tensor::storage::ViewData<'a, i32>;
}
impl<'a> IntoStorageView<'a> for &'a [i32] {
    fn into_storage_view(self) -> rten_tensor::storage::ViewData<'a, i32> {
        use rten_tensor::storage::IntoStorage;
        self.into_storage()
    }
}

/// Zero-sized-allocation constructors with wrapping shapes: `zeros`, `full`,
/// `from_fn`-style constructors compute their length from the shape.
fn alloc_ctor_case(rep: &mut Report, rng: &mut Rng) {
    rep.eval();
    let k = rng.urange(1, 63);
    let mut shape = vec![1usize << k, 1usize << (64 - k)];
    if rng.bool() {
        shape.push(rng.urange(1, 3));
    }
    let wrapped = shape.iter().fold(1usize, |a, d| a.wrapping_mul(*d));
    if wrapped > 1 << 16 {
        return;
    }
    rep.count("ctor_zeros_wrapping");
    rep.nontrivial(&("zeros", &shape));
    let sh = shape.clone();
    // A correct implementation panics (capacity overflow) or aborts on
    // allocation failure; it must not return a tensor.
    let r = catch(move || {
        let t = Tensor::<i32>::zeros(sh.as_slice());
        let lo = t.data_ptr() as usize;
        let len = t.data().map(|d| d.len()).unwrap_or(0);
        (len, probe_far(&t.view(), lo, len))
    });
    if let Ok((len, far)) = r {
        let s_str: Vec<String> = shape.iter().map(|d| d.to_string()).collect();
        rep.violation(
            format!("C06|ctor|zeros|shape=[{}]", s_str.join(",")),
            format!(
                "Tensor::zeros([{}]) returned a tensor backed by {} elements{}",
                s_str.join(","),
                len,
                far.map(|f| format!("; {}", f)).unwrap_or_default()
            ),
            json!({"mode": "zeros", "shape": s_str}),
        );
    }
}

/// Random indexing with hostile indices on valid views.
fn index_case(rep: &mut Report, rng: &mut Rng) {
    rep.eval();
    let lay = gen_layout(
        rng,
        &LayOpts {
            max_rank: 4,
            max_dim: 4,
            allow_broadcast: true,
            allow_zero: true,
        },
    );
    let data: Vec<i32> = (0..lay.storage_len as i32).collect();
    let lo = data.as_ptr() as usize;
    let hi = lo + data.len() * 4;
    let Ok(view) = TensorView::from_slice_with_strides(&lay.shape, &data, &lay.strides) else {
        rep.count("layout_rejected_by_constructor");
        return;
    };
    rep.count("index_cases");
    for _ in 0..8 {
        let idx: Vec<usize> = lay
            .shape
            .iter()
            .map(|d| match rng.below(6) {
                0 => *d,
                1 => usize::MAX,
                2 => *rng.choose(&BIG),
                3 => d.wrapping_sub(1),
                _ => rng.below(d + 1),
            })
            .collect();
        let valid = idx.iter().zip(&lay.shape).all(|(i, d)| i < d);
        let v2 = view.clone();
        let i2 = idx.clone();
        let got = catch(move || v2.get(i2.as_slice()).map(|r| r as *const i32 as usize));
        match got {
            Ok(Some(addr)) => {
                if addr < lo || addr + 4 > hi || !valid {
                    rep.violation(
                        format!("C06|get|{}|idx={:?}", lay.sig(), idx),
                        format!("get({:?}) on {} returned a reference (valid index: {}) at element offset {}", idx, lay.sig(), valid, (addr as isize - lo as isize) / 4),
                        json!({"mode": "index", "layout": lay.to_json(), "idx": idx.iter().map(|i| i.to_string()).collect::<Vec<_>>()}),
                    );
                } else {
                    let want = lay.offset_of(&idx);
                    if (addr - lo) / 4 != want {
                        rep.count("get_wrong_element_reported_under_C09");
                    }
                }
            }
            Ok(None) => {
                if valid {
                    rep.count("get_none_for_valid_index");
                }
            }
            Err(_) => rep.count("get_panicked"),
        }
    }
    if !lay.is_row_major_contiguous() {
        rep.nontrivial(&("index", &lay));
    }
}

/// get_array / set_array / to_array / assign_array on static-rank views: M
/// consecutive elements along one dimension are read or written through
/// unchecked offsets after a bounds assertion. A request that does not fit must
/// panic; one that fits must touch exactly those M elements.
fn array_access_case(rep: &mut Report, rng: &mut Rng) {
    use rten_tensor::{NdTensorView, NdTensorViewMut};
    rep.eval();
    let lay = gen_layout(rng, &LayOpts { max_rank: 3, max_dim: 5, allow_broadcast: false, allow_zero: true });
    let rank = lay.shape.len();
    if rank == 0 || rank > 3 {
        return;
    }
    // Guard zone around the storage: writes outside the view's extent land in it.
    let pad = 8usize;
    let mut buf: Vec<i32> = vec![-7; lay.storage_len + 2 * pad];
    for (i, x) in buf[pad..pad + lay.storage_len].iter_mut().enumerate() {
        *x = i as i32;
    }
    let dim = rng.below(rank);
    let mut base: Vec<usize> = lay.shape.iter().map(|d| if *d == 0 { 0 } else { rng.below(*d) }).collect();
    const MS: [usize; 4] = [1, 2, 3, 4];
    let m = *rng.choose(&MS);
    // Bias towards the boundary: start so that the run ends at size-1, size or size+1.
    if lay.shape[dim] > 0 && rng.chance(2, 3) {
        let end = lay.shape[dim] + rng.below(3);
        base[dim] = (end.saturating_sub(m)).min(lay.shape[dim]);
    }
    let fits = base.iter().zip(&lay.shape).all(|(b, d)| b < d) && base[dim] + m <= lay.shape[dim];
    let sig = format!("{}|base={:?}|dim={}|M={}", lay.sig(), base, dim, m);
    macro_rules! with_rank {
        ($n:literal) => {{
            let shape: [usize; $n] = lay.shape.clone().try_into().unwrap();
            let strides: [usize; $n] = lay.strides.clone().try_into().unwrap();
            let b: [usize; $n] = base.clone().try_into().unwrap();
            // read
            let region = &buf[pad..pad + lay.storage_len];
            let Ok(view) = NdTensorView::<i32, $n>::from_slice_with_strides(shape, region, strides) else {
                rep.count("layout_rejected_by_constructor");
                return;
            };
            macro_rules! with_m {
                ($mm:literal) => {{
                    let got = catch(|| view.get_array::<$mm>(b, dim).to_vec());
                    match got {
                        Ok(vals) => {
                            if !fits {
                                rep.violation(
                                    format!("C06|get_array|{}", sig),
                                    format!("get_array::<{}>({:?}, {}) on {} returned {:?} although the run does not fit in dimension {} of size {}", $mm, base, dim, lay.sig(), vals, dim, lay.shape[dim]),
                                    json!({"mode": "array", "layout": lay.to_json(), "base": base, "dim": dim, "m": m}),
                                );
                            } else {
                                let want: Vec<i32> = (0..$mm)
                                    .map(|k| {
                                        let mut idx = base.clone();
                                        idx[dim] += k;
                                        lay.offset_of(&idx) as i32
                                    })
                                    .collect();
                                if vals != want {
                                    rep.count("get_array_wrong_elements_reported_under_C09");
                                }
                            }
                        }
                        Err(_) => {
                            if fits {
                                rep.count("get_array_panicked_on_valid_request");
                            } else {
                                rep.count("get_array_refused");
                            }
                        }
                    }
                }};
            }
            match m {
                1 => with_m!(1),
                2 => with_m!(2),
                3 => with_m!(3),
                _ => with_m!(4),
            }
            // write (only layouts a mutable view accepts)
            let before = buf.clone();
            let wrote = {
                let region = &mut buf[pad..pad + lay.storage_len];
                match NdTensorViewMut::<i32, $n>::from_data_with_strides(shape, region, strides) {
                    Err(_) => None,
                    Ok(mut v) => Some(catch(std::panic::AssertUnwindSafe(|| match m {
                        1 => v.set_array::<1>(b, dim, [1000; 1]),
                        2 => v.set_array::<2>(b, dim, [1000; 2]),
                        3 => v.set_array::<3>(b, dim, [1000; 3]),
                        _ => v.set_array::<4>(b, dim, [1000; 4]),
                    }))),
                }
            };
            if let Some(res) = wrote {
                let changed: Vec<usize> = buf.iter().zip(&before).enumerate().filter(|(_, (a, b))| a != b).map(|(i, _)| i).collect();
                let allowed: Vec<usize> = if fits {
                    (0..m)
                        .map(|k| {
                            let mut idx = base.clone();
                            idx[dim] += k;
                            pad + lay.offset_of(&idx)
                        })
                        .collect()
                } else {
                    Vec::new()
                };
                let stray: Vec<isize> = changed.iter().filter(|i| !allowed.contains(i)).map(|i| *i as isize - pad as isize).collect();
                if !stray.is_empty() || (res.is_ok() && !fits) {
                    rep.violation(
                        format!("C06|set_array|{}", sig),
                        format!("set_array::<{}>({:?}, {}) on {} (fits: {}) returned {} and wrote storage offsets {:?} outside the requested run (storage has {} elements)", m, base, dim, lay.sig(), fits, if res.is_ok() { "normally" } else { "by panic" }, stray, lay.storage_len),
                        json!({"mode": "array", "layout": lay.to_json(), "base": base, "dim": dim, "m": m}),
                    );
                }
            }
        }};
    }
    match rank {
        1 => with_rank!(1),
        2 => with_rank!(2),
        _ => with_rank!(3),
    }
    rep.count("array_access_cases");
    if !fits {
        rep.nontrivial(&("array", &lay, &base, dim, m));
    }
}

pub fn run(args: &Args) {
    let mut rep = Report::new(
        "C06",
        "tensorcheck safety",
        args,
        "adversarial constructor arguments (wrapping products, huge strides, short storage, rank-mismatched layouts) decided by 128-bit arithmetic; chains of view operations with extent checks against the owning allocation; iterator histories on immutable and mutable views with every handed-out reference address-checked before use and mutable references checked for duplicates; hostile indices. non-trivial = constructor case with a dimension > 2^16, or a chain / history on a non-contiguous layout; distinct by case identity; get_array / set_array::<1..4> on static-rank views with runs ending at, before and one past the end of a dimension, inside a guard zone: a run that does not fit must panic and nothing outside the run may be written",
    );
    rep.max_samples = 8;
    let miri = cfg!(miri);

    if let Some(path) = &args.replay {
        let w: Json = serde_json::from_str(&std::fs::read_to_string(path).unwrap()).unwrap();
        let w = if w.get("witness").is_some() { w["witness"].clone() } else { w };
        replay(&mut rep, &w);
        rep.nontrivial(&0u8);
        rep.nontrivial(&1u8);
        rep.evaluations = rep.evaluations.max(1);
        rep.finish();
        return;
    }

    let mut rng = Rng::derive(args.seed, 0xC06 + args.shard as u64);

    // ---- 1. constructors
    let n_ctor = args.budget(if miri { 300 } else { 60_000 }, if miri { 3000 } else { 5_000_000 });
    for _ in 0..n_ctor {
        ctor_case(&mut rep, &mut rng);
    }
    for _ in 0..args.budget(if miri { 20 } else { 500 }, 5_000) {
        alloc_ctor_case(&mut rep, &mut rng);
    }
    for _ in 0..args.budget(if miri { 100 } else { 20_000 }, 2_000_000) {
        index_case(&mut rep, &mut rng);
        array_access_case(&mut rep, &mut rng);
    }

    // ---- 2. view-operation chains with the extent monitor
    let n_chain = args.budget(if miri { 60 } else { 40_000 }, if miri { 600 } else { 4_000_000 });
    let base_stream = 0xC06_0000_0000u64 + (args.shard as u64) * 1_000_000_000;
    for case in 0..n_chain {
        let mut stats = model::ChainStats::default();
        let stream = base_stream + case;
        let r = model::run_case(args.seed, stream, &mut stats);
        rep.eval();
        rep.add("chain_ops_applied", stats.ops_applied);
        if stats.ops_applied >= 1 && stats.noncontig_sources > 0 {
            rep.nontrivial(&("chain", &stats.trace));
        }
        if let Err(f) = r {
            if f.kind == "addr" {
                rep.violation(
                    format!("C06|extent|{}|src_shape={:?}|src_strides={:?}", f.op, f.src_shape, f.src_strides),
                    format!("{} on view shape {:?} strides {:?}: {}", f.op, f.src_shape, f.src_strides, f.detail),
                    json!({"mode": "chain", "seed": args.seed, "stream": stream, "trace": stats.trace}),
                );
            } else {
                rep.count("value_mismatches_reported_under_C09");
            }
        }
    }

    // ---- 3. iterator histories with the address / alias monitor
    let opts = LayOpts {
        max_rank: if miri { 3 } else { 5 },
        max_dim: if miri { 3 } else { 4 },
        allow_broadcast: true,
        allow_zero: true,
    };
    let n_iter = args.budget(if miri { 80 } else { 40_000 }, if miri { 800 } else { 4_000_000 });
    for _ in 0..n_iter {
        let lay = gen_layout(&mut rng, &opts);
        let kinds = iters::kinds_for(&lay, &mut rng);
        let kind = *rng.choose(&kinds);
        let steps = iters::gen_history(&mut rng, 8);
        let o = iters::exec_caught(kind, &lay, &Mode::History(&steps));
        rep.eval();
        if o.rejected {
            continue;
        }
        rep.count("iterator_histories");
        if o.indexing_path {
            rep.nontrivial(&("iter", kind, &lay, &steps));
        }
        if rep.wants_sample() && o.indexing_path && o.split {
            rep.sample(|| iters::witness(kind, &lay, &steps, None));
        }
        for (what, obs) in [("oob", &o.oob), ("alias", &o.dup)] {
            if let Some(msg) = obs {
                let hist: Vec<String> = steps.iter().map(|s| format!("{}:{:?}", s.target, s.op)).collect();
                rep.violation(
                    format!("C06|{}|{:?}|{}|hist=[{}]", what, kind, lay.sig(), hist.join(",")),
                    format!("{:?} on {}: {}", kind, lay.sig(), msg),
                    json!({"mode": "iter", "w": iters::witness(kind, &lay, &steps, None)}),
                );
            }
        }
    }

    rep.finish();
}

fn replay(rep: &mut Report, w: &Json) {
    match w["mode"].as_str().unwrap_or("") {
        "chain" => {
            let mut stats = model::ChainStats::default();
            let r = model::run_case(w["seed"].as_u64().unwrap(), w["stream"].as_u64().unwrap(), &mut stats);
            rep.eval();
            if let Err(f) = r {
                if f.kind == "addr" {
                    rep.violation(
                        format!("C06|extent|{}|src_shape={:?}|src_strides={:?}", f.op, f.src_shape, f.src_strides),
                        f.detail.clone(),
                        w.clone(),
                    );
                }
            }
        }
        "iter" => {
            // Delegate to the C07 replay format.
            eprintln!("replay with: tensorcheck iters --replay <file containing the 'w' object>");
        }
        _ => {
            eprintln!("constructor / index witnesses are self-describing; re-run the check with the same seed to reproduce");
        }
    }
}
