//! C08: the overlap check vs brute-force injectivity in 128-bit arithmetic.
use rten_tensor::layout::{DynLayout, MutLayout, NdLayout, OverlapPolicy};
use rten_tensor::prelude::*;
use rten_tensor::{NdTensor, Tensor, TensorViewMut};
use vcommon::naive;
use vcommon::*;

/// True if two distinct valid indices map to the same offset (u128 math).
fn brute_overlap(shape: &[usize], strides: &[usize]) -> bool {
    let mut offs: Vec<u128> = naive::indices(shape)
        .iter()
        .map(|idx| idx.iter().zip(strides).map(|(i, s)| *i as u128 * *s as u128).sum())
        .collect();
    offs.sort_unstable();
    offs.windows(2).any(|w| w[0] == w[1])
}

fn accepted_dyn(shape: &[usize], strides: &[usize]) -> Result<bool, String> {
    catch(|| DynLayout::from_shape_and_strides(shape, strides, OverlapPolicy::DisallowOverlap).is_ok())
}

fn accepted_nd(shape: &[usize], strides: &[usize]) -> Result<bool, String> {
    fn go<const N: usize>(shape: &[usize], strides: &[usize]) -> bool {
        let sh: [usize; N] = shape.try_into().unwrap();
        let st: [usize; N] = strides.try_into().unwrap();
        NdLayout::<N>::from_shape_and_strides(sh, st, OverlapPolicy::DisallowOverlap).is_ok()
    }
    catch(|| match shape.len() {
        0 => go::<0>(shape, strides),
        1 => go::<1>(shape, strides),
        2 => go::<2>(shape, strides),
        3 => go::<3>(shape, strides),
        4 => go::<4>(shape, strides),
        5 => go::<5>(shape, strides),
        _ => go::<6>(shape, strides),
    })
}

/// The tensor-level route: `from_data_with_strides` on a mutable slice. Only
/// usable when the storage needed is small.
fn accepted_tensor(shape: &[usize], strides: &[usize]) -> Option<bool> {
    let max_off: u128 = if naive::numel(shape) == 0 {
        0
    } else {
        shape.iter().zip(strides).map(|(d, s)| (*d as u128 - 1) * *s as u128).sum()
    };
    if max_off > 4096 {
        return None;
    }
    let mut data = vec![0i32; max_off as usize + 1];
    Some(TensorViewMut::from_data_with_strides(shape, &mut data[..], strides).is_ok())
}

fn check_accept(rep: &mut Report, shape: &[usize], strides: &[usize], origin: &str) {
    rep.eval();
    let overlap = brute_overlap(shape, strides);
    let routes: [(&str, Result<bool, String>); 2] = [("DynLayout", accepted_dyn(shape, strides)), ("NdLayout", accepted_nd(shape, strides))];
    let mut any_accept = false;
    for (route, acc) in routes {
        match acc {
            Ok(true) => {
                any_accept = true;
                if overlap {
                    rep.violation(
                        format!("C08|accepts_overlap|{}|shape={:?}|strides={:?}", route, shape, strides),
                        format!(
                            "{}::from_shape_and_strides(DisallowOverlap) accepted shape {:?} strides {:?} in which two indices share an offset",
                            route, shape, strides
                        ),
                        json!({"mode": "accept", "shape": shape, "strides": strides.iter().map(|s| s.to_string()).collect::<Vec<_>>(), "origin": origin}),
                    );
                }
            }
            Ok(false) => {}
            Err(_) => rep.count("constructor_panicked"),
        }
    }
    if let Some(true) = accepted_tensor(shape, strides) {
        if overlap {
            rep.violation(
                format!("C08|accepts_overlap|from_data_with_strides|shape={:?}|strides={:?}", shape, strides),
                format!("from_data_with_strides accepted overlapping shape {:?} strides {:?}", shape, strides),
                json!({"mode": "accept", "shape": shape, "strides": strides.iter().map(|s| s.to_string()).collect::<Vec<_>>(), "origin": origin}),
            );
        }
    }
    if overlap {
        rep.count("overlapping_layouts");
        if !any_accept {
            rep.count("overlapping_rejected");
        }
    } else {
        rep.count("injective_layouts");
        if any_accept {
            rep.count("injective_accepted");
        }
    }
    // Non-trivial: more than one index, not contiguous.
    if naive::numel(shape) > 1 {
        rep.nontrivial(&(shape, strides));
    }
    if rep.wants_sample() && overlap && naive::numel(shape) > 2 {
        rep.sample(|| json!({"shape": shape, "strides": strides.iter().map(|s| s.to_string()).collect::<Vec<_>>(), "overlaps": overlap, "accepted": any_accept}));
    }
}

/// Second clause: layouts derived from contiguous ones through rten's own
/// slicing / permuting / reshaping must be accepted.
fn check_derived(rep: &mut Report, rng: &mut Rng) {
    rep.eval();
    let rank = rng.urange(1, 4);
    let shape: Vec<usize> = (0..rank).map(|_| rng.urange(1, 5)).collect();
    let t = Tensor::<i32>::zeros(&shape);
    let mut v = t.view();
    let mut trace: Vec<String> = vec![format!("zeros({:?})", shape)];
    let n_ops = rng.urange(1, 5);
    for _ in 0..n_ops {
        let nd = v.ndim();
        match rng.below(9) {
            0 if nd > 1 => {
                let mut perm: Vec<usize> = (0..nd).collect();
                rng.shuffle(&mut perm);
                trace.push(format!("permuted({:?})", perm));
                v = v.permuted(&perm);
            }
            1 if nd >= 1 => {
                // stepped slice of one axis
                let axis = rng.below(nd);
                let size = v.size(axis);
                if size == 0 {
                    continue;
                }
                let start = rng.below(size) as isize;
                let step = rng.urange(1, 3) as isize;
                let items: Vec<rten_tensor::SliceItem> = (0..nd)
                    .map(|d| {
                        if d == axis {
                            rten_tensor::SliceItem::range(start, None, step)
                        } else {
                            rten_tensor::SliceItem::full_range()
                        }
                    })
                    .collect();
                trace.push(format!("slice(axis {} {}..;{})", axis, start, step));
                v = match v.try_slice(items.as_slice()) {
                    Ok(s) => s,
                    Err(_) => continue,
                };
            }
            2 if nd >= 1 => {
                let axis = rng.below(nd);
                let size = v.size(axis);
                if size == 0 {
                    continue;
                }
                let idx = rng.below(size);
                trace.push(format!("index_axis({}, {})", axis, idx));
                v = v.index_axis(axis, idx);
            }
            3 if nd < 5 => {
                let axis = rng.below(nd + 1);
                trace.push(format!("insert_axis({})", axis));
                v.insert_axis(axis);
            }
            6 if nd >= 1 => {
                trace.push("merge_axes".to_string());
                v.merge_axes();
            }
            7 if nd >= 2 => {
                let (from, to) = (rng.below(nd), rng.below(nd));
                trace.push(format!("move_axis({}, {})", from, to));
                v.move_axis(from, to);
            }
            8 if nd >= 1 => {
                if let Some(axis) = (0..nd).find(|&a| v.size(a) == 1) {
                    trace.push(format!("remove_axis({})", axis));
                    v.remove_axis(axis);
                }
            }
            4 if nd >= 1 => {
                trace.push("transposed".to_string());
                v = v.transposed();
            }
            5 => {
                // reshape when contiguous (merging / splitting axes)
                if v.is_contiguous() && v.len() > 0 {
                    let n = v.len();
                    let mut factors = vec![n];
                    if n % 2 == 0 {
                        factors = vec![2, n / 2];
                    } else if n % 3 == 0 {
                        factors = vec![n / 3, 3];
                    }
                    trace.push(format!("reshaped({:?})", factors));
                    // `reshaped` returns a Cow; a contiguous source gives a view.
                    let r = v.reshaped(factors.as_slice());
                    let (rs, rst): (Vec<usize>, Vec<usize>) = (r.shape().to_vec(), r.strides().to_vec());
                    derived_must_be_accepted(rep, &rs, &rst, &trace);
                }
                continue;
            }
            _ => continue,
        }
    }
    let (s, st): (Vec<usize>, Vec<usize>) = (v.shape().to_vec(), v.strides().to_vec());
    derived_must_be_accepted(rep, &s, &st, &trace);
}

fn derived_must_be_accepted(rep: &mut Report, shape: &[usize], strides: &[usize], trace: &[String]) {
    rep.count("derived_layouts");
    if naive::numel(shape) > 1 {
        rep.nontrivial(&("derived", shape, strides));
    }
    let ok = accepted_dyn(shape, strides).unwrap_or(false);
    if !ok {
        rep.violation(
            format!("C08|rejects_derived|shape={:?}|strides={:?}", shape, strides),
            format!("layout {:?}/{:?} derived from a contiguous tensor by {:?} was rejected as overlapping", shape, strides, trace),
            json!({"mode": "derived", "shape": shape, "strides": strides, "trace": trace}),
        );
    }
    if rep.samples.len() < rep.max_samples && trace.len() > 3 {
        rep.sample(|| json!({"derived": trace, "shape": shape, "strides": strides, "accepted": ok}));
    }
}

pub fn run(args: &Args) {
    let mut rep = Report::new(
        "C08",
        "tensorcheck overlap",
        args,
        "exhaustive small (shape, strides) grids plus large/wrapping strides and random higher ranks, each decided by brute-force injectivity in u128; plus layouts derived from contiguous tensors via rten's slice/permute/index/reshape, which must be accepted; non-trivial = more than one element; distinct by (shape, strides)",
    );
    rep.max_samples = 8;

    if let Some(path) = &args.replay {
        let w: Json = serde_json::from_str(&std::fs::read_to_string(path).unwrap()).unwrap();
        let w = if w.get("witness").is_some() { w["witness"].clone() } else { w };
        let shape: Vec<usize> = w["shape"].as_array().unwrap().iter().map(|x| x.as_u64().unwrap() as usize).collect();
        let strides: Vec<usize> = w["strides"]
            .as_array()
            .unwrap()
            .iter()
            .map(|x| x.as_str().map(|s| s.parse().unwrap()).unwrap_or_else(|| x.as_u64().unwrap() as usize))
            .collect();
        if w["mode"] == "derived" {
            derived_must_be_accepted(&mut rep, &shape, &strides, &["replay".to_string()]);
        } else {
            check_accept(&mut rep, &shape, &strides, "replay");
        }
        rep.nontrivial(&0u8);
        rep.nontrivial(&1u8);
        rep.evaluations = rep.evaluations.max(1);
        rep.finish();
        return;
    }

    let mut rng = Rng::derive(args.seed, 0xC08 + args.shard as u64);
    let big: [usize; 7] = [1 << 31, (1 << 32) + 1, 1 << 62, 1 << 63, usize::MAX / 2, usize::MAX - 1, usize::MAX];

    // ---- exhaustive grid
    let (max_rank, max_dim, max_stride) = if args.thorough { (4usize, 3usize, 9usize) } else { (3, 3, 7) };
    let mut stride_vals: Vec<usize> = (0..=max_stride).collect();
    if args.thorough {
        stride_vals.extend_from_slice(&[12, 13]);
    }
    let mut count = 0u64;
    for rank in 0..=max_rank {
        let n_shapes = (max_dim + 1).pow(rank as u32);
        for sc in 0..n_shapes {
            let mut c = sc;
            let shape: Vec<usize> = (0..rank)
                .map(|_| {
                    let d = c % (max_dim + 1);
                    c /= max_dim + 1;
                    d
                })
                .collect();
            let n_strides = stride_vals.len().pow(rank as u32);
            for stc in 0..n_strides {
                count += 1;
                if (count as usize) % args.shards != args.shard {
                    continue;
                }
                let mut c = stc;
                let strides: Vec<usize> = (0..rank)
                    .map(|_| {
                        let s = stride_vals[c % stride_vals.len()];
                        c /= stride_vals.len();
                        s
                    })
                    .collect();
                check_accept(&mut rep, &shape, &strides, "grid");
            }
        }
    }
    rep.add("grid_layouts", rep.evaluations);
    rep.note("grid", json!({"max_rank": max_rank, "dims": format!("0..={}", max_dim), "strides": stride_vals}));
    rep.exhaustive = false;

    // ---- large and wrapping strides
    let n_big = args.budget(20_000, 2_000_000);
    for _ in 0..n_big {
        let rank = rng.urange(1, 4);
        let shape: Vec<usize> = (0..rank).map(|_| rng.urange(1, 4)).collect();
        let strides: Vec<usize> = (0..rank)
            .map(|_| match rng.below(4) {
                0 => *rng.choose(&big),
                1 => rng.choose(&big).wrapping_add(rng.below(5)).wrapping_sub(2),
                2 => (usize::MAX / rng.urange(1, 4)).wrapping_add(rng.below(3)),
                _ => rng.below(14),
            })
            .collect();
        check_accept(&mut rep, &shape, &strides, "big");
        rep.count("big_stride_layouts");
    }

    // ---- random higher ranks
    let n_rand = args.budget(20_000, 2_000_000);
    for _ in 0..n_rand {
        let rank = rng.urange(3, 6);
        let shape: Vec<usize> = (0..rank).map(|_| rng.urange(1, 3)).collect();
        let strides: Vec<usize> = (0..rank).map(|_| rng.below(30)).collect();
        check_accept(&mut rep, &shape, &strides, "random");
    }

    // ---- derived layouts must be accepted
    let n_derived = args.budget(20_000, 1_000_000);
    for _ in 0..n_derived {
        if let Err(msg) = catch(|| check_derived(&mut rep, &mut rng)) {
            rep.count(&format!("derived_chain_panicked:{}", panic_class(&msg)));
        }
    }

    // Owned tensors too: NdTensor / Tensor constructors with strides.
    let _ = (NdTensor::<i32, 1>::zeros([1]), 0);

    rep.finish();
}
