//! C09: chains of layout-changing operations compared step by step with a
//! naive nd-array (shape + row-major Vec). Also hosts the address monitor used
//! by C06: every view produced must lie inside the allocation it came from.
use std::mem::MaybeUninit;

use rten_tensor::prelude::*;
use rten_tensor::{SliceItem, Tensor, TensorView};
use vcommon::naive::{self, Arr};
use vcommon::*;

#[derive(Debug)]
pub struct Fail {
    /// "value" (C09) or "addr" (C06).
    pub kind: &'static str,
    pub op: String,
    pub detail: String,
    pub src_shape: Vec<usize>,
    pub src_strides: Vec<usize>,
}

#[derive(Default, Debug)]
pub struct ChainStats {
    pub ops_applied: u64,
    pub ops_errored: u64,
    pub ops_panicked: u64,
    pub noncontig_sources: u64,
    pub trace: Vec<String>,
    pub op_names: Vec<&'static str>,
}

/// Allocation the current views must stay inside.
#[derive(Clone, Copy)]
struct Alloc {
    ptr: usize,
    len_elems: usize,
}

fn check_view(v: &TensorView<i64>, m: &Arr<i64>, alloc: Alloc, op: &str, src: (&[usize], &[usize])) -> Result<(), Fail> {
    let fail = |kind: &'static str, detail: String| Fail {
        kind,
        op: op.to_string(),
        detail,
        src_shape: src.0.to_vec(),
        src_strides: src.1.to_vec(),
    };
    let shape: Vec<usize> = v.shape().to_vec();
    let strides: Vec<usize> = v.strides().to_vec();

    // ---- address monitor (before any element is read)
    if naive::numel(&shape) > 0 {
        let start = v.data_ptr() as usize;
        let max_off: u128 = shape.iter().zip(&strides).map(|(d, s)| (*d as u128 - 1) * *s as u128).sum();
        let lo = alloc.ptr as u128;
        let hi = lo + alloc.len_elems as u128 * 8;
        let first = start as u128;
        let last = first + max_off * 8;
        if first < lo || last + 8 > hi {
            return Err(fail(
                "addr",
                format!(
                    "view shape {:?} strides {:?} spans element offsets {}..={} relative to an allocation of {} elements",
                    shape,
                    strides,
                    (first as i128 - lo as i128) / 8,
                    (last as i128 - lo as i128) / 8,
                    alloc.len_elems
                ),
            ));
        }
    }

    // ---- model comparison
    if shape != m.shape {
        return Err(fail("value", format!("shape {:?}, model shape {:?}", shape, m.shape)));
    }
    if v.len() != m.data.len() {
        return Err(fail("value", format!("len() {} but model has {} elements", v.len(), m.data.len())));
    }
    for (k, idx) in naive::indices(&shape).iter().enumerate() {
        match v.get(idx.as_slice()) {
            Some(x) if *x == m.data[k] => {}
            other => {
                return Err(fail(
                    "value",
                    format!("element {:?} is {:?}, model has {}", idx, other, m.data[k]),
                ));
            }
        }
    }
    // Out-of-range index must be rejected.
    if !shape.is_empty() {
        let mut idx: Vec<usize> = shape.iter().map(|d| d.saturating_sub(1)).collect();
        let last = idx.len() - 1;
        idx[last] = shape[last];
        if v.get(idx.as_slice()).is_some() {
            return Err(fail("value", format!("get({:?}) succeeded for shape {:?}", idx, shape)));
        }
    }
    let via_iter: Vec<i64> = v.iter().copied().collect();
    if via_iter != m.data {
        return Err(fail("value", format!("iter() yields {:?}, model {:?}", via_iter, m.data)));
    }
    let via_vec = v.to_vec();
    if via_vec != m.data {
        return Err(fail("value", format!("to_vec() gives {:?}, model {:?}", via_vec, m.data)));
    }
    Ok(())
}

fn rand_perm(rng: &mut Rng, n: usize) -> Vec<usize> {
    let mut p: Vec<usize> = (0..n).collect();
    rng.shuffle(&mut p);
    p
}

enum Next {
    /// Keep going with a new view over the same allocation.
    View,
    /// The operation produced an owned tensor; continue from it.
    Owned(Tensor<i64>, Arr<i64>),
    /// Operation reported an error / panicked / was not applicable.
    Skip,
}

/// Run up to `budget` operations starting from the owned tensor `base`, whose
/// contents the model `m0` describes.
pub fn chain(rng: &mut Rng, base: Tensor<i64>, m0: Arr<i64>, budget: usize, stats: &mut ChainStats) -> Result<(), Fail> {
    let alloc = Alloc {
        ptr: base.data_ptr() as usize,
        // Storage length: an owned tensor's `data()` is None when
        // non-contiguous, so use the layout's own minimum as a lower bound
        // on what the allocation holds. For tensors built by this harness
        // the storage length is exactly known.
        len_elems: base_storage_len(&base),
    };
    let mut v: TensorView<i64> = base.view();
    let mut m = m0;
    check_view(&v, &m, alloc, "initial", (&[], &[]))?;

    let mut left = budget;
    while left > 0 {
        left -= 1;
        let nd = v.ndim();
        let shape: Vec<usize> = v.shape().to_vec();
        let strides: Vec<usize> = v.strides().to_vec();
        if !v.is_contiguous() {
            stats.noncontig_sources += 1;
        }
        let choice = rng.below(22);
        let mut op_desc = String::new();
        let mut op_name: &'static str = "";
        let mut new_model: Option<Arr<i64>> = None;

        // Each arm computes the model result first (when the operation is
        // defined on the model), then performs the real operation inside
        // `catch`.
        let step: Result<Next, String> = match choice {
            // ---- slice with ranges / indices, numpy semantics
            0 | 1 | 2 if nd >= 1 => {
                op_name = "slice";
                let n_items = if rng.chance(1, 10) { nd + 1 } else { rng.urange(0, nd) };
                let mut items = Vec::new();
                let mut mm = Some(m.clone());
                let mut axis_in_model = 0usize;
                let mut desc = Vec::new();
                let mut expect_err = n_items > nd;
                for d in 0..n_items.min(nd) {
                    let size = shape[d] as isize;
                    if rng.chance(1, 4) {
                        // index item, possibly negative / out of range
                        let i = rng.irange(-size - 1, size);
                        desc.push(format!("{}", i));
                        items.push(SliceItem::Index(i));
                        let ri = if i < 0 { i + size } else { i };
                        if ri < 0 || ri >= size {
                            expect_err = true;
                            mm = None;
                        } else if let Some(cur) = mm.take() {
                            mm = Some(cur.index_axis(axis_in_model, ri as usize));
                        }
                    } else {
                        let start = rng.irange(-size - 2, size + 2);
                        let end = if rng.chance(1, 4) { None } else { Some(rng.irange(-size - 2, size + 2)) };
                        let step = *rng.choose(&[1isize, 1, 1, 2, 3, -1, -2]);
                        desc.push(format!("{}:{:?}:{}", start, end, step));
                        items.push(SliceItem::range(start, end, step));
                        if let Some(cur) = mm.take() {
                            let (s, n) = naive::resolve_slice(size as usize, Some(start), end, step);
                            mm = Some(cur.slice_axis(axis_in_model, s, step, n));
                        }
                        axis_in_model += 1;
                    }
                }
                for _ in nd..n_items {
                    items.push(SliceItem::full_range());
                    desc.push(":".to_string());
                }
                op_desc = format!("try_slice([{}])", desc.join(", "));
                if !expect_err {
                    new_model = mm;
                }
                let vv = v.clone();
                catch(move || vv.try_slice(items.as_slice()).ok()).map(|r| match r {
                    Some(nv) => {
                        v = nv;
                        Next::View
                    }
                    None => Next::Skip,
                })
            }
            // ---- slice_copy: same semantics, owned result, negative steps allowed
            3 if nd >= 1 => {
                op_name = "slice_copy";
                let mut items = Vec::new();
                let mut mm = m.clone();
                let mut desc = Vec::new();
                for d in 0..nd {
                    let size = shape[d] as isize;
                    let start = rng.irange(-size - 2, size + 2);
                    let end = if rng.chance(1, 3) { None } else { Some(rng.irange(-size - 2, size + 2)) };
                    let step = *rng.choose(&[1isize, 2, -1, -2, 3]);
                    desc.push(format!("{}:{:?}:{}", start, end, step));
                    items.push(SliceItem::range(start, end, step));
                    let (s, n) = naive::resolve_slice(size as usize, Some(start), end, step);
                    mm = mm.slice_axis(d, s, step, n);
                }
                op_desc = format!("slice_copy([{}])", desc.join(", "));
                let vv = v.clone();
                let mm2 = mm.clone();
                catch(move || vv.slice_copy(items.as_slice())).map(|t| Next::Owned(t, mm2))
            }
            4 if nd >= 1 => {
                op_name = "index_axis";
                let axis = rng.below(nd);
                let i = rng.below(shape[axis] + 1);
                op_desc = format!("index_axis({}, {})", axis, i);
                if i < shape[axis] {
                    new_model = Some(m.index_axis(axis, i));
                }
                let vv = v.clone();
                catch(move || vv.index_axis(axis, i)).map(|nv| {
                    v = nv;
                    Next::View
                })
            }
            5 if nd >= 1 => {
                op_name = "slice_axis";
                let axis = rng.below(nd);
                let a = rng.below(shape[axis] + 1);
                let b = rng.below(shape[axis] + 2);
                op_desc = format!("slice_axis({}, {}..{})", axis, a, b);
                if a <= b && b <= shape[axis] {
                    new_model = Some(m.slice_axis(axis, a, 1, b - a));
                }
                let vv = v.clone();
                catch(move || vv.slice_axis(axis, a..b)).map(|nv| {
                    v = nv;
                    Next::View
                })
            }
            6 if nd >= 1 => {
                op_name = "permuted";
                let mut perm = rand_perm(rng, nd);
                let valid = !rng.chance(1, 12);
                if !valid {
                    perm[0] = perm[nd - 1];
                }
                op_desc = format!("permuted({:?})", perm);
                if valid || nd == 1 {
                    new_model = Some(m.permuted(&perm));
                }
                let vv = v.clone();
                catch(move || vv.permuted(&perm)).map(|nv| {
                    v = nv;
                    Next::View
                })
            }
            7 => {
                op_name = "transposed";
                op_desc = "transposed()".to_string();
                let perm: Vec<usize> = (0..nd).rev().collect();
                new_model = Some(m.permuted(&perm));
                let vv = v.clone();
                catch(move || vv.transposed()).map(|nv| {
                    v = nv;
                    Next::View
                })
            }
            8 if nd >= 1 => {
                op_name = "move_axis";
                let from = rng.below(nd + 1);
                let to = rng.below(nd);
                op_desc = format!("move_axis({}, {})", from, to);
                if from < nd {
                    let mut perm: Vec<usize> = (0..nd).collect();
                    let a = perm.remove(from);
                    perm.insert(to, a);
                    new_model = Some(m.permuted(&perm));
                }
                let mut vv = v.clone();
                catch(move || {
                    vv.move_axis(from, to);
                    vv
                })
                .map(|nv| {
                    v = nv;
                    Next::View
                })
            }
            9 => {
                op_name = "broadcast";
                // Target shape: prepend dims, expand size-1 dims; sometimes invalid.
                let mut target = shape.clone();
                for d in target.iter_mut() {
                    if *d == 1 && rng.bool() {
                        *d = rng.urange(0, 3);
                    }
                }
                for _ in 0..rng.below(3) {
                    target.insert(0, rng.urange(1, 2));
                }
                let invalid = rng.chance(1, 8) && !target.is_empty();
                if invalid {
                    let k = rng.below(target.len());
                    target[k] += 1;
                }
                let compatible = target.len() >= nd
                    && shape.iter().rev().zip(target.iter().rev()).all(|(a, b)| a == b || *a == 1);
                op_desc = format!("try_broadcast({:?})", target);
                if compatible && target.len() <= 6 && naive::numel(&target) <= 4096 {
                    new_model = Some(m.broadcast(&target));
                }
                if target.len() > 6 || naive::numel(&target) > 4096 {
                    Ok(Next::Skip)
                } else {
                    let vv = v.clone();
                    catch(move || vv.try_broadcast(target.as_slice()).ok()).map(|r| match r {
                        Some(nv) => {
                            v = nv;
                            Next::View
                        }
                        None => Next::Skip,
                    })
                }
            }
            10 => {
                op_name = "reshaped";
                let n = m.data.len();
                let target = random_factorisation(rng, n);
                let target = if rng.chance(1, 10) { vec![n + 1] } else { target };
                op_desc = format!("reshaped({:?})", target);
                let mm = if naive::numel(&target) == n { Some(m.reshaped(&target)) } else { None };
                let vv = v.clone();
                match mm {
                    Some(mm) => catch(move || vv.reshaped(target.as_slice()).into_owned()).map(|t| Next::Owned(t, mm)),
                    None => {
                        // Must not succeed.
                        let r = catch(move || vv.reshaped(target.as_slice()).into_owned());
                        match r {
                            Ok(_) => Err("RESHAPE_WRONG_LEN_OK".to_string()),
                            Err(_) => Ok(Next::Skip),
                        }
                    }
                }
            }
            11 => {
                op_name = "to_shape";
                let n = m.data.len();
                let target = random_factorisation(rng, n);
                op_desc = format!("to_shape({:?})", target);
                let mm = m.reshaped(&target);
                let vv = v.clone();
                catch(move || vv.to_shape(target.as_slice())).map(|t| Next::Owned(t, mm))
            }
            12 => {
                op_name = "squeezed";
                op_desc = "squeezed()".to_string();
                let target: Vec<usize> = shape.iter().copied().filter(|d| *d != 1).collect();
                new_model = Some(m.reshaped(&target));
                let vv = v.clone();
                catch(move || vv.squeezed()).map(|nv| {
                    v = nv;
                    Next::View
                })
            }
            13 if nd < 6 => {
                op_name = "insert_axis";
                let axis = rng.below(nd + 2);
                op_desc = format!("insert_axis({})", axis);
                if axis <= nd {
                    let mut target = shape.clone();
                    target.insert(axis, 1);
                    new_model = Some(m.reshaped(&target));
                }
                let mut vv = v.clone();
                catch(move || {
                    vv.insert_axis(axis);
                    vv
                })
                .map(|nv| {
                    v = nv;
                    Next::View
                })
            }
            14 if nd >= 1 => {
                op_name = "remove_axis";
                let axis = rng.below(nd);
                op_desc = format!("remove_axis({})", axis);
                if shape[axis] == 1 {
                    let mut target = shape.clone();
                    target.remove(axis);
                    new_model = Some(m.reshaped(&target));
                }
                let mut vv = v.clone();
                catch(move || {
                    vv.remove_axis(axis);
                    vv
                })
                .map(|nv| {
                    v = nv;
                    Next::View
                })
            }
            15 => {
                op_name = "merge_axes";
                op_desc = "merge_axes()".to_string();
                // The resulting shape is the implementation's choice; the
                // element sequence and count must be unchanged.
                let mut vv = v.clone();
                let r = catch(move || {
                    vv.merge_axes();
                    vv
                });
                r.map(|nv| {
                    let new_shape: Vec<usize> = nv.shape().to_vec();
                    if naive::numel(&new_shape) == m.data.len() {
                        new_model = Some(m.reshaped(&new_shape));
                    } else {
                        new_model = Some(Arr {
                            shape: vec![usize::MAX],
                            data: vec![],
                        });
                    }
                    v = nv;
                    Next::View
                })
            }
            16 if nd >= 1 => {
                op_name = "split_at";
                let axis = rng.below(nd);
                let mid = rng.below(shape[axis] + 2);
                let take_left = rng.bool();
                op_desc = format!("split_at({}, {}).{}", axis, mid, if take_left { 0 } else { 1 });
                if mid <= shape[axis] {
                    new_model = Some(if take_left {
                        m.slice_axis(axis, 0, 1, mid)
                    } else {
                        m.slice_axis(axis, mid, 1, shape[axis] - mid)
                    });
                }
                let vv = v.clone();
                catch(move || {
                    let (l, r) = vv.split_at(axis, mid);
                    if take_left { l } else { r }
                })
                .map(|nv| {
                    v = nv;
                    Next::View
                })
            }
            17 => {
                op_name = "to_contiguous";
                op_desc = "to_contiguous()".to_string();
                let mm = m.clone();
                let vv = v.clone();
                catch(move || {
                    let c = vv.to_contiguous();
                    assert!(c.is_contiguous());
                    c.to_tensor()
                })
                .map(|t| Next::Owned(t, mm))
            }
            18 => {
                op_name = "map";
                op_desc = "map(x*3+1)".to_string();
                let mm = Arr {
                    shape: m.shape.clone(),
                    data: m.data.iter().map(|x| x * 3 + 1).collect(),
                };
                let vv = v.clone();
                catch(move || vv.map(|x| x * 3 + 1)).map(|t| Next::Owned(t, mm))
            }
            19 => {
                op_name = "copy_into_slice";
                op_desc = "copy_into_slice()".to_string();
                let n = m.data.len();
                let vv = v.clone();
                let want = m.data.clone();
                let r = catch(move || {
                    let mut buf: Vec<MaybeUninit<i64>> = (0..n).map(|_| MaybeUninit::new(i64::MIN)).collect();
                    let out = vv.copy_into_slice(&mut buf);
                    out.to_vec()
                });
                match r {
                    Ok(got) if got != want => Err(format!("COPY_MISMATCH got {:?} want {:?}", got, want)),
                    _ => Ok(Next::Skip),
                }
            }
            20 => {
                // Owned operations: append with / without capacity, clip_dim,
                // after an optional permutation of the owned tensor.
                op_name = "append/clip_dim";
                if nd == 0 || m.data.len() > 512 {
                    Ok(Next::Skip)
                } else {
                    let axis = rng.below(nd);
                    let extra = rng.urange(0, 2);
                    let with_cap = rng.bool();
                    // Spare capacity may also be reserved along ANOTHER axis: the buffer is
                    // then large enough in bytes, but growing `axis` would make rows overlap,
                    // so append must either refuse or (if it accepts) not corrupt anything.
                    let cap_axis = if rng.bool() { axis } else { rng.below(nd) };
                    let slack = rng.urange(1, 3);
                    let clip_a = rng.below(shape[axis] + 1);
                    let clip_b = rng.urange(clip_a, shape[axis]);
                    op_desc = format!(
                        "owned: append(axis {}, +{}) cap={} cap_axis={} slack={} then clip_dim({}, {}..{})",
                        axis, extra, with_cap, cap_axis, slack, axis, clip_a, clip_b
                    );
                    // Model: concatenate along axis with `extra` slabs holding -k.
                    let mut add_shape = shape.clone();
                    add_shape[axis] = extra;
                    let addend = Arr::from_fn(&add_shape, |idx| -(idx.iter().sum::<usize>() as i64) - 1);
                    let mut cat_shape = shape.clone();
                    cat_shape[axis] += extra;
                    let cat = Arr::from_fn(&cat_shape, |idx| {
                        if idx[axis] < shape[axis] {
                            *m.at(idx)
                        } else {
                            let mut i2 = idx.to_vec();
                            i2[axis] -= shape[axis];
                            *addend.at(&i2)
                        }
                    });
                    let mcur = m.clone();
                    let vv = v.clone();
                    let shape2 = shape.clone();
                    // Sometimes the owned tensor is stored in a permuted axis order (gap-free,
                    // but not row-major) with its capacity along the stored axis that is
                    // logical `axis`.
                    let permuted_storage = nd >= 2 && cap_axis == axis && rng.chance(1, 3);
                    let mut q: Vec<usize> = (0..nd).collect();
                    if permuted_storage {
                        rng.shuffle(&mut q);
                        if q.iter().enumerate().all(|(i, x)| i == *x) {
                            q.reverse();
                        }
                    }
                    if permuted_storage {
                        op_desc.push_str(&format!(" stored_as_permutation={:?}", q));
                    }
                    let r = catch(move || {
                        // Build an owned tensor with capacity for appending along `axis`.
                        let mut cap_shape = shape2.clone();
                        let mut t: Tensor<i64> = if permuted_storage {
                            // stored tensor b = logical.permuted(q); logical axis `axis` is stored axis j
                            let j = q.iter().position(|x| *x == axis).unwrap();
                            let b = vv.permuted(&q).to_tensor();
                            let mut b_cap: Vec<usize> = b.shape().to_vec();
                            b_cap[j] += if with_cap { extra } else { 0 };
                            let mut t = Tensor::with_capacity(b_cap.as_slice(), j);
                            if b.shape()[j] > 0 {
                                t.append(j, &b).expect("append of original");
                            }
                            // back to logical axis order: inverse permutation
                            let mut inv = vec![0usize; q.len()];
                            for (i, x) in q.iter().enumerate() {
                                inv[*x] = i;
                            }
                            t.permute(&inv);
                            t
                        } else if cap_axis == axis {
                            cap_shape[axis] = shape2[axis] + if with_cap { extra } else { 0 };
                            let mut t = Tensor::with_capacity(cap_shape.as_slice(), axis);
                            if shape2[axis] > 0 {
                                t.append(axis, &vv).expect("append of original");
                            }
                            t
                        } else {
                            // Capacity for `slack` more slabs along cap_axis only.
                            cap_shape[cap_axis] = shape2[cap_axis] + slack;
                            let mut t = Tensor::with_capacity(cap_shape.as_slice(), cap_axis);
                            if shape2[cap_axis] > 0 {
                                t.append(cap_axis, &vv).expect("append of original");
                            }
                            t
                        };
                        if t.shape() != shape2.as_slice() {
                            // Zero-sized along the capacity axis: nothing to test here.
                            return (t, false);
                        }
                        let add = Tensor::from_data(add_shape.as_slice(), addend.data.clone());
                        let appended = if extra > 0 { t.append(axis, &add).is_ok() } else { true };
                        if permuted_storage && std::env::var_os("VERIF_DEBUG_APPEND").is_some() {
                            eprintln!("PERM q={:?} axis={} extra={} with_cap={} appended={} shape={:?} strides={:?}", q, axis, extra, with_cap, appended, t.shape(), t.strides());
                        }
                        (t, appended)
                    });
                    match r {
                        Err(e) => Err(e),
                        Ok((mut t, appended)) => {
                            let model_now = if appended && extra > 0 { cat.clone() } else { mcur.clone() };
                            let t_shape: Vec<usize> = t.shape().to_vec();
                            // The appended part would be cut away again by the clip below (its
                            // range lies within the original size), so compare everything now.
                            let content_diff = if t_shape == model_now.shape {
                                naive::indices(&t_shape).into_iter().find(|idx| t.get(idx.as_slice()).copied() != Some(*model_now.at(idx)))
                            } else {
                                None
                            };
                            if t_shape != model_now.shape {
                                Err(format!("APPEND_SHAPE got {:?} want {:?}", t_shape, model_now.shape))
                            } else if let Some(idx) = content_diff {
                                Err(format!("APPEND_CONTENT after append (returned {}) element {:?} is {:?}, expected {}", if appended && extra > 0 { "Ok" } else { "Err / nothing appended" }, idx, t.get(idx.as_slice()), model_now.at(&idx)))
                            } else {
                                let sz = model_now.shape[axis];
                                let a = clip_a.min(sz);
                                let b = clip_b.min(sz).max(a);
                                let clipped = model_now.slice_axis(axis, a, 1, b - a);
                                match catch(move || {
                                    t.clip_dim(axis, a..b);
                                    t
                                }) {
                                    Ok(t) => Ok(Next::Owned(t, clipped)),
                                    Err(e) => Err(e),
                                }
                            }
                        }
                    }
                }
            }
            _ => {
                op_name = "copy_from";
                op_desc = "copy_from(view) into zeros".to_string();
                if m.data.len() > 4096 {
                    Ok(Next::Skip)
                } else {
                    let vv = v.clone();
                    let sh = shape.clone();
                    let mm = m.clone();
                    catch(move || {
                        let mut t = Tensor::<i64>::zeros(sh.as_slice());
                        t.copy_from(&vv);
                        t
                    })
                    .map(|t| Next::Owned(t, mm))
                }
            }
        };

        stats.trace.push(op_desc.clone());
        if stats.op_names.len() < 64 && !op_name.is_empty() {
            stats.op_names.push(op_name);
        }
        let src = (shape.as_slice(), strides.as_slice());
        match step {
            Err(msg) => {
                if msg.starts_with("RESHAPE_WRONG_LEN_OK") || msg.starts_with("COPY_MISMATCH") || msg.starts_with("APPEND_") {
                    return Err(Fail {
                        kind: "value",
                        op: op_desc,
                        detail: msg,
                        src_shape: shape.clone(),
                        src_strides: strides.clone(),
                    });
                }
                // Panic: documented for invalid arguments. If the model says
                // the operation was valid this is still allowed by the
                // statement ("either reports an error or ...").
                stats.ops_panicked += 1;
                return Ok(());
            }
            Ok(Next::Skip) => {
                stats.ops_errored += 1;
            }
            Ok(Next::View) => {
                stats.ops_applied += 1;
                match new_model.take() {
                    Some(nm) => {
                        m = nm;
                        check_view(&v, &m, alloc, &op_desc, src)?;
                    }
                    None => {
                        // The model considers the arguments invalid but rten
                        // returned a result: silently lossy / wrong.
                        return Err(Fail {
                            kind: "value",
                            op: op_desc,
                            detail: format!(
                                "operation with arguments the model considers invalid returned a view of shape {:?}",
                                v.shape()
                            ),
                            src_shape: shape.clone(),
                            src_strides: strides.clone(),
                        });
                    }
                }
            }
            Ok(Next::Owned(t, nm)) => {
                stats.ops_applied += 1;
                // Compare the owned result, then continue from it.
                let a2 = Alloc {
                    ptr: t.data_ptr() as usize,
                    len_elems: base_storage_len(&t),
                };
                check_view(&t.view(), &nm, a2, &op_desc, src)?;
                return chain(rng, t, nm, left, stats);
            }
        }
    }
    Ok(())
}

fn base_storage_len(t: &Tensor<i64>) -> usize {
    match t.data() {
        Some(d) => d.len(),
        None => {
            // Non-contiguous owned tensor: the Vec length is not exposed; the
            // layout's extent is the tightest bound that must hold.
            let shape = t.shape();
            if shape.iter().any(|d| *d == 0) {
                0
            } else {
                shape.iter().zip(t.strides()).map(|(d, s)| (d - 1) * s).sum::<usize>() + 1
            }
        }
    }
}

fn random_factorisation(rng: &mut Rng, n: usize) -> Vec<usize> {
    if n == 0 {
        let mut s = vec![0];
        for _ in 0..rng.below(3) {
            let pos = rng.below(s.len() + 1);
            s.insert(pos, rng.urange(1, 3));
        }
        return s;
    }
    let mut rest = n;
    let mut out = Vec::new();
    for p in [2usize, 3, 5, 7] {
        while rest % p == 0 && rng.bool() {
            out.push(p);
            rest /= p;
        }
    }
    out.push(rest);
    for _ in 0..rng.below(2) {
        let pos = rng.below(out.len() + 1);
        out.insert(pos, 1);
    }
    rng.shuffle(&mut out);
    if rng.chance(1, 6) {
        // merge everything
        return vec![n];
    }
    out
}

/// Build the starting tensor: contiguous, or already non-contiguous (an owned
/// tensor permuted in place).
pub fn start_tensor(rng: &mut Rng) -> (Tensor<i64>, Arr<i64>) {
    let rank = rng.urange(0, 4);
    let shape: Vec<usize> = (0..rank)
        .map(|_| if rng.chance(1, 14) { 0 } else { rng.urange(1, 4) })
        .collect();
    let n = naive::numel(&shape);
    let data: Vec<i64> = (0..n as i64).map(|x| x * 7 + 3).collect();
    let m = Arr::new(shape.clone(), data.clone());
    let t = Tensor::from_data(shape.as_slice(), data);
    if rank >= 2 && rng.chance(1, 3) {
        let perm = rand_perm(rng, rank);
        let mp = m.permuted(&perm);
        (t.into_permuted(&perm), mp)
    } else {
        (t, m)
    }
}

pub fn run_case(seed: u64, stream: u64, stats: &mut ChainStats) -> Result<(), Fail> {
    let mut rng = Rng::derive(seed, stream);
    let (t, m) = start_tensor(&mut rng);
    stats.trace.push(format!("start shape {:?} strides {:?}", t.shape(), t.strides()));
    let budget = rng.urange(1, 6);
    chain(&mut rng, t, m, budget, stats)
}

pub fn run(args: &Args) {
    let mut rep = Report::new(
        "C09",
        "tensorcheck model",
        args,
        "random chains of 1-6 layout operations (slice/index/permute/broadcast/reshape/axis insertion+removal/merge/split/append/clip/copy/map) on contiguous and non-contiguous sources, each intermediate compared with a naive nd-array by shape, per-index get(), iter() and to_vec(); non-trivial = at least two operations applied successfully with a non-contiguous source somewhere in the chain; distinct by (seed, case stream) trace",
    );
    let replay_stream = args.replay.as_ref().map(|p| {
        let w: Json = serde_json::from_str(&std::fs::read_to_string(p).unwrap()).unwrap();
        let w = if w.get("witness").is_some() { w["witness"].clone() } else { w };
        (w["seed"].as_u64().unwrap(), w["stream"].as_u64().unwrap())
    });
    let n = if replay_stream.is_some() { 1 } else { args.budget(if cfg!(miri) { 150 } else { 150_000 }, if cfg!(miri) { 1500 } else { 10_000_000 }) };
    let base_stream = 0xC09_0000_0000u64 + (args.shard as u64) * 1_000_000_000;
    for case in 0..n {
        let (seed, stream) = replay_stream.unwrap_or((args.seed, base_stream + case));
        let mut stats = ChainStats::default();
        let r = match catch(|| run_case(seed, stream, &mut stats)) {
            Ok(r) => r,
            Err(msg) => {
                // A panic outside the guarded rten calls is a harness defect.
                panic!("harness panic in case seed={} stream={}: {}; trace {:?}", seed, stream, msg, stats.trace);
            }
        };
        rep.eval();
        rep.add("ops_applied", stats.ops_applied);
        rep.add("ops_reported_error", stats.ops_errored);
        rep.add("ops_panicked", stats.ops_panicked);
        for name in &stats.op_names {
            rep.count(&format!("op_{}", name));
        }
        if stats.ops_applied >= 2 && stats.noncontig_sources > 0 {
            rep.nontrivial(&stats.trace);
        }
        if rep.wants_sample() && stats.ops_applied >= 3 && stats.noncontig_sources > 1 {
            let tr = stats.trace.clone();
            rep.sample(|| json!({"seed": seed, "stream": stream, "trace": tr}));
        }
        match r {
            Ok(()) => {}
            Err(f) if f.kind == "value" => {
                let opname = f.op.split('(').next().unwrap_or("").to_string();
                rep.violation(
                    format!("C09|{}|src_shape={:?}|src_strides={:?}|{}", f.op, f.src_shape, f.src_strides, sig_detail(&f.detail)),
                    format!("{} on view shape {:?} strides {:?}: {}", opname, f.src_shape, f.src_strides, f.detail),
                    json!({"seed": seed, "stream": stream, "trace": stats.trace, "op": f.op, "detail": f.detail}),
                );
            }
            Err(_) => rep.count("addr_failures_reported_under_C06"),
        }
    }
    if replay_stream.is_some() {
        rep.nontrivial(&0u8);
        rep.nontrivial(&1u8);
    }
    if rep.evaluations > 0 && rep.counters.get("ops_applied").copied().unwrap_or(0) * 4 < rep.evaluations && replay_stream.is_none() {
        rep.inconclusive = Some("almost every operation errored or panicked".to_string());
    }
    rep.finish();
}

fn sig_detail(d: &str) -> String {
    // First few words of the detail, numbers stripped.
    let c = panic_class(d);
    c.split_whitespace().take(4).collect::<Vec<_>>().join("_")
}
