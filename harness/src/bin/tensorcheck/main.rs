//! tensorcheck: runtime monitors for rten-tensor (C06 C07 C08 C09).
//!
//!   tensorcheck iters    C07  iterator histories vs a deque model
//!   tensorcheck safety   C06  address monitor over random safe-API programs
//!   tensorcheck overlap  C08  overlap check vs brute-force injectivity
//!   tensorcheck model    C09  layout operations vs a naive nd-array
use vcommon::*;

mod iters;
mod lay;
mod model;
mod overlap;
mod safety;

fn main() {
    run_main(real_main)
}

fn real_main() {
    let args = Args::parse();
    match args.cmd.as_str() {
        "iters" => iters::run(&args),
        "safety" => safety::run(&args),
        "overlap" => overlap::run(&args),
        "model" => model::run(&args),
        other => {
            eprintln!("unknown sub-command {:?}", other);
            std::process::exit(3);
        }
    }
}
