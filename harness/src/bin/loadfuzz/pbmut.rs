//! Structure-aware protobuf mutators. They operate on a byte string plus the
//! `shadow::Walk` of that byte string (which lists every length position and
//! varint the decoder looks at), so they work on any valid ONNX model, not
//! only on the seeds built here. Reusable for C05/C21.
use crate::shadow::{Site, SiteKind, VarSite, Walk};
use vcommon::Rng;

pub fn enc_varint(v: u64) -> Vec<u8> {
    let mut out = Vec::new();
    vcommon::onnxpb::varint(v, &mut out);
    out
}

/// Non-canonical encoding of `v` in exactly `n` bytes (`n` >= the minimal
/// size): the payload groups followed by `0x80` padding groups and a final
/// `0x00`. `n` may exceed 10, which no decoder should accept.
pub fn enc_varint_padded(v: u64, n: usize) -> Vec<u8> {
    let min = enc_varint(v);
    if n <= min.len() {
        return min;
    }
    let mut out = Vec::with_capacity(n);
    let mut x = v;
    for i in 0..n {
        let group = if i < 10 { (x & 0x7f) as u8 } else { 0 };
        if i < 10 {
            x >>= 7;
        }
        out.push(if i + 1 < n { group | 0x80 } else { group });
    }
    out
}

pub fn splice(b: &[u8], start: usize, old_len: usize, new: &[u8]) -> Vec<u8> {
    let mut out = Vec::with_capacity(b.len() + new.len());
    out.extend_from_slice(&b[..start]);
    out.extend_from_slice(new);
    out.extend_from_slice(&b[(start + old_len).min(b.len())..]);
    out
}

/// Indices of the message sites that enclose `sites[idx]`, outermost first.
pub fn ancestors(sites: &[Site], idx: usize) -> Vec<usize> {
    let s = &sites[idx];
    (0..idx)
        .filter(|&j| {
            let a = &sites[j];
            a.kind == SiteKind::Message && a.body <= s.tag_pos && (s.tag_pos as u128) < a.body as u128 + a.value as u128
        })
        .collect()
}

/// Replace the length varint of `sites[idx]` by `enc` (already encoded).
/// With `fix_ancestors`, the lengths of all enclosing messages are adjusted
/// by the change in size so the framing around the mutated field stays valid.
pub fn set_len_raw(b: &[u8], sites: &[Site], idx: usize, enc: &[u8], fix_ancestors: bool) -> Vec<u8> {
    let s = &sites[idx];
    let mut out = splice(b, s.len_pos, s.len_size, enc);
    if fix_ancestors {
        let mut delta = enc.len() as i64 - s.len_size as i64;
        // Innermost ancestor first: later edits are at earlier positions, so
        // recorded positions of the remaining ancestors stay valid.
        for &j in ancestors(sites, idx).iter().rev() {
            if delta == 0 {
                break;
            }
            let a = &sites[j];
            let new_len = (a.value as i64 + delta).max(0) as u64;
            let e = enc_varint(new_len);
            delta += e.len() as i64 - a.len_size as i64;
            out = splice(&out, a.len_pos, a.len_size, &e);
        }
    }
    out
}

pub fn set_len(b: &[u8], sites: &[Site], idx: usize, value: u64, fix_ancestors: bool) -> Vec<u8> {
    set_len_raw(b, sites, idx, &enc_varint(value), fix_ancestors)
}

#[derive(Clone, Debug)]
pub struct Mutant {
    pub bytes: Vec<u8>,
    pub class: &'static str,
    pub detail: String,
}

/// Classes of structural mutation applied at a length site.
pub const LEN_CLASSES: [&str; 6] = ["len_wrap", "len_2p63", "len_2p31", "len_gt_remaining", "len_short", "len_nested_overrun"];

/// Choose a hostile length for `site`. `safe_only` (Miri) avoids values for
/// which the unmodified decoder would really try to allocate gigabytes.
pub fn hostile_len(rng: &mut Rng, class: &str, b: &[u8], sites: &[Site], idx: usize, safe_only: bool) -> Option<u64> {
    let s = &sites[idx];
    let remaining = (b.len() - s.body.min(b.len())) as u64;
    Some(match class {
        "len_wrap" => {
            // After the 10-byte varint the reader is at `body10`.
            let body10 = (s.len_pos + 10) as u64;
            let parent_body = ancestors(sites, idx).last().map(|&j| sites[j].body as u64).unwrap_or(0);
            let k = match rng.below(7) {
                0 => body10,                      // back to offset 0
                1 => body10 - s.tag_pos as u64,   // back to this field's own tag
                2 => body10 + 1,                  // one before offset 0
                3 => body10.saturating_sub(parent_body).max(1), // back to the start of the enclosing message
                _ => rng.urange(1, 32) as u64,
            };
            0u64.wrapping_sub(k.max(1))
        }
        "len_2p63" => {
            let d = rng.range(if safe_only { 0 } else { -16 }, 16);
            (1u64 << 63).wrapping_add(d as u64)
        }
        "len_2p31" => {
            if safe_only {
                return None;
            }
            let base = *rng.choose(&[1u64 << 31, 1u64 << 31, 1u64 << 32]);
            base.wrapping_add(rng.range(-16, 16) as u64)
        }
        "len_gt_remaining" => {
            let k = *rng.choose(&[1u64, 1, 2, 3, 7, 100, 1000, 65536]);
            remaining + k
        }
        "len_short" => {
            if s.value == 0 {
                return None;
            }
            s.value - rng.urange(1, s.value.min(64) as usize) as u64
        }
        "len_nested_overrun" => {
            // Longer than the enclosing message but still inside the input.
            let anc = ancestors(sites, idx);
            let &p = anc.last()?;
            let parent_end = sites[p].body as u64 + sites[p].value;
            let here_end = s.body as u64 + s.value;
            let room = (b.len() as u64).saturating_sub(parent_end);
            if room == 0 {
                return None;
            }
            s.value + (parent_end - here_end) + rng.urange(1, room.min(64) as usize) as u64
        }
        _ => return None,
    })
}

pub fn mutate_len_site(rng: &mut Rng, class: &'static str, b: &[u8], w: &Walk, idx: usize, safe_only: bool) -> Option<Mutant> {
    let v = hostile_len(rng, class, b, &w.sites, idx, safe_only)?;
    // The wrap offsets assume a 10-byte varint, which 2^64-k always is.
    let fix = class != "len_nested_overrun" && class != "len_short" && rng.chance(1, 2);
    let mut bytes = set_len(b, &w.sites, idx, v, fix);
    let s = &w.sites[idx];
    let mut detail = format!("{:?}.{}({})@{} len {}->{}", s.msg, s.field, s.kind.name(), s.len_pos, s.value, v);
    if class == "len_gt_remaining" && rng.chance(1, 3) {
        // Also cut the tail somewhere inside the field.
        let cut = s.len_pos + enc_varint(v).len() + rng.below((s.value as usize).min(bytes.len()) + 1);
        bytes.truncate(cut.min(bytes.len()));
        detail.push_str("+cut");
    }
    Some(Mutant { bytes, class, detail })
}

/// Replace the wire type of a tag by `wire`.
pub fn set_wire_type(b: &[u8], tag: &VarSite, wire: u8) -> Vec<u8> {
    let mut out = b.to_vec();
    out[tag.pos] = (out[tag.pos] & !7) | (wire & 7);
    out
}

pub fn mutate_wire_type(rng: &mut Rng, b: &[u8], w: &Walk) -> Option<Mutant> {
    let tags: Vec<&VarSite> = w.varints.iter().filter(|v| v.is_tag).collect();
    if tags.is_empty() {
        return None;
    }
    let t = *rng.choose(&tags);
    let old = (t.value & 7) as u8;
    let choices: Vec<u8> = [3u8, 4, 6, 7, 3, 4, 6, 7, 0, 1, 2, 5].iter().copied().filter(|x| *x != old).collect();
    let nw = *rng.choose(&choices);
    Some(Mutant { bytes: set_wire_type(b, t, nw), class: "wire_type", detail: format!("tag@{} field {} wire {}->{}", t.pos, t.value >> 3, old, nw) })
}

/// All varint positions (tags, values, lengths) of a walk.
fn all_varints(w: &Walk) -> Vec<(usize, usize, u64, Option<usize>)> {
    let mut v: Vec<(usize, usize, u64, Option<usize>)> = w.varints.iter().map(|x| (x.pos, x.size, x.value, None)).collect();
    for (i, s) in w.sites.iter().enumerate() {
        v.push((s.len_pos, s.len_size, s.value, Some(i)));
    }
    v
}

/// Cut the input in the middle of a (possibly widened) varint.
pub fn mutate_varint_trunc(rng: &mut Rng, b: &[u8], w: &Walk) -> Option<Mutant> {
    let vs = all_varints(w);
    if vs.is_empty() {
        return None;
    }
    let (pos, size, value, _) = *rng.choose(&vs);
    let wide = enc_varint_padded(value, size.max(rng.urange(2, 10)));
    let mut bytes = splice(b, pos, size, &wide);
    let keep = rng.urange(1, wide.len() - 1);
    bytes.truncate(pos + keep);
    Some(Mutant { bytes, class: "varint_trunc", detail: format!("varint@{} value {} widened to {} cut after {}", pos, value, wide.len(), keep) })
}

/// Re-encode a varint non-canonically. Up to 10 bytes the message is still
/// valid protobuf (enclosing lengths are fixed up); more than 10 bytes is not.
pub fn mutate_varint_overlong(rng: &mut Rng, b: &[u8], w: &Walk, too_long: bool) -> Option<Mutant> {
    let vs = all_varints(w);
    if vs.is_empty() {
        return None;
    }
    let (pos, size, value, site) = *rng.choose(&vs);
    let n = if too_long {
        *rng.choose(&[11usize, 11, 12, 16, 33])
    } else if size < 10 {
        rng.urange(size + 1, 10)
    } else {
        return None;
    };
    let enc = enc_varint_padded(value, n);
    let bytes = match site {
        Some(i) => set_len_raw(b, &w.sites, i, &enc, true),
        None => {
            // Fix the lengths of the messages that enclose this position.
            let mut out = splice(b, pos, size, &enc);
            let mut delta = enc.len() as i64 - size as i64;
            for a in w.sites.iter().rev() {
                if a.kind != SiteKind::Message && a.kind != SiteKind::Packed {
                    continue;
                }
                if a.body <= pos && pos < a.body + a.value as usize {
                    let e = enc_varint((a.value as i64 + delta) as u64);
                    delta += e.len() as i64 - a.len_size as i64;
                    out = splice(&out, a.len_pos, a.len_size, &e);
                }
            }
            out
        }
    };
    Some(Mutant {
        bytes,
        class: if too_long { "varint_overlong" } else { "varint_noncanonical" },
        detail: format!("varint@{} value {} in {} bytes", pos, value, n),
    })
}

/// Byte-level noise on top. Returns the class of noise applied.
pub fn noise(rng: &mut Rng, b: &[u8], donors: &[Vec<u8>]) -> (Vec<u8>, &'static str) {
    let mut out = b.to_vec();
    match rng.below(6) {
        0 | 1 if !out.is_empty() => {
            for _ in 0..rng.urange(1, 4) {
                let i = rng.below(out.len());
                out[i] = match rng.below(4) {
                    0 => out[i] ^ (1 << rng.below(8)),
                    1 => rng.next_u32() as u8,
                    2 => out[i].wrapping_add(1),
                    _ => *rng.choose(&[0u8, 0x7f, 0x80, 0xff, 0x01]),
                };
            }
            (out, "noise_flip")
        }
        2 if !out.is_empty() => {
            let cut = rng.below(out.len());
            out.truncate(cut);
            (out, "noise_trunc")
        }
        3 if !out.is_empty() => {
            // delete a chunk
            let a = rng.below(out.len());
            let n = rng.urange(1, (out.len() - a).min(32));
            out.drain(a..a + n);
            (out, "noise_delete")
        }
        4 if !out.is_empty() => {
            // duplicate a chunk in place
            let a = rng.below(out.len());
            let n = rng.urange(1, (out.len() - a).min(64));
            let chunk = out[a..a + n].to_vec();
            let at = rng.below(out.len() + 1);
            out.splice(at..at, chunk);
            (out, "noise_dup")
        }
        _ => {
            let d = rng.choose(donors);
            if d.is_empty() {
                return (out, "noise_none");
            }
            let a = rng.below(d.len());
            let n = rng.urange(1, (d.len() - a).min(96));
            let at = rng.below(out.len() + 1);
            out.splice(at..at, d[a..a + n].iter().copied());
            (out, "noise_splice")
        }
    }
}

#[derive(Clone, Copy, Debug, PartialEq)]
pub enum NestKind {
    /// model.graph -> node -> attribute -> g (graph) -> node -> ...
    GraphAttr,
    /// model.graph.input -> type -> sequence -> elem_type -> sequence -> ...
    TypeSeq,
    /// unknown fields only: the decoder skips the outermost one
    UnknownOnly,
}

impl NestKind {
    pub fn name(self) -> &'static str {
        match self {
            NestKind::GraphAttr => "graph_attr",
            NestKind::TypeSeq => "type_seq",
            NestKind::UnknownOnly => "unknown_only",
        }
    }
    pub fn from_name(s: &str) -> Option<NestKind> {
        match s {
            "graph_attr" => Some(NestKind::GraphAttr),
            "type_seq" => Some(NestKind::TypeSeq),
            "unknown_only" => Some(NestKind::UnknownOnly),
            _ => None,
        }
    }
}

/// A model nested `depth` levels deep, built in O(size). With `lie`, every
/// length claims 2^20 bytes (2-3 bytes per level) instead of the exact size.
pub fn deep_nest(kind: NestKind, depth: usize, lie: bool) -> Vec<u8> {
    // Tags of the headers repeated per level (outermost first) and the
    // one-off prefix that leads from ModelProto to the first repeated level.
    let (prefix, level): (&[u8], &[u8]) = match kind {
        // graph(7) | node(1) attribute(5) g(6)
        NestKind::GraphAttr => (&[0x3a], &[0x0a, 0x2a, 0x32]),
        // graph(7) input(11) type(2) | sequence(4) elem_type(1)
        NestKind::TypeSeq => (&[0x3a, 0x5a, 0x12], &[0x22, 0x0a]),
        // unknown field 15 nested in itself
        NestKind::UnknownOnly => (&[], &[0x7a]),
    };
    // Innermost body: a name string so the innermost message is non-empty.
    let inner: &[u8] = match kind {
        NestKind::GraphAttr => &[0x12, 0x01, b'g'],
        NestKind::TypeSeq => &[0x0a, 0x02, 0x08, 0x01],
        NestKind::UnknownOnly => &[0x08, 0x01],
    };
    let tags: Vec<u8> = prefix.iter().copied().chain((0..depth).flat_map(|_| level.iter().copied())).collect();
    // Headers from innermost to outermost.
    let mut rev: Vec<Vec<u8>> = Vec::with_capacity(tags.len());
    let mut size = inner.len() as u64;
    for &t in tags.iter().rev() {
        let claimed = if lie { 1 << 20 } else { size };
        let mut h = vec![t];
        h.extend_from_slice(&enc_varint(claimed));
        size += h.len() as u64;
        rev.push(h);
    }
    let mut out = Vec::with_capacity(size as usize + 2);
    out.extend_from_slice(&[0x08, 0x08]); // ir_version = 8
    for h in rev.iter().rev() {
        out.extend_from_slice(h);
    }
    out.extend_from_slice(inner);
    out
}
