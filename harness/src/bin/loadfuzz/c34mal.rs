//! C34, second clause: reading arbitrary bytes returns a value or an error
//! without panicking or hanging. Valid files (from the round-trip part plus
//! hand-built .npy headers) are mutated format-aware and read through the
//! public readers. Cases run in batches inside forked children: a panic is
//! caught per case, an abort / stack overflow kills the batch child and is
//! attributed to the case whose index is in the shared stage marker; the alarm
//! is re-armed per case (10 s for inputs of a few KiB, i.e. > 10^4 times the
//! normal cost; a timeout is re-run alone with 180 s before it is reported).
use crate::allocmon;
use crate::c34::{RtCase, apply_ops_view, make_value};
use crate::child::{self, ChildEnd, Shared};
use crate::shrink;
use rten_serialize::{View, npy, npz, safetensors};
use std::io::Cursor;
use std::sync::atomic::Ordering;
use vcommon::*;

/// Serialise a round-trip case to bytes (a valid file), or None.
pub fn encode(c: &RtCase) -> Option<Vec<u8>> {
    let values: Vec<_> = c.entries.iter().map(|(_, s)| make_value(s.dt, &s.base_shape, &s.bits)).collect();
    catch(|| {
        let views: Vec<(String, View<'_>)> = c.entries.iter().zip(&values).map(|((n, s), v)| (n.clone(), apply_ops_view(v.view(), &s.ops))).collect();
        match c.format.as_str() {
            "npy" => {
                let mut buf = Vec::new();
                npy::write(&mut buf, views.into_iter().next()?.1).ok()?;
                Some(buf)
            }
            "npz" => {
                let mut cur = Cursor::new(Vec::new());
                npz::write(&mut cur, views).ok()?;
                Some(cur.into_inner())
            }
            _ => {
                let mut buf = Vec::new();
                safetensors::write(&mut buf, views).ok()?;
                Some(buf)
            }
        }
    })
    .ok()
    .flatten()
}

/// Hand-built .npy files: versions 1-3, fortran order, big endian.
pub fn npy_file(version: u8, descr: &str, fortran: bool, shape: &str, data: &[u8]) -> Vec<u8> {
    let mut dict = format!("{{'descr': '{}', 'fortran_order': {}, 'shape': {}, }}", descr, if fortran { "True" } else { "False" }, shape);
    let prefix = 6 + 2 + if version == 1 { 2 } else { 4 };
    while (prefix + dict.len() + 1) % 64 != 0 {
        dict.push(' ');
    }
    dict.push('\n');
    let mut out = b"\x93NUMPY".to_vec();
    out.extend_from_slice(&[version, 0]);
    if version == 1 {
        out.extend_from_slice(&(dict.len() as u16).to_le_bytes());
    } else {
        out.extend_from_slice(&(dict.len() as u32).to_le_bytes());
    }
    out.extend_from_slice(dict.as_bytes());
    out.extend_from_slice(data);
    out
}

fn handmade_npy() -> Vec<Vec<u8>> {
    let d12: Vec<u8> = (0..48u8).collect();
    vec![
        npy_file(1, "<f4", false, "(2, 3)", &d12[..24]),
        npy_file(1, "<f4", true, "(2, 3)", &d12[..24]),
        npy_file(2, ">i2", true, "(2, 3, 2)", &d12[..24]),
        npy_file(3, "<u8", false, "(3,)", &d12[..24]),
        npy_file(1, "|b1", false, "()", &[1]),
        npy_file(1, ">f8", true, "(3, 2)", &d12),
        npy_file(1, "=i4", false, "(0, 4)", &[]),
        npy_file(2, "|u1", true, "(2, 2, 2, 3)", &d12[..24]),
    ]
}

const HOSTILE_NUMS: [&str; 16] = [
    "0", "1", "-1", "255", "65535", "65536", "4294967295", "4294967296", "2147483648", "9223372036854775807", "9223372036854775808", "18446744073709551615", "18446744073709551616",
    "99999999999999999999999999", "1e3", "",
];

fn replace_first(hay: &[u8], from: &[u8], to: &[u8]) -> Option<Vec<u8>> {
    let at = hay.windows(from.len()).position(|w| w == from)?;
    let mut out = hay[..at].to_vec();
    out.extend_from_slice(to);
    out.extend_from_slice(&hay[at + from.len()..]);
    Some(out)
}

/// Replace one run of ASCII digits (chosen at random within `range`) by `to`.
fn replace_number(rng: &mut Rng, b: &[u8], range: std::ops::Range<usize>, to: &str) -> Option<Vec<u8>> {
    let mut runs = Vec::new();
    let mut i = range.start;
    while i < range.end.min(b.len()) {
        if b[i].is_ascii_digit() {
            let s = i;
            while i < b.len() && b[i].is_ascii_digit() {
                i += 1;
            }
            runs.push((s, i));
        } else {
            i += 1;
        }
    }
    if runs.is_empty() {
        return None;
    }
    let (s, e) = *rng.choose(&runs);
    let mut out = b[..s].to_vec();
    out.extend_from_slice(to.as_bytes());
    out.extend_from_slice(&b[e..]);
    Some(out)
}

fn set_le(b: &mut [u8], at: usize, width: usize, v: u64) {
    for i in 0..width {
        if at + i < b.len() {
            b[at + i] = (v >> (8 * i)) as u8;
        }
    }
}

fn find_all(hay: &[u8], needle: &[u8]) -> Vec<usize> {
    (0..hay.len().saturating_sub(needle.len() - 1)).filter(|&i| &hay[i..i + needle.len()] == needle).collect()
}

fn generic_noise(rng: &mut Rng, b: &[u8]) -> (Vec<u8>, &'static str) {
    let mut out = b.to_vec();
    if out.is_empty() {
        return (out, "noise_none");
    }
    match rng.below(3) {
        0 => {
            let cut = rng.below(out.len());
            out.truncate(cut);
            (out, "truncate")
        }
        1 => {
            for _ in 0..rng.urange(1, 4) {
                let i = rng.below(out.len());
                out[i] = match rng.below(3) {
                    0 => out[i] ^ (1 << rng.below(8)),
                    1 => rng.next_u32() as u8,
                    _ => *rng.choose(&[0u8, 0xff, 0x7f, 0x80, b'\'', b'(', b'{', b'"']),
                };
            }
            (out, "flip")
        }
        _ => {
            let a = rng.below(out.len());
            let n = rng.urange(1, (out.len() - a).min(32));
            out.drain(a..a + n);
            (out, "delete")
        }
    }
}

/// Format-aware mutation. `truncate_only` (Miri) never increases any size.
pub fn mutate(rng: &mut Rng, format: &str, b: &[u8], truncate_only: bool) -> (Vec<u8>, &'static str) {
    if truncate_only || b.len() < 12 {
        let mut out = b.to_vec();
        let cut = if out.is_empty() { 0 } else { rng.below(out.len()) };
        out.truncate(cut);
        return (out, "truncate");
    }
    let r = mutate_aware(rng, format, b);
    match r {
        Some((bytes, class)) => {
            if rng.chance(1, 5) {
                let (b2, _) = generic_noise(rng, &bytes);
                (b2, class)
            } else {
                (bytes, class)
            }
        }
        None => generic_noise(rng, b),
    }
}

fn mutate_aware(rng: &mut Rng, format: &str, b: &[u8]) -> Option<(Vec<u8>, &'static str)> {
    let hostile: &str = *rng.choose(&HOSTILE_NUMS);
    match format {
        "npy" => {
            let v1 = b[6] == 1;
            let hstart = if v1 { 10 } else { 12 };
            let hlen = if v1 { u16::from_le_bytes([b[8], b[9]]) as usize } else { u32::from_le_bytes([b[8], b[9], b[10], b[11]]) as usize };
            let hend = (hstart + hlen).min(b.len());
            match rng.below(9) {
                0 => {
                    let mut out = b.to_vec();
                    // Every shorter length too: the dictionary then ends in the middle of a
                    // key, a literal (True / False), a number or the shape tuple.
                    let v = if rng.bool() {
                        rng.below(hlen + 2) as u64
                    } else {
                        *rng.choose(&[0u64, 1, hlen as u64 - 1, hlen as u64 + 1, 0xffff, 0xffff_ffff, 0x8000_0000, (b.len() - hstart) as u64, (b.len() - hstart) as u64 + 1])
                    };
                    set_le(&mut out, 8, if v1 { 2 } else { 4 }, v);
                    Some((out, "npy_header_len"))
                }
                1 => {
                    let mut out = b.to_vec();
                    out[6] = *rng.choose(&[0u8, 1, 2, 3, 4, 255]);
                    out[7] = *rng.choose(&[0u8, 0, 1, 255]);
                    Some((out, "npy_version"))
                }
                2 | 3 => {
                    let descrs = ["<f4", ">f4", "|b1", "<i16", "<f2", "<U4", "<c8", "", "<", "<f", "\u{e9}4", "<\u{e9}4", "<f\u{e9}", "<f4294967296", "<i0", "|u18446744073709551616", "=f8", ">u2", "<b1", "|i1", "<u8", "f4"];
                    let cur = b[hstart..hend].windows(10).position(|w| w == b"'descr': '").map(|p| hstart + p + 10)?;
                    let end = cur + b[cur..hend].iter().position(|c| *c == b'\'')?;
                    let mut out = b[..cur].to_vec();
                    out.extend_from_slice(rng.choose(&descrs).as_bytes());
                    out.extend_from_slice(&b[end..]);
                    Some((out, "npy_descr"))
                }
                4 => {
                    let to: &[u8] = *rng.choose(&[&b"True"[..], b"False", b"true", b"1", b"", b"T", b"None", b"'True'"]);
                    replace_first(b, b"False", to).or_else(|| replace_first(b, b"True", to)).map(|o| (o, "npy_fortran_order"))
                }
                5 | 6 => {
                    let shapes = [
                        "()", "(,)", "(", ")", "(1,,2)", "(18446744073709551615,)", "(4294967296, 4294967296)", "(0, 9223372036854775808, 2)", "(9223372036854775808, 0)", "(-1,)", "(2, 3", "(4294967295,)", "(65536, 65536)",
                        "(1, 1, 1, 1, 1, 1, 1, 1, 1, 1, 1, 1, 1, 1, 1, 1, 1, 1, 1, 1, 1, 1, 1, 1, 1, 1, 1, 1, 1, 1, 1, 1, 1, 1, 1, 1)", "(3, 2)", "(2, 3, 4)", "(0,)", "( 2 , 3 )", "2, 3", "[2, 3]", "(2.0, 3)", "(0, 18446744073709551615, 18446744073709551615)",
                    ];
                    let cur = b[hstart..hend].windows(9).position(|w| w == b"'shape': ").map(|p| hstart + p + 9)?;
                    let end = cur + b[cur..hend].iter().position(|c| *c == b')').map(|p| p + 1)?;
                    let mut out = b[..cur].to_vec();
                    out.extend_from_slice(rng.choose(&shapes).as_bytes());
                    out.extend_from_slice(&b[end..]);
                    Some((out, "npy_shape"))
                }
                7 => {
                    let keys: [(&[u8], &[u8]); 5] = [(b"'descr'", b"'descR'"), (b"'shape'", b"'extra'"), (b"{", b" {"), (b"{", b""), (b"}", b"")];
                    let (from, to) = *rng.choose(&keys);
                    replace_first(b, from, to).map(|o| (o, "npy_dict"))
                }
                _ => replace_number(rng, b, hstart..hend, hostile).map(|o| (o, "npy_number")),
            }
        }
        "npz" => {
            let eocd = find_all(b, b"PK\x05\x06");
            let cdir = find_all(b, b"PK\x01\x02");
            let local = find_all(b, b"PK\x03\x04");
            let vals = [0u64, 1, 0xffff, 0xffff_ffff, 0x7fff_ffff, b.len() as u64, b.len() as u64 + 1, 8, 0xfffe];
            match rng.below(8) {
                0 | 1 if !eocd.is_empty() => {
                    // EOCD: disk numbers(4,6) entries(8,10) cd size(12) cd offset(16) comment len(20)
                    let at = *eocd.last().unwrap();
                    let (off, w) = *rng.choose(&[(4usize, 2usize), (6, 2), (8, 2), (10, 2), (12, 4), (16, 4), (20, 2)]);
                    let mut out = b.to_vec();
                    set_le(&mut out, at + off, w, *rng.choose(&vals));
                    Some((out, "zip_eocd"))
                }
                2 | 3 if !cdir.is_empty() => {
                    // central header: version(4,6) flags(8) method(10) crc(16) csize(20) usize(24) name len(28) extra len(30) comment len(32) disk(34) attrs(36,38) local offset(42)
                    let at = *rng.choose(&cdir);
                    let (off, w) = *rng.choose(&[(6usize, 2usize), (8, 2), (10, 2), (16, 4), (20, 4), (24, 4), (28, 2), (30, 2), (32, 2), (34, 2), (42, 4)]);
                    let mut out = b.to_vec();
                    set_le(&mut out, at + off, w, *rng.choose(&vals));
                    Some((out, "zip_central_dir"))
                }
                4 if !local.is_empty() => {
                    // local header: version(4) flags(6) method(8) crc(14) csize(18) usize(22) name len(26) extra len(28)
                    let at = *rng.choose(&local);
                    let (off, w) = *rng.choose(&[(4usize, 2usize), (6, 2), (8, 2), (14, 4), (18, 4), (22, 4), (26, 2), (28, 2)]);
                    let mut out = b.to_vec();
                    set_le(&mut out, at + off, w, *rng.choose(&vals));
                    Some((out, "zip_local_header"))
                }
                5 => {
                    // mutate the embedded .npy header of an entry
                    let at = *find_all(b, b"\x93NUMPY").first()?;
                    replace_number(rng, b, at..(at + 120).min(b.len()), hostile).map(|o| (o, "npz_inner_npy_number"))
                }
                6 => replace_first(b, b".npy", *rng.choose(&[&b".npz"[..], b"/../", b"\0npy", b".NPY"])).map(|o| (o, "zip_name")),
                _ => None,
            }
        }
        _ => {
            let n = u64::from_le_bytes(b[..8].try_into().unwrap());
            let hend = (8 + n as usize).min(b.len());
            match rng.below(8) {
                0 | 1 => {
                    let mut out = b.to_vec();
                    let v = *rng.choose(&[0u64, 1, n - 1, n + 1, (b.len() - 8) as u64, (b.len() - 8) as u64 + 1, 1 << 31, 1 << 32, 1 << 63, u64::MAX, u64::MAX - 7, 100_000_001]);
                    set_le(&mut out, 0, 8, v);
                    Some((out, "st_header_len"))
                }
                2 | 3 => replace_number(rng, b, 8..hend, hostile).map(|o| (o, "st_json_number")),
                4 => {
                    let dts: [&[u8]; 10] = [b"\"F32\"", b"\"BOOL\"", b"\"F16\"", b"\"BF16\"", b"\"I64\"", b"\"U8\"", b"\"F8_E4M3\"", b"\"X\"", b"\"\"", b"32"];
                    let from = *rng.choose(&dts[..6]);
                    replace_first(b, from, *rng.choose(&dts)).map(|o| (o, "st_dtype"))
                }
                5 => {
                    let edits: [(&[u8], &[u8]); 7] = [(b"\"shape\"", b"\"shapE\""), (b"\"data_offsets\"", b"\"shape\""), (b"[", b"[["), (b"]", b""), (b"{", b"{\"__metadata__\":{\"a\":1},"), (b"{", b"{\"__metadata__\":{\"a\":\"b\"},"), (b":[", b":[-1,")];
                    let (from, to) = *rng.choose(&edits);
                    replace_first(b, from, to).map(|o| (o, "st_json_structure"))
                }
                6 => {
                    // drop or add payload bytes after the header
                    let mut out = b.to_vec();
                    if rng.bool() && out.len() > hend {
                        out.truncate(hend + rng.below(out.len() - hend));
                    } else {
                        out.extend_from_slice(&[0u8; 3]);
                    }
                    Some((out, "st_payload_len"))
                }
                _ => None,
            }
        }
    }
}

/// Did the bytes keep the outer framing of their format?
fn framed(format: &str, b: &[u8]) -> bool {
    match format {
        "npy" => b.starts_with(b"\x93NUMPY") && b.len() > 10,
        "npz" => !find_all(b, b"PK\x05\x06").is_empty(),
        _ => b.len() >= 8 && u64::from_le_bytes(b[..8].try_into().unwrap()) <= (b.len() - 8) as u64,
    }
}

/// Read `bytes` through every public reader of the format. Returns
/// (entry point that panicked or "", status, largest allocation request).
pub fn read_all(format: &str, bytes: &[u8]) -> (String, String, u64) {
    let mut worst_alloc = 0u64;
    let mut status = String::new();
    let mut run = |name: &str, f: &mut dyn FnMut() -> Result<usize, String>| -> Option<(String, String)> {
        let (r, a) = allocmon::measure(|| catch(|| f()));
        worst_alloc = worst_alloc.max(a as u64);
        match r {
            Err(p) => Some((name.to_string(), format!("panic:{}", p))),
            Ok(Ok(n)) => {
                if status.is_empty() || status.starts_with("err") {
                    status = format!("ok:{}", n);
                }
                None
            }
            Ok(Err(e)) => {
                if status.is_empty() {
                    status = format!("err:{}", e);
                }
                None
            }
        }
    };
    let res = match format {
        "npy" => run("npy::read", &mut || npy::read(bytes).map(|_| 1).map_err(|e| e.to_string())),
        "npz" => run("npz::read", &mut || npz::read(Cursor::new(bytes)).map(|m| m.len()).map_err(|e| e.to_string()))
            .or_else(|| run("npz::read_array", &mut || npz::read_array(Cursor::new(bytes), "a").map(|_| 1).map_err(|e| e.to_string()))),
        _ => run("safetensors::read", &mut || safetensors::read(bytes).map(|m| m.len()).map_err(|e| e.to_string()))
            .or_else(|| run("safetensors::read_array", &mut || safetensors::read_array(bytes, "a").map(|_| 1).map_err(|e| e.to_string()))),
    };
    match res {
        Some((entry, st)) => (entry, st, worst_alloc),
        None => (String::new(), status, worst_alloc),
    }
}

pub struct MalCase {
    pub format: String,
    pub bytes: Vec<u8>,
    pub class: &'static str,
}

#[derive(Clone, Debug)]
struct MalResult {
    entry: String,
    status: String,
    alloc: u64,
}

enum BatchEnd {
    Done(Vec<MalResult>),
    /// Child died while executing case `at` (index into the batch).
    Crash { at: usize, class: String, detail: String },
}

fn run_batch(shared: &Shared, cases: &[MalCase], per_case_alarm: u32) -> BatchEnd {
    if cfg!(miri) {
        return BatchEnd::Done(cases.iter().map(|c| { let (entry, status, alloc) = read_all(&c.format, &c.bytes); MalResult { entry, status, alloc } }).collect());
    }
    allocmon::set_shared(shared.max_alloc_ptr());
    let run = shared.run(per_case_alarm * 4 + 600, || {
        let mut out = Vec::new();
        for (i, c) in cases.iter().enumerate() {
            shared.hdr().stage.store(i as u32 + 1, Ordering::SeqCst);
            shared.hdr().max_alloc.store(0, Ordering::SeqCst);
            unsafe { libc::alarm(per_case_alarm) };
            let (entry, status, alloc) = read_all(&c.format, &c.bytes);
            out.push(json!([entry, status, alloc]));
        }
        Json::Array(out).to_string()
    });
    allocmon::set_shared(std::ptr::null_mut());
    if run.end == ChildEnd::Completed {
        let j: Json = serde_json::from_str(run.result.as_deref().unwrap_or("[]")).unwrap_or(Json::Null);
        let v: Vec<MalResult> = j
            .as_array()
            .map(|a| a.iter().map(|r| MalResult { entry: r[0].as_str().unwrap_or("").into(), status: r[1].as_str().unwrap_or("").into(), alloc: r[2].as_u64().unwrap_or(0) }).collect())
            .unwrap_or_default();
        if v.len() == cases.len() {
            return BatchEnd::Done(v);
        }
        return BatchEnd::Crash { at: usize::MAX, class: "harness:result_lost".into(), detail: String::new() };
    }
    let at = (run.stage as usize).saturating_sub(1);
    BatchEnd::Crash {
        at,
        class: child::crash_class(&run),
        detail: format!("child ended with {:?}; largest allocation request {} bytes; stderr: {}", run.end, run.max_alloc, run.stderr.lines().next().unwrap_or("")),
    }
}

struct MalRunner<'a> {
    rep: &'a mut Report,
    shared: Shared,
    reported: std::collections::HashSet<String>,
    alloc_example: Option<Json>,
}

impl MalRunner<'_> {
    fn one(&self, c: &MalCase, alarm: u32) -> (String, String) {
        // (entry, crash-or-panic class) of a single case run alone; "" if fine
        match run_batch(&self.shared, std::slice::from_ref(c), alarm) {
            BatchEnd::Done(v) => {
                let r = &v[0];
                if r.status.starts_with("panic:") { (r.entry.clone(), format!("panic:{}", crate::c38::norm_panic(&r.status[6..]))) } else { (String::new(), String::new()) }
            }
            BatchEnd::Crash { class, .. } => ("(child)".into(), class),
        }
    }

    fn report(&mut self, c: &MalCase, entry: &str, class: &str, detail: &str) {
        let key = format!("{}|{}|{}", c.format, entry, class);
        self.rep.count(&format!("finding.{}", key));
        if !self.reported.insert(key) {
            return;
        }
        if class == "timeout" {
            // 1.4: re-run the single input alone with a far longer alarm: on a loaded
            // machine a reader that merely allocates and clears what the header
            // announces can exceed the per-case alarm without hanging.
            let (_, again) = self.one(c, 180);
            if again != "timeout" {
                self.rep.count("timeout_not_reproduced_alone");
                return;
            }
        }
        if class == "signal:9" || class.starts_with("harness:") {
            self.rep.count("child_killed_or_harness(not judged)");
            return;
        }
        let fmt = c.format.clone();
        let gen_class = c.class;
        let t0 = std::time::Instant::now();
        let (shrunk, _) = shrink::ddmin(&c.bytes, 120, |cand| {
            t0.elapsed().as_secs_f64() < 5.0 && {
                let cc = MalCase { format: fmt.clone(), bytes: cand.to_vec(), class: gen_class };
                let (e, cl) = self.one(&cc, 10);
                cl == class && (e == entry || entry == "(child)")
            }
        });
        let sig = format!("C34|malformed:{}|{}|{}", c.format, entry, class);
        self.rep.violation(
            sig,
            format!("reading a mutated .{} file ({}): {} {} [{} bytes: {}]", c.format, c.class, class, detail, shrunk.len(), &to_hex(&shrunk)[..shrunk.len().min(48) * 2]),
            json!({"mode": "malformed", "format": c.format, "hex": to_hex(&shrunk), "generated_as": c.class, "entry": entry, "crash": class, "original_len": c.bytes.len()}),
        );
    }

    fn run_cases(&mut self, cases: &[MalCase]) {
        let mut start = 0;
        while start < cases.len() {
            match run_batch(&self.shared, &cases[start..], 10) {
                BatchEnd::Done(v) => {
                    for (c, r) in cases[start..].iter().zip(&v) {
                        self.account(c, r);
                    }
                    return;
                }
                BatchEnd::Crash { at, class, detail } => {
                    if at == usize::MAX || start + at >= cases.len() {
                        self.rep.count("batch_lost(not judged)");
                        return;
                    }
                    // cases before `at` completed fine in that child; re-run them to get their results
                    if at > 0 {
                        if let BatchEnd::Done(v) = run_batch(&self.shared, &cases[start..start + at], 10) {
                            for (c, r) in cases[start..start + at].iter().zip(&v) {
                                self.account(c, r);
                            }
                        }
                    }
                    let c = &cases[start + at];
                    self.rep.eval();
                    self.rep.count(&format!("malformed.{}", c.format));
                    self.rep.count(&format!("child_end.{}", class));
                    self.report(c, "(child)", &class, &detail);
                    start += at + 1;
                }
            }
        }
    }

    fn account(&mut self, c: &MalCase, r: &MalResult) {
        let rep = &mut *self.rep;
        rep.eval();
        rep.count(&format!("malformed.{}", c.format));
        rep.count(&format!("mut.{}", c.class));
        let kind = if r.status.starts_with("ok") { "returned_value" } else if r.status.starts_with("err") { "returned_error" } else { "panicked" };
        rep.count(&format!("{}.{}", kind, c.format));
        let len = c.bytes.len().max(1) as u64;
        rep.max("max_alloc_request_bytes(malformed)", r.alloc);
        if r.alloc > 16 * len + (1 << 20) {
            // Not part of the statement (no crash happened); recorded only.
            rep.count("alloc_request_over_16x_input_plus_1MiB(not judged)");
            if self.alloc_example.is_none() || r.alloc > self.alloc_example.as_ref().unwrap()["request"].as_u64().unwrap_or(0) {
                self.alloc_example = Some(json!({"format": c.format, "request": r.alloc, "input_len": c.bytes.len(), "hex": to_hex(&c.bytes[..c.bytes.len().min(200)]), "class": c.class}));
            }
        }
        if framed(&c.format, &c.bytes) || kind == "returned_value" {
            rep.nontrivial(&(c.format.clone(), c.bytes.clone()));
        }
        if r.status.starts_with("panic:") {
            let class = format!("panic:{}", crate::c38::norm_panic(&r.status[6..]));
            let detail = r.status[6..].to_string();
            let entry = r.entry.clone();
            self.report(c, &entry, &class, &detail);
        }
    }
}

pub fn replay(rep: &mut Report, w: &Json) {
    let c = MalCase { format: w["format"].as_str().unwrap_or("npy").to_string(), bytes: from_hex(w["hex"].as_str().unwrap_or("")), class: "replay" };
    let mut r = MalRunner { rep, shared: Shared::new(), reported: Default::default(), alloc_example: None };
    r.run_cases(&[c]);
}

pub fn run(rep: &mut Report, args: &Args, corpus: Vec<(String, Vec<u8>)>, n: u64) {
    let miri = cfg!(miri);
    let mut seeds: Vec<(String, Vec<u8>)> = corpus;
    for f in handmade_npy() {
        seeds.push(("npy".into(), f));
    }
    let mut runner = MalRunner { rep, shared: Shared::new(), reported: Default::default(), alloc_example: None };
    // the valid seeds themselves must read fine
    let seed_cases: Vec<MalCase> = seeds.iter().map(|(f, b)| MalCase { format: f.clone(), bytes: b.clone(), class: "valid_seed" }).collect();
    runner.run_cases(&seed_cases);
    let by_format: Vec<Vec<usize>> = ["npy", "npz", "safetensors"].iter().map(|f| (0..seeds.len()).filter(|&i| seeds[i].0 == *f && !seeds[i].1.is_empty()).collect()).collect();
    let base = (args.shard as u64) << 40;
    let mut k = 0u64;
    let batch = if miri { 8 } else { 64 };
    while k < n {
        let mut cases = Vec::new();
        while cases.len() < batch && k < n {
            let mut rng = Rng::derive(args.seed, 0x34_8000_0000 + base + k);
            k += 1;
            let fi = (k % 3) as usize;
            if by_format[fi].is_empty() {
                continue;
            }
            let (format, bytes) = &seeds[*rng.choose(&by_format[fi])];
            let (mutant, class) = mutate(&mut rng, format, bytes, miri);
            cases.push(MalCase { format: format.clone(), bytes: mutant, class });
        }
        runner.run_cases(&cases);
    }
    if let Some(e) = runner.alloc_example.take() {
        runner.rep.note("largest_allocation_request_on_malformed_input(not judged)", e);
    }
}
