//! Allocation monitor: a `#[global_allocator]` wrapper (declared in main.rs)
//! that records the largest single allocation request made while a monitored
//! region is active.
//!
//! Two maxima are kept: `region` (since `begin`) and `call` (since
//! `call_reset`, used by the counting reader to attribute an allocation to
//! one `read_bytes(len)` call). When a shared page is installed (child runs),
//! the region maximum is mirrored there *before* the request is forwarded, so
//! the parent can read it after the child was killed by an allocation failure.
//!
//! Requests above `REFUSE_ABOVE` are answered with a null pointer instead of
//! being forwarded. That makes "the decoder asks for 2^40 bytes" abort
//! deterministically, independent of the host's overcommit policy; such inputs
//! are only ever executed in child processes (see c38::needs_child).
use std::alloc::{GlobalAlloc, Layout, System};
use std::sync::atomic::{AtomicBool, AtomicPtr, AtomicU64, AtomicUsize, Ordering};

pub struct MonAlloc;

static ACTIVE: AtomicBool = AtomicBool::new(false);
static REGION_MAX: AtomicUsize = AtomicUsize::new(0);
static CALL_MAX: AtomicUsize = AtomicUsize::new(0);
static N_ALLOCS: AtomicU64 = AtomicU64::new(0);
static SHARED_MAX: AtomicPtr<AtomicU64> = AtomicPtr::new(std::ptr::null_mut());

/// Requests larger than this are refused while a region is active
/// (4 GiB + 64 KiB: the 2^31+-k and 2^32+-k length classes are still served,
/// lazily, by the system allocator; anything larger aborts deterministically).
pub const REFUSE_ABOVE: usize = (1 << 32) + (1 << 16);

/// Current refusal threshold. `REFUSE_ABOVE` unless an engine lowers it for a
/// phase whose aborts it does not judge (C05: running a hostile model), to
/// protect the host's memory.
static REFUSE: AtomicUsize = AtomicUsize::new(REFUSE_ABOVE);

#[allow(dead_code)]
pub fn set_refuse_above(n: usize) {
    REFUSE.store(n, Ordering::Relaxed);
}

/// Optional callback invoked (once per refused request, not re-entrantly)
/// just before a request is refused, so that an engine can record who asked.
static ON_REFUSE: AtomicUsize = AtomicUsize::new(0);
static IN_REFUSE_HOOK: AtomicBool = AtomicBool::new(false);

#[allow(dead_code)]
pub fn set_on_refuse(f: fn(usize)) {
    ON_REFUSE.store(f as usize, Ordering::Relaxed);
}

#[inline]
fn note(size: usize) -> bool {
    if !ACTIVE.load(Ordering::Relaxed) {
        return true;
    }
    N_ALLOCS.fetch_add(1, Ordering::Relaxed);
    REGION_MAX.fetch_max(size, Ordering::Relaxed);
    CALL_MAX.fetch_max(size, Ordering::Relaxed);
    let sh = SHARED_MAX.load(Ordering::Relaxed);
    if !sh.is_null() {
        // Safety: the pointer refers to a live shared mapping (child.rs).
        unsafe { (*sh).fetch_max(size as u64, Ordering::Relaxed) };
    }
    if size <= REFUSE.load(Ordering::Relaxed) {
        return true;
    }
    let hook = ON_REFUSE.load(Ordering::Relaxed);
    if hook != 0 && !IN_REFUSE_HOOK.swap(true, Ordering::SeqCst) {
        // Safety: only `set_on_refuse` stores here, and it stores a `fn(usize)`.
        let f: fn(usize) = unsafe { std::mem::transmute(hook) };
        f(size);
        IN_REFUSE_HOOK.store(false, Ordering::SeqCst);
    }
    false
}

unsafe impl GlobalAlloc for MonAlloc {
    unsafe fn alloc(&self, layout: Layout) -> *mut u8 {
        if !note(layout.size()) {
            return std::ptr::null_mut();
        }
        unsafe { System.alloc(layout) }
    }
    unsafe fn alloc_zeroed(&self, layout: Layout) -> *mut u8 {
        if !note(layout.size()) {
            return std::ptr::null_mut();
        }
        unsafe { System.alloc_zeroed(layout) }
    }
    unsafe fn realloc(&self, ptr: *mut u8, layout: Layout, new_size: usize) -> *mut u8 {
        if !note(new_size) {
            return std::ptr::null_mut();
        }
        unsafe { System.realloc(ptr, layout, new_size) }
    }
    unsafe fn dealloc(&self, ptr: *mut u8, layout: Layout) {
        unsafe { System.dealloc(ptr, layout) }
    }
}

/// Start a monitored region (resets the region maximum).
pub fn begin() {
    REGION_MAX.store(0, Ordering::Relaxed);
    CALL_MAX.store(0, Ordering::Relaxed);
    ACTIVE.store(true, Ordering::Relaxed);
}

/// End the monitored region; returns the largest single request seen.
pub fn end() -> usize {
    ACTIVE.store(false, Ordering::Relaxed);
    REGION_MAX.load(Ordering::Relaxed)
}

/// Run `f` as a monitored region. Returns (result, largest request).
pub fn measure<T>(f: impl FnOnce() -> T) -> (T, usize) {
    begin();
    let r = f();
    let m = end();
    (r, m)
}

pub fn call_reset() {
    CALL_MAX.store(0, Ordering::Relaxed);
}

pub fn call_max() -> usize {
    CALL_MAX.load(Ordering::Relaxed)
}

pub fn n_allocs() -> u64 {
    N_ALLOCS.load(Ordering::Relaxed)
}

/// Mirror the region maximum into `p` (a location in shared memory), or stop
/// mirroring when `p` is null.
pub fn set_shared(p: *mut AtomicU64) {
    SHARED_MAX.store(p, Ordering::Relaxed);
}
