//! Structure-aware ONNX mutators for C05: the model is parsed into a generic
//! protobuf field tree, chosen fields of a TensorProto / GraphProto /
//! NodeProto are replaced, and the tree is re-encoded (so all enclosing
//! lengths stay consistent and the mutant gets past the framing).
use vcommon::Rng;
use vcommon::onnxpb::varint;

#[derive(Clone, Debug)]
pub struct Field {
    pub num: u32,
    pub wire: u8,
    /// wire 0: the varint; wire 1/5: the fixed value.
    pub val: u64,
    /// wire 2: the payload.
    pub data: Vec<u8>,
}

impl Field {
    pub fn varint(num: u32, v: u64) -> Field {
        Field { num, wire: 0, val: v, data: Vec::new() }
    }
    pub fn bytes(num: u32, b: &[u8]) -> Field {
        Field { num, wire: 2, val: 0, data: b.to_vec() }
    }
}

fn read_varint(b: &[u8], pos: &mut usize) -> Option<u64> {
    let mut v = 0u64;
    for i in 0..10 {
        let byte = *b.get(*pos)?;
        *pos += 1;
        v |= ((byte & 0x7f) as u64) << (7 * i);
        if byte < 0x80 {
            return Some(v);
        }
    }
    None
}

pub fn parse(b: &[u8]) -> Option<Vec<Field>> {
    let mut pos = 0;
    let mut out = Vec::new();
    while pos < b.len() {
        let tag = read_varint(b, &mut pos)?;
        let num = (tag >> 3) as u32;
        let wire = (tag & 7) as u8;
        let mut f = Field { num, wire, val: 0, data: Vec::new() };
        match wire {
            0 => f.val = read_varint(b, &mut pos)?,
            1 => {
                f.val = u64::from_le_bytes(b.get(pos..pos + 8)?.try_into().ok()?);
                pos += 8;
            }
            5 => {
                f.val = u32::from_le_bytes(b.get(pos..pos + 4)?.try_into().ok()?) as u64;
                pos += 4;
            }
            2 => {
                let len = read_varint(b, &mut pos)? as usize;
                f.data = b.get(pos..pos.checked_add(len)?)?.to_vec();
                pos += len;
            }
            3 | 4 => {}
            _ => return None,
        }
        out.push(f);
    }
    Some(out)
}

pub fn encode(fs: &[Field]) -> Vec<u8> {
    let mut out = Vec::new();
    for f in fs {
        varint(((f.num as u64) << 3) | f.wire as u64, &mut out);
        match f.wire {
            0 => varint(f.val, &mut out),
            1 => out.extend_from_slice(&f.val.to_le_bytes()),
            5 => out.extend_from_slice(&(f.val as u32).to_le_bytes()),
            2 => {
                varint(f.data.len() as u64, &mut out);
                out.extend_from_slice(&f.data);
            }
            _ => {}
        }
    }
    out
}

/// A path from the ModelProto to a nested message: (field number, index of
/// the occurrence among the fields with that number).
pub type Path = Vec<(u32, usize)>;

#[derive(Clone, Debug, PartialEq)]
pub enum Kind {
    Tensor,
    Graph,
    Node,
    ValueInfo,
}

/// Enumerate the tensors / graphs / nodes / value infos reachable from a
/// ModelProto the way rten-onnx walks it.
pub fn enumerate(model: &[u8]) -> Vec<(Path, Kind)> {
    let mut out = Vec::new();
    let Some(fs) = parse(model) else { return out };
    let mut k = 0;
    for f in &fs {
        if f.num == 7 && f.wire == 2 {
            walk_graph(&f.data, vec![(7, k)], &mut out, 0);
            k += 1;
        }
    }
    out
}

fn walk_graph(b: &[u8], path: Path, out: &mut Vec<(Path, Kind)>, depth: usize) {
    out.push((path.clone(), Kind::Graph));
    if depth > 8 {
        return;
    }
    let Some(fs) = parse(b) else { return };
    let mut counts = std::collections::HashMap::<u32, usize>::new();
    for f in &fs {
        let k = *counts.get(&f.num).unwrap_or(&0);
        counts.insert(f.num, k + 1);
        if f.wire != 2 {
            continue;
        }
        let mut p = path.clone();
        p.push((f.num, k));
        match f.num {
            5 => out.push((p, Kind::Tensor)),
            11 | 12 | 13 => out.push((p, Kind::ValueInfo)),
            1 => {
                out.push((p.clone(), Kind::Node));
                // attributes
                if let Some(nfs) = parse(&f.data) {
                    let mut ak = 0;
                    for nf in &nfs {
                        if nf.num == 5 && nf.wire == 2 {
                            let mut ap = p.clone();
                            ap.push((5, ak));
                            ak += 1;
                            if let Some(afs) = parse(&nf.data) {
                                let (mut tk, mut gk) = (0, 0);
                                for af in &afs {
                                    if af.wire != 2 {
                                        continue;
                                    }
                                    if af.num == 5 {
                                        let mut tp = ap.clone();
                                        tp.push((5, tk));
                                        tk += 1;
                                        out.push((tp, Kind::Tensor));
                                    } else if af.num == 6 {
                                        let mut gp = ap.clone();
                                        gp.push((6, gk));
                                        gk += 1;
                                        walk_graph(&af.data, gp, out, depth + 1);
                                    }
                                }
                            }
                        }
                    }
                }
            }
            _ => {}
        }
    }
}

/// Re-encode `msg` with the sub-message at `path` edited by `f`.
pub fn edit(msg: &[u8], path: &[(u32, usize)], f: &mut dyn FnMut(&mut Vec<Field>)) -> Option<Vec<u8>> {
    let mut fs = parse(msg)?;
    if path.is_empty() {
        f(&mut fs);
        return Some(encode(&fs));
    }
    let (num, idx) = path[0];
    let mut k = 0;
    for fld in fs.iter_mut() {
        if fld.num == num && fld.wire == 2 {
            if k == idx {
                fld.data = edit(&fld.data, &path[1..], f)?;
                return Some(encode(&fs));
            }
            k += 1;
        }
    }
    None
}

pub fn get(msg: &[u8], path: &[(u32, usize)]) -> Option<Vec<u8>> {
    if path.is_empty() {
        return Some(msg.to_vec());
    }
    let fs = parse(msg)?;
    let (num, idx) = path[0];
    let mut k = 0;
    for fld in &fs {
        if fld.num == num && fld.wire == 2 {
            if k == idx {
                return get(&fld.data, &path[1..]);
            }
            k += 1;
        }
    }
    None
}

// ---------------------------------------------------------------- tensors

pub struct TensorInfo {
    pub dims: Vec<i64>,
    pub dtype: i64,
    pub raw_len: Option<usize>,
    pub n_float: usize,
    pub n_int32: usize,
    pub n_int64: usize,
    pub n_double: usize,
}

fn count_packed_varints(b: &[u8]) -> usize {
    b.iter().filter(|x| **x < 0x80).count()
}

pub fn tensor_info(fs: &[Field]) -> TensorInfo {
    let mut t = TensorInfo { dims: Vec::new(), dtype: 0, raw_len: None, n_float: 0, n_int32: 0, n_int64: 0, n_double: 0 };
    for f in fs {
        match (f.num, f.wire) {
            (1, 0) => t.dims.push(f.val as i64),
            (1, 2) => {
                let mut pos = 0;
                while pos < f.data.len() {
                    match read_varint(&f.data, &mut pos) {
                        Some(v) => t.dims.push(v as i64),
                        None => break,
                    }
                }
            }
            (2, 0) => t.dtype = f.val as i64,
            (9, 2) => t.raw_len = Some(f.data.len()),
            (4, 5) => t.n_float += 1,
            (4, 2) => t.n_float += f.data.len() / 4,
            (5, 0) => t.n_int32 += 1,
            (5, 2) => t.n_int32 += count_packed_varints(&f.data),
            (7, 0) => t.n_int64 += 1,
            (7, 2) => t.n_int64 += count_packed_varints(&f.data),
            (10, 1) => t.n_double += 1,
            (10, 2) => t.n_double += f.data.len() / 8,
            _ => {}
        }
    }
    t
}

pub fn elem_size(dtype: i64) -> usize {
    match dtype {
        1 | 6 | 12 => 4,
        2 | 3 | 9 => 1,
        5 | 4 | 10 | 16 => 2,
        7 | 11 | 13 => 8,
        _ => 4,
    }
}

fn set_dims(fs: &mut Vec<Field>, dims: &[u64], packed: bool) {
    let at = fs.iter().position(|f| f.num == 1).unwrap_or(0);
    fs.retain(|f| f.num != 1);
    let at = at.min(fs.len());
    if packed {
        let mut b = Vec::new();
        for d in dims {
            varint(*d, &mut b);
        }
        fs.insert(at, Field::bytes(1, &b));
    } else {
        for (i, d) in dims.iter().enumerate() {
            fs.insert(at + i, Field::varint(1, *d));
        }
    }
}

/// Multiplicative inverse of an odd number modulo 2^64.
fn inv_mod_2p64(a: u64) -> u64 {
    let mut x = a; // correct to 3 bits
    for _ in 0..6 {
        x = x.wrapping_mul(2u64.wrapping_sub(a.wrapping_mul(x)));
    }
    x
}

/// Hostile dims. `n` is the number of elements the tensor's data really has.
pub fn hostile_dims(rng: &mut Rng, n: u64, orig: &[i64]) -> (Vec<u64>, &'static str) {
    let p32 = 1u64 << 32;
    match rng.below(16) {
        0 => (vec![p32, p32], "dims_2p32x2p32"),
        1 => (vec![1u64 << 63, 2], "dims_2p63x2"),
        2 => (vec![1u64 << 61, 8], "dims_2p61x8"),
        3 => (vec![(-1i64) as u64], "dims_negative"),
        4 => (vec![0, 1u64 << 62, n.max(1)], "dims_zero_and_huge"),
        5 => (vec![1u64 << 62, 0], "dims_huge_and_zero"),
        6 => (vec![1 << 16, 1 << 16, 1 << 16, 1 << 16], "dims_2p16^4"),
        7 => (vec![1 << 16, 1 << 16, 1 << 16, 1 << 16, n.max(1)], "dims_2p64_times_n"),
        8 => {
            // Product that equals n modulo 2^64 with every dim < 2^63.
            for _ in 0..64 {
                let b = (rng.next_u64() | 1) & ((1 << 40) - 1);
                let a = n.wrapping_mul(inv_mod_2p64(b));
                if a < (1u64 << 63) && a > 1 && (a as u128) * (b as u128) > u64::MAX as u128 {
                    return (vec![a, b], "dims_wrap_to_n");
                }
            }
            (vec![(1u64 << 62) + n, 4], "dims_wrap_to_4n")
        }
        9 => (vec![n + 1], "dims_n_plus_1"),
        10 => (vec![n.saturating_sub(1)], "dims_n_minus_1"),
        11 => (vec![], "dims_scalar"),
        12 => (vec![i64::MAX as u64], "dims_i64max"),
        13 => {
            let mut d: Vec<u64> = orig.iter().map(|x| *x as u64).collect();
            d.push(1u64 << rng.urange(31, 62));
            (d, "dims_orig_times_huge")
        }
        14 => (vec![(1u64 << 31) + rng.below(3) as u64, (1u64 << 31) + rng.below(3) as u64], "dims_2p31x2p31"),
        _ => (vec![1u64 << 62, 4], "dims_2p62x4"),
    }
}

pub const DTYPES: [i64; 14] = [1, 2, 3, 6, 7, 9, 10, 11, 16, 0, 8, 5, 12, 99];

/// Apply one tensor-level mutation. Returns the class name.
pub fn mutate_tensor(rng: &mut Rng, fs: &mut Vec<Field>) -> String {
    let info = tensor_info(fs);
    let esz = elem_size(info.dtype) as u64;
    let n_real: u64 = if let Some(r) = info.raw_len { r as u64 / esz.max(1) } else { (info.n_float + info.n_int32 + info.n_int64 + info.n_double) as u64 };
    // Shapes whose extent computation wraps to a small number if any step of it
    // is done with wrapping arithmetic, paired with a data length near that number:
    // (a-1)*b*c is a multiple of 2^64, so only b*c-ish elements seem to be needed.
    if rng.chance(1, 12) {
        let (a, rest): (i64, Vec<i64>) = match rng.below(4) {
            0 => ((1i64 << 62) + 1, vec![2, 2]),
            1 => ((1i64 << 62) + 1, vec![4, 2]),
            2 => ((1i64 << 61) + 1, vec![8]),
            _ => ((1i64 << 60) + 1, vec![4, 4]),
        };
        let inner: i64 = rest.iter().product();
        let n = rng.urange(0, inner as usize + 1);
        let mut d = vec![a];
        d.extend(rest);
        set_dims(fs, &d.iter().map(|x| *x as u64).collect::<Vec<u64>>(), false);
        fs.retain(|f| !matches!(f.num, 4 | 5 | 7 | 9 | 10 | 11 | 13 | 14));
        fs.push(Field::bytes(9, &vec![0x40; n * esz.max(1) as usize]));
        return format!("wrap_crafted_dims_data={}of{}", n, inner);
    }
    match rng.below(14) {
        0..=4 => {
            let (d, name) = hostile_dims(rng, n_real, &info.dims);
            set_dims(fs, &d, rng.chance(1, 4));
            name.to_string()
        }
        5 => {
            // raw_data shorter / longer than the shape
            if let Some(f) = fs.iter_mut().find(|f| f.num == 9 && f.wire == 2) {
                match rng.below(5) {
                    0 => {
                        let k = rng.urange(1, (esz as usize).max(1)).min(f.data.len());
                        f.data.truncate(f.data.len() - k);
                        "raw_short_partial_element".into()
                    }
                    1 => {
                        let k = (esz as usize).min(f.data.len());
                        f.data.truncate(f.data.len() - k);
                        "raw_short_one_element".into()
                    }
                    2 => {
                        f.data.clear();
                        "raw_empty".into()
                    }
                    3 => {
                        f.data.extend(std::iter::repeat_n(0x41, rng.urange(1, 2 * esz as usize)));
                        "raw_long".into()
                    }
                    _ => {
                        let half = f.data.len() / 2;
                        f.data.truncate(half);
                        "raw_half".into()
                    }
                }
            } else {
                fs.push(Field::bytes(9, &vec![0x3f; rng.urange(0, 17)]));
                "typed_plus_raw".into()
            }
        }
        6 | 7 => {
            let cur = info.dtype;
            let choices: Vec<i64> = DTYPES.iter().copied().filter(|d| *d != cur).collect();
            let nd = *rng.choose(&choices);
            if let Some(f) = fs.iter_mut().find(|f| f.num == 2 && f.wire == 0) {
                f.val = nd as u64;
            } else {
                fs.push(Field::varint(2, nd as u64));
            }
            format!("dtype_{}_to_{}", cur, nd)
        }
        8 => {
            // typed data next to raw data, or a second typed field
            match rng.below(3) {
                0 => {
                    let vals: Vec<u8> = (0..rng.urange(1, 6)).flat_map(|i| (i as f32).to_le_bytes()).collect();
                    fs.push(Field::bytes(4, &vals));
                    "add_float_data".into()
                }
                1 => {
                    let mut b = Vec::new();
                    for i in 0..rng.urange(1, 6) {
                        varint((i as i64 - 2) as u64, &mut b);
                    }
                    fs.push(Field::bytes(if rng.bool() { 5 } else { 7 }, &b));
                    "add_int_data".into()
                }
                _ => {
                    fs.push(Field::bytes(9, &vec![0x01; rng.urange(0, 33)]));
                    "add_raw_data".into()
                }
            }
        }
        9 => {
            // drop or lengthen typed data
            if let Some(i) = fs.iter().position(|f| matches!(f.num, 4 | 5 | 7 | 10)) {
                if rng.bool() {
                    fs.remove(i);
                    "typed_drop_one_field".into()
                } else {
                    let f = fs[i].clone();
                    fs.insert(i, f);
                    "typed_duplicate_field".into()
                }
            } else {
                fs.retain(|f| f.num != 9);
                "raw_removed".into()
            }
        }
        10 => {
            fs.retain(|f| f.num != 8);
            if rng.bool() {
                fs.push(Field::bytes(8, b""));
                "name_empty".into()
            } else {
                "name_missing".into()
            }
        }
        11 | 12 => {
            // external data with hostile offset / length
            let total = crate::c05exec::EXT_DATA_LEN as u64;
            let need = n_real.max(1) * esz;
            let pick = |rng: &mut Rng| -> String {
                match rng.below(12) {
                    0 => "0".into(),
                    1 => format!("{}", total),
                    2 => format!("{}", total - 1),
                    3 => format!("{}", total + 1),
                    4 => format!("{}", 1u64 << 32),
                    5 => format!("{}", 1u64 << 62),
                    6 => format!("{}", (1u64 << 63) - 1),
                    7 => format!("{}", u64::MAX),
                    8 => format!("{}", u64::MAX - total + 1),
                    9 => "-1".into(),
                    10 => format!("{}", need),
                    _ => format!("{}", rng.below(64)),
                }
            };
            let (off, len) = match rng.below(4) {
                0 => ("0".to_string(), format!("{}", need.min(total))),
                1 => (pick(rng), format!("{}", need.min(total))),
                2 => ("0".to_string(), pick(rng)),
                _ => (pick(rng), pick(rng)),
            };
            fs.retain(|f| !matches!(f.num, 13 | 14 | 9));
            // An empty tensor with an empty range: legitimate, and the loader's buffer
            // for it has no allocation (dangling, byte-aligned pointer).
            let (off, len) = if rng.chance(1, 5) {
                fs.retain(|f| f.num != 1);
                fs.push(Field::varint(1, 0));
                (if rng.bool() { "0".to_string() } else { off }, "0".to_string())
            } else {
                (off, len)
            };
            let loc_name = match rng.below(8) {
                0 => "../weights.data",
                1 => "missing.data",
                2 => "",
                _ => crate::c05exec::EXT_DATA_NAME,
            };
            for (k, v) in [("location", loc_name.to_string()), ("offset", off.clone()), ("length", len.clone())] {
                if rng.chance(1, 24) {
                    continue;
                }
                let mut e = Vec::new();
                e.extend(encode(&[Field::bytes(1, k.as_bytes()), Field::bytes(2, v.as_bytes())]));
                fs.push(Field::bytes(13, &e));
            }
            fs.push(Field::varint(14, if rng.chance(1, 16) { 2 } else { 1 }));
            format!("external_off={}_len={}", classify_num(&off), classify_num(&len))
        }
        _ => {
            // duplicate scalar fields
            fs.push(Field::varint(2, *rng.choose(&DTYPES) as u64));
            "dtype_duplicated".into()
        }
    }
}

fn classify_num(s: &str) -> &'static str {
    match s.parse::<u64>() {
        Err(_) => "invalid",
        Ok(v) if v >= (1u64 << 62) => "huge",
        Ok(v) if v >= (1u64 << 32) => "2p32",
        Ok(v) if v > 4096 => "past_end",
        Ok(_) => "small",
    }
}

// ---------------------------------------------------------------- graph / node level

fn names_in(fs: &[Field], num: u32) -> Vec<Vec<u8>> {
    fs.iter().filter(|f| f.num == num && f.wire == 2).map(|f| f.data.clone()).collect()
}

fn name_of(msg: &[u8]) -> Option<Vec<u8>> {
    // ValueInfoProto.name = 1, TensorProto.name = 8
    parse(msg)?.into_iter().find(|f| f.num == 1 && f.wire == 2).map(|f| f.data)
}

/// Apply one graph-level mutation (names, references, duplicates).
pub fn mutate_graph(rng: &mut Rng, fs: &mut Vec<Field>) -> String {
    let idx_of = |fs: &Vec<Field>, num: u32| -> Vec<usize> { fs.iter().enumerate().filter(|(_, f)| f.num == num && f.wire == 2).map(|(i, _)| i).collect() };
    match rng.below(10) {
        0 => {
            // drop the name of a graph input / output / value_info
            let num = *rng.choose(&[11u32, 12, 13]);
            let ix = idx_of(fs, num);
            if ix.is_empty() {
                return "noop".into();
            }
            let i = *rng.choose(&ix);
            if let Some(mut vfs) = parse(&fs[i].data) {
                vfs.retain(|f| f.num != 1);
                if rng.bool() {
                    vfs.insert(0, Field::bytes(1, b""));
                }
                fs[i].data = encode(&vfs);
            }
            format!("value_name_missing_f{}", num)
        }
        1 => {
            // two initializers with one name / an initializer named like an input
            let ix = idx_of(fs, 5);
            if ix.is_empty() {
                return "noop".into();
            }
            let i = *rng.choose(&ix);
            let dup = fs[i].clone();
            fs.insert(i, dup);
            "initializer_duplicated".into()
        }
        2 => {
            // output list names something that does not exist / twice
            let ix = idx_of(fs, 12);
            if ix.is_empty() {
                return "noop".into();
            }
            let i = *rng.choose(&ix);
            if rng.bool() {
                let dup = fs[i].clone();
                fs.push(dup);
                "graph_output_twice".into()
            } else {
                if let Some(mut vfs) = parse(&fs[i].data) {
                    vfs.retain(|f| f.num != 1);
                    vfs.insert(0, Field::bytes(1, b"no_such_value"));
                    fs[i].data = encode(&vfs);
                }
                "graph_output_dangling".into()
            }
        }
        3 => {
            // a node whose output is an initializer's / input's name, or another node's output
            let nodes = idx_of(fs, 1);
            if nodes.is_empty() {
                return "noop".into();
            }
            let mut pool: Vec<Vec<u8>> = Vec::new();
            for i in idx_of(fs, 5) {
                if let Some(t) = parse(&fs[i].data) {
                    pool.extend(names_in(&t, 8));
                }
            }
            for i in idx_of(fs, 11) {
                pool.extend(name_of(&fs[i].data));
            }
            for &i in &nodes {
                if let Some(n) = parse(&fs[i].data) {
                    pool.extend(names_in(&n, 2));
                }
            }
            if pool.is_empty() {
                return "noop".into();
            }
            let victim = *rng.choose(&nodes);
            let name = rng.choose(&pool).clone();
            if let Some(mut nfs) = parse(&fs[victim].data) {
                if let Some(o) = nfs.iter_mut().find(|f| f.num == 2 && f.wire == 2) {
                    o.data = name;
                } else {
                    nfs.push(Field::bytes(2, &name));
                }
                fs[victim].data = encode(&nfs);
            }
            "node_output_collides".into()
        }
        4 => {
            // node inputs: dangling, empty, self-reference
            let nodes = idx_of(fs, 1);
            if nodes.is_empty() {
                return "noop".into();
            }
            let victim = *rng.choose(&nodes);
            let mut class = "node_input_dangling";
            if let Some(mut nfs) = parse(&fs[victim].data) {
                let outs = names_in(&nfs, 2);
                let ins: Vec<usize> = nfs.iter().enumerate().filter(|(_, f)| f.num == 1 && f.wire == 2).map(|(i, _)| i).collect();
                if let Some(&i) = ins.first() {
                    match rng.below(3) {
                        0 => nfs[i].data = b"never_defined".to_vec(),
                        1 => {
                            nfs[i].data.clear();
                            class = "node_input_empty";
                        }
                        _ => {
                            if let Some(o) = outs.first() {
                                nfs[i].data = o.clone();
                                class = "node_input_is_own_output";
                            }
                        }
                    }
                } else {
                    nfs.push(Field::bytes(1, b"never_defined"));
                }
                fs[victim].data = encode(&nfs);
            }
            class.into()
        }
        5 => {
            // node without outputs / without op_type / without name
            let nodes = idx_of(fs, 1);
            if nodes.is_empty() {
                return "noop".into();
            }
            let victim = *rng.choose(&nodes);
            let drop = *rng.choose(&[2u32, 4, 3, 1]);
            if let Some(mut nfs) = parse(&fs[victim].data) {
                nfs.retain(|f| f.num != drop);
                fs[victim].data = encode(&nfs);
            }
            format!("node_field_{}_dropped", drop)
        }
        6 => {
            // swap two nodes (topological order broken) or duplicate one
            let nodes = idx_of(fs, 1);
            if nodes.len() < 2 {
                return "noop".into();
            }
            if rng.bool() {
                let a = *rng.choose(&nodes);
                let b = *rng.choose(&nodes);
                fs.swap(a, b);
                "nodes_swapped".into()
            } else {
                let a = *rng.choose(&nodes);
                let d = fs[a].clone();
                fs.push(d);
                "node_duplicated".into()
            }
        }
        7 => {
            // graph input that is also an initializer, with a different shape
            let inits = idx_of(fs, 5);
            if inits.is_empty() {
                return "noop".into();
            }
            let i = *rng.choose(&inits);
            let Some(t) = parse(&fs[i].data) else { return "noop".into() };
            let Some(name) = names_in(&t, 8).into_iter().next() else { return "noop".into() };
            let vi = vcommon::onnxpb::value_info(&String::from_utf8_lossy(&name), 1, Some(&[vcommon::onnxpb::Dim::Fixed(7)]));
            fs.push(Field::bytes(if rng.bool() { 11 } else { 12 }, &vi.buf));
            "initializer_also_input_or_output".into()
        }
        8 => {
            // drop all graph inputs or outputs
            let num = *rng.choose(&[11u32, 12]);
            fs.retain(|f| f.num != num);
            format!("graph_field_{}_dropped", num)
        }
        _ => {
            // value_info with hostile dims for an existing value
            let ix = idx_of(fs, 11);
            if ix.is_empty() {
                return "noop".into();
            }
            let i = *rng.choose(&ix);
            let Some(name) = name_of(&fs[i].data) else { return "noop".into() };
            let d = *rng.choose(&[i64::MAX, -1, 1 << 32, 1 << 62, 0]);
            let vi = vcommon::onnxpb::value_info(&String::from_utf8_lossy(&name), *rng.choose(&[1, 6, 7, 9, 99]), Some(&[vcommon::onnxpb::Dim::Fixed(d), vcommon::onnxpb::Dim::Fixed(d)]));
            fs[i].data = vi.buf;
            "input_dims_hostile".into()
        }
    }
}

/// Wrap the main graph `depth` times in If-node graph attributes (valid ONNX
/// nesting all the way down, unlike pbmut::deep_nest which is bare framing).
pub fn nest_graph(model_bytes: &[u8], depth: usize) -> Option<Vec<u8>> {
    use vcommon::onnxpb::*;
    let mut inner = get(model_bytes, &[(7, 0)])?;
    for i in 0..depth {
        let g = Pb { buf: inner.clone() };
        // One deep branch; the other one is a tiny graph (so size is linear in depth).
        let small = graph("e", &[node("Identity", "id", &["cond"], &["e_out"], &[])], &[], &[], &[value_info("e_out", BOOL, None)]);
        let n = node("If", &format!("if{}", i), &["cond"], &[&format!("o{}", i)], &[("then_branch", Attr::Graph(g)), ("else_branch", Attr::Graph(small))]);
        let outer = graph("nest", &[n], &[], &[value_info("cond", BOOL, Some(&[]))], &[value_info(&format!("o{}", i), FLOAT, None)]);
        inner = outer.buf;
        if inner.len() > 4 << 20 {
            return None;
        }
    }
    let mut fs = parse(model_bytes)?;
    let slot = fs.iter_mut().find(|f| f.num == 7 && f.wire == 2)?;
    slot.data = inner;
    Some(encode(&fs))
}
