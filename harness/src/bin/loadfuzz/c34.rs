use vcommon::*;
pub fn run(_args: &Args) {}
