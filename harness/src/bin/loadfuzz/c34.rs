//! C34: tensor file formats round-trip and reject malformed files.
//!
//! Statement decided: "Writing any tensor of a supported element type (from
//! any memory layout) to .npy, .npz or .safetensors and reading it back yields
//! the same shape, element type and elements, and reading arbitrary bytes
//! returns a value or an error without panicking or hanging."
//!
//! Round trip: the source is a base tensor plus a chain of layout operations
//! (permute / strided slice / broadcast) applied with rten-tensor; the expected
//! elements are computed independently with `vcommon::naive::Arr`. Elements
//! are compared as: both NaN, or IEEE-equal (a changed sign of zero or NaN
//! payload is counted, not reported: "same elements" does not say "bits").
//! Malformed files: see c34mal.rs.
use crate::c34mal;
use rten_serialize::{DataType, Value, View, npy, npz, safetensors};
use rten_tensor::prelude::*;
use rten_tensor::{SliceItem, Tensor, TensorView};
use std::io::Cursor;
use vcommon::naive::Arr;
use vcommon::*;

pub const DTYPES: [DataType; 11] = [
    DataType::Bool,
    DataType::Int8,
    DataType::Int16,
    DataType::Int32,
    DataType::Int64,
    DataType::UInt8,
    DataType::UInt16,
    DataType::UInt32,
    DataType::UInt64,
    DataType::Float32,
    DataType::Float64,
];

pub fn dt_name(d: DataType) -> &'static str {
    match d {
        DataType::Bool => "bool",
        DataType::Int8 => "i8",
        DataType::Int16 => "i16",
        DataType::Int32 => "i32",
        DataType::Int64 => "i64",
        DataType::UInt8 => "u8",
        DataType::UInt16 => "u16",
        DataType::UInt32 => "u32",
        DataType::UInt64 => "u64",
        DataType::Float32 => "f32",
        DataType::Float64 => "f64",
        _ => "?",
    }
}

pub fn dt_from_name(s: &str) -> Option<DataType> {
    DTYPES.iter().copied().find(|d| dt_name(*d) == s)
}

/// Elements are carried around as canonical 64-bit patterns.
pub trait El: Copy + 'static {
    fn from_bits64(b: u64) -> Self;
    fn bits64(self) -> u64;
}
macro_rules! impl_el_int {
    ($($t:ty),*) => {$(impl El for $t {
        fn from_bits64(b: u64) -> Self { b as $t }
        fn bits64(self) -> u64 { self as i64 as u64 }
    })*};
}
impl_el_int!(i8, i16, i32, i64);
macro_rules! impl_el_uint {
    ($($t:ty),*) => {$(impl El for $t {
        fn from_bits64(b: u64) -> Self { b as $t }
        fn bits64(self) -> u64 { self as u64 }
    })*};
}
impl_el_uint!(u8, u16, u32, u64);
impl El for bool {
    fn from_bits64(b: u64) -> Self {
        b & 1 == 1
    }
    fn bits64(self) -> u64 {
        self as u64
    }
}
impl El for f32 {
    fn from_bits64(b: u64) -> Self {
        f32::from_bits(b as u32)
    }
    fn bits64(self) -> u64 {
        self.to_bits() as u64
    }
}
impl El for f64 {
    fn from_bits64(b: u64) -> Self {
        f64::from_bits(b)
    }
    fn bits64(self) -> u64 {
        self.to_bits()
    }
}

/// Expand `$body` once per (Value/View variant, Rust type).
macro_rules! for_each_variant {
    ($mac:ident) => {
        $mac!(Bool, bool);
        $mac!(Int8, i8);
        $mac!(Int16, i16);
        $mac!(Int32, i32);
        $mac!(Int64, i64);
        $mac!(UInt8, u8);
        $mac!(UInt16, u16);
        $mac!(UInt32, u32);
        $mac!(UInt64, u64);
        $mac!(Float32, f32);
        $mac!(Float64, f64);
    };
}

pub fn make_value(dt: DataType, shape: &[usize], bits: &[u64]) -> Value {
    macro_rules! arm {
        ($v:ident, $t:ty) => {
            if dt == DataType::$v {
                let data: Vec<$t> = bits.iter().map(|b| <$t as El>::from_bits64(*b)).collect();
                return Value::from(Tensor::<$t>::from_data(shape, data));
            }
        };
    }
    for_each_variant!(arm);
    unreachable!()
}

/// (dtype, shape, row-major element bit patterns) of a value.
pub fn value_content(v: &Value) -> Option<(DataType, Vec<usize>, Vec<u64>)> {
    macro_rules! arm {
        ($v:ident, $t:ty) => {
            if let Value::$v(t) = v {
                return Some((DataType::$v, t.shape().to_vec(), t.iter().map(|x| x.bits64()).collect()));
            }
        };
    }
    for_each_variant!(arm);
    None
}

#[derive(Clone, Debug, PartialEq)]
pub enum Op {
    Permute(Vec<usize>),
    /// per axis (start, end, step)
    Slice(Vec<(usize, usize, usize)>),
    Broadcast(Vec<usize>),
}

impl Op {
    fn kind(&self) -> &'static str {
        match self {
            Op::Permute(_) => "permute",
            Op::Slice(_) => "slice",
            Op::Broadcast(_) => "broadcast",
        }
    }
    fn to_json(&self) -> Json {
        match self {
            Op::Permute(p) => json!({"permute": p}),
            Op::Slice(s) => json!({"slice": s.iter().map(|t| vec![t.0, t.1, t.2]).collect::<Vec<_>>()}),
            Op::Broadcast(s) => json!({"broadcast": s}),
        }
    }
    fn from_json(j: &Json) -> Option<Op> {
        let us = |v: &Json| v.as_array().map(|a| a.iter().map(|x| x.as_u64().unwrap_or(0) as usize).collect::<Vec<_>>());
        if let Some(p) = j.get("permute") {
            return Some(Op::Permute(us(p)?));
        }
        if let Some(p) = j.get("broadcast") {
            return Some(Op::Broadcast(us(p)?));
        }
        let s = j.get("slice")?.as_array()?;
        Some(Op::Slice(s.iter().filter_map(|t| us(t)).map(|t| (t[0], t[1], t[2])).collect()))
    }
}

fn apply_ops<'a, T: Clone>(mut v: TensorView<'a, T>, ops: &[Op]) -> TensorView<'a, T> {
    for op in ops {
        v = match op {
            Op::Permute(p) => v.permuted(p),
            Op::Slice(items) => {
                let items: Vec<SliceItem> = items.iter().map(|(s, e, st)| SliceItem::range(*s as isize, Some(*e as isize), *st as isize)).collect();
                v.try_slice(items.as_slice()).expect("slice within bounds")
            }
            Op::Broadcast(shape) => v.broadcast(shape.as_slice()),
        };
    }
    v
}

pub fn apply_ops_view<'a>(v: View<'a>, ops: &[Op]) -> View<'a> {
    macro_rules! arm {
        ($v:ident, $t:ty) => {
            if let View::$v(t) = &v {
                return View::$v(apply_ops(t.clone(), ops));
            }
        };
    }
    for_each_variant!(arm);
    v
}

fn apply_ops_naive(mut a: Arr<u64>, ops: &[Op]) -> Arr<u64> {
    for op in ops {
        a = match op {
            Op::Permute(p) => a.permuted(p),
            Op::Slice(items) => {
                let mut cur = a;
                for (axis, (s, e, st)) in items.iter().enumerate() {
                    let n = if e > s { (e - s).div_ceil(*st) } else { 0 };
                    cur = cur.slice_axis(axis, *s, *st as isize, n);
                }
                cur
            }
            Op::Broadcast(shape) => a.broadcast(shape),
        };
    }
    a
}

#[derive(Clone, Debug)]
pub struct Src {
    pub dt: DataType,
    pub base_shape: Vec<usize>,
    pub bits: Vec<u64>,
    pub ops: Vec<Op>,
}

impl Src {
    pub fn expected(&self) -> Arr<u64> {
        apply_ops_naive(Arr::new(self.base_shape.clone(), self.bits.clone()), &self.ops)
    }
    pub fn layout_class(&self) -> String {
        let mut k: Vec<&str> = self.ops.iter().map(|o| o.kind()).collect();
        k.sort();
        k.dedup();
        if k.is_empty() { "contiguous".to_string() } else { k.join("+") }
    }
    pub fn to_json(&self) -> Json {
        json!({"dtype": dt_name(self.dt), "base_shape": self.base_shape,
               "bits": self.bits.iter().map(|b| format!("{:x}", b)).collect::<Vec<_>>(),
               "ops": self.ops.iter().map(|o| o.to_json()).collect::<Vec<_>>()})
    }
    pub fn from_json(j: &Json) -> Option<Src> {
        Some(Src {
            dt: dt_from_name(j["dtype"].as_str()?)?,
            base_shape: j["base_shape"].as_array()?.iter().map(|x| x.as_u64().unwrap_or(0) as usize).collect(),
            bits: j["bits"].as_array()?.iter().map(|x| u64::from_str_radix(x.as_str().unwrap_or("0"), 16).unwrap_or(0)).collect(),
            ops: j["ops"].as_array()?.iter().filter_map(Op::from_json).collect(),
        })
    }
}

fn special_bits(rng: &mut Rng, dt: DataType) -> u64 {
    match dt {
        DataType::Bool => rng.below(2) as u64,
        DataType::Float32 => {
            let specials = [f32::NAN.to_bits(), 0x7fa0_0001, 0xffc0_0000, f32::INFINITY.to_bits(), f32::NEG_INFINITY.to_bits(), 0, 0x8000_0000, 1, 0x8000_0001, f32::MAX.to_bits(), f32::MIN.to_bits(), f32::MIN_POSITIVE.to_bits()];
            if rng.chance(1, 2) { *rng.choose(&specials) as u64 } else { rng.next_u32() as u64 }
        }
        DataType::Float64 => {
            let specials = [f64::NAN.to_bits(), 0x7ff4_0000_0000_0001, 0xfff8_0000_0000_0000, f64::INFINITY.to_bits(), f64::NEG_INFINITY.to_bits(), 0, 1 << 63, 1, f64::MAX.to_bits(), f64::MIN_POSITIVE.to_bits()];
            if rng.chance(1, 2) { *rng.choose(&specials) } else { rng.next_u64() }
        }
        _ => {
            // integers: extremes and random; truncated to the type by from_bits64
            let v = match rng.below(5) {
                0 => 0,
                1 => u64::MAX,
                2 => 1 << 63,
                3 => 0x7fff_ffff_ffff_ffff,
                _ => rng.next_u64(),
            };
            // canonical form for the type
            macro_rules! canon {
                ($v:ident, $t:ty) => {
                    if dt == DataType::$v {
                        return <$t as El>::from_bits64(v).bits64();
                    }
                };
            }
            for_each_variant!(canon);
            v
        }
    }
}

pub fn gen_src(rng: &mut Rng, dt: DataType) -> Src {
    let rank = rng.urange(0, 5);
    let mut base_shape: Vec<usize> = (0..rank).map(|_| if rng.chance(1, 25) { 0 } else { rng.urange(1, 4) }).collect();
    // Now and then a payload well beyond one I/O buffer (8 KiB): readers must
    // cope with a source that hands the data over in several pieces.
    if rank >= 1 && rng.chance(1, 12) {
        let i = rng.below(rank);
        base_shape[i] = rng.urange(300, 3000);
    }
    let n = naive::numel(&base_shape);
    let bits: Vec<u64> = (0..n).map(|_| special_bits(rng, dt)).collect();
    let mut ops = Vec::new();
    let mut shape = base_shape.clone();
    for _ in 0..rng.below(4) {
        match rng.below(3) {
            0 if shape.len() >= 2 => {
                let mut p: Vec<usize> = (0..shape.len()).collect();
                rng.shuffle(&mut p);
                shape = p.iter().map(|&i| shape[i]).collect();
                ops.push(Op::Permute(p));
            }
            1 if !shape.is_empty() => {
                let items: Vec<(usize, usize, usize)> = shape
                    .iter()
                    .map(|&d| {
                        if d == 0 || rng.chance(1, 12) {
                            let s = rng.urange(0, d);
                            (s, rng.urange(s, d), rng.urange(1, 3))
                        } else {
                            let s = rng.urange(0, d - 1);
                            (s, rng.urange(s + 1, d), rng.urange(1, 3))
                        }
                    })
                    .collect();
                shape = items.iter().map(|(s, e, st)| if e > s { (e - s).div_ceil(*st) } else { 0 }).collect();
                ops.push(Op::Slice(items));
            }
            2 if shape.len() < 5 => {
                // broadcast: prepend dims and expand size-1 dims
                let extra = rng.urange(0, (5 - shape.len()).min(2));
                let mut target: Vec<usize> = (0..extra).map(|_| rng.urange(1, 3)).collect();
                for &d in &shape {
                    target.push(if d == 1 && rng.chance(1, 2) { rng.urange(1, 3) } else { d });
                }
                if target != shape {
                    shape = target.clone();
                    ops.push(Op::Broadcast(target));
                }
            }
            _ => {}
        }
    }
    Src { dt, base_shape, bits, ops }
}

pub const FORMATS: [&str; 3] = ["npy", "npz", "safetensors"];

/// Compare read-back content with the expectation. Returns what differs.
fn compare(rep: &mut Report, dt: DataType, exp: &Arr<u64>, got: &Value) -> Option<String> {
    let Some((gdt, gshape, gbits)) = value_content(got) else { return Some("dtype(unknown variant)".into()) };
    if gdt != dt {
        return Some(format!("dtype({}->{})", dt_name(dt), dt_name(gdt)));
    }
    if gshape != exp.shape {
        return Some("shape".into());
    }
    if gbits.len() != exp.data.len() {
        return Some("element_count".into());
    }
    for (a, b) in exp.data.iter().zip(&gbits) {
        if a == b {
            continue;
        }
        let same = match dt {
            DataType::Float32 => {
                let (x, y) = (f32::from_bits(*a as u32), f32::from_bits(*b as u32));
                (x.is_nan() && y.is_nan()) || x == y
            }
            DataType::Float64 => {
                let (x, y) = (f64::from_bits(*a), f64::from_bits(*b));
                (x.is_nan() && y.is_nan()) || x == y
            }
            _ => false,
        };
        if same {
            rep.count("float_bits_changed_but_equal(not judged)");
        } else {
            return Some("elements".into());
        }
    }
    None
}

/// Expected key after an .npz round trip: one ".npy" suffix is dropped.
fn npz_key(name: &str) -> String {
    name.strip_suffix(".npy").unwrap_or(name).to_string()
}

const NAME_POOL: [&str; 22] = [
    "a", "b", "weight", "layer.0.weight", "nested/dir/x", "a.npy", "x.npy.npy", "with space", "\u{e9}\u{4e16}\u{754c}", "UPPER", "a.b.c", "0", "-", "_", "tab\tname", "quote\"name", "brace{}", "x.npz", "long_name_long_name_long_name_long_name_long_name_long_name_long_name", "back\\slash", "dot.", "semi;colon",
];

#[derive(Clone, Debug)]
pub struct RtCase {
    pub format: String,
    pub entries: Vec<(String, Src)>,
    pub via_file: bool,
}

impl RtCase {
    fn to_json(&self) -> Json {
        json!({"mode": "roundtrip", "format": self.format, "via_file": self.via_file,
               "entries": self.entries.iter().map(|(n, s)| json!({"name": n, "src": s.to_json()})).collect::<Vec<_>>()})
    }
    fn from_json(j: &Json) -> Option<RtCase> {
        Some(RtCase {
            format: j["format"].as_str()?.to_string(),
            via_file: j["via_file"].as_bool().unwrap_or(false),
            entries: j["entries"].as_array()?.iter().filter_map(|e| Some((e["name"].as_str()?.to_string(), Src::from_json(&e["src"])?))).collect(),
        })
    }
}

/// A reader that hands its data over in small pieces (at most `chunk` bytes
/// per call), as pipes, sockets and decompressors do.
pub struct Dribble<'a> {
    data: &'a [u8],
    pos: u64,
    chunk: usize,
}

impl<'a> Dribble<'a> {
    pub fn new(data: &'a [u8], chunk: usize) -> Self {
        Dribble { data, pos: 0, chunk: chunk.max(1) }
    }
}

impl std::io::Read for Dribble<'_> {
    fn read(&mut self, buf: &mut [u8]) -> std::io::Result<usize> {
        let start = (self.pos as usize).min(self.data.len());
        let n = buf.len().min(self.chunk).min(self.data.len() - start);
        buf[..n].copy_from_slice(&self.data[start..start + n]);
        self.pos += n as u64;
        Ok(n)
    }
}

impl std::io::Seek for Dribble<'_> {
    fn seek(&mut self, from: std::io::SeekFrom) -> std::io::Result<u64> {
        let new = match from {
            std::io::SeekFrom::Start(o) => o as i128,
            std::io::SeekFrom::End(o) => self.data.len() as i128 + o as i128,
            std::io::SeekFrom::Current(o) => self.pos as i128 + o as i128,
        };
        if new < 0 {
            return Err(std::io::Error::new(std::io::ErrorKind::InvalidInput, "seek before start"));
        }
        self.pos = new as u64;
        Ok(self.pos)
    }
}

#[derive(Debug)]
pub struct RtFail {
    pub what: String,
    pub entry: usize,
    pub detail: String,
}

/// Execute one round trip. `Ok(false)`: the writer declined (error), nothing
/// to compare.
pub fn run_roundtrip(rep: &mut Report, c: &RtCase, tmp_dir: Option<&str>) -> Result<bool, RtFail> {
    let values: Vec<Value> = c.entries.iter().map(|(_, s)| make_value(s.dt, &s.base_shape, &s.bits)).collect();
    let expected: Vec<Arr<u64>> = c.entries.iter().map(|(_, s)| s.expected()).collect();
    let fail = |what: &str, entry: usize, detail: String| RtFail { what: what.to_string(), entry, detail };
    let views = || -> Vec<(String, View<'_>)> { c.entries.iter().zip(&values).map(|((n, s), v)| (n.clone(), apply_ops_view(v.view(), &s.ops))).collect() };
    let path = tmp_dir.filter(|_| c.via_file).map(|d| format!("{}/rt.{}", d, c.format));
    // Building the source views is the harness's own use of rten-tensor; a
    // panic there says nothing about the serializers.
    if catch(|| drop(views())).is_err() {
        rep.count("harness_could_not_build_view(skipped)");
        return Ok(false);
    }
    match c.format.as_str() {
        "npy" => {
            let (name, src) = &c.entries[0];
            let _ = name;
            let view = apply_ops_view(values[0].view(), &src.ops);
            let got = if let Some(p) = &path {
                match catch(|| npy::write_to_file(p, view)) {
                    Err(m) => return Err(fail("panic:write", 0, m)),
                    Ok(Err(_)) => return Ok(false),
                    Ok(Ok(())) => {}
                }
                catch(|| npy::read_from_file(p))
            } else {
                let mut buf = Vec::new();
                match catch(|| npy::write(&mut buf, view)) {
                    Err(m) => return Err(fail("panic:write", 0, m)),
                    Ok(Err(_)) => return Ok(false),
                    Ok(Ok(())) => {}
                }
                rep.max("max_file_bytes", buf.len() as u64);
                // Same bytes through a reader that returns short counts.
                let chunk = 1 + (buf.len() * 7 + 13) % 1000;
                match catch(|| npy::read(Dribble::new(&buf, chunk))) {
                    Err(m) => return Err(fail("panic:read(short reads)", 0, m)),
                    Ok(Err(e)) => return Err(fail("read_error(short reads)", 0, format!("{} (reader returns at most {} bytes per call)", e, chunk))),
                    Ok(Ok(v)) => {
                        rep.count("reads_through_short_count_reader");
                        if let Some(w) = compare(rep, src.dt, &expected[0], &v) {
                            return Err(fail(&format!("short_reads:{}", w), 0, String::new()));
                        }
                    }
                }
                catch(|| npy::read(&buf[..]))
            };
            match got {
                Err(m) => Err(fail("panic:read", 0, m)),
                Ok(Err(e)) => Err(fail("read_error", 0, e.to_string())),
                Ok(Ok(v)) => match compare(rep, src.dt, &expected[0], &v) {
                    Some(w) => Err(fail(&w, 0, String::new())),
                    None => Ok(true),
                },
            }
        }
        "npz" | "safetensors" => {
            let npz_fmt = c.format == "npz";
            let mut buf: Vec<u8> = Vec::new();
            let wrote = if npz_fmt {
                let mut cur = Cursor::new(Vec::new());
                let r = catch(|| npz::write(&mut cur, views()));
                buf = cur.into_inner();
                r
            } else {
                catch(|| safetensors::write(&mut buf, views()))
            };
            match wrote {
                Err(m) => return Err(fail("panic:write", 0, m)),
                Ok(Err(e)) => {
                    rep.count(&format!("write_declined.{}", c.format));
                    let _ = e;
                    return Ok(false);
                }
                Ok(Ok(())) => {}
            }
            rep.max("max_file_bytes", buf.len() as u64);
            if let Some(p) = &path {
                let _ = std::fs::write(p, &buf);
            }
            {
                let chunk = 1 + (buf.len() * 7 + 13) % 1000;
                let short = if npz_fmt { catch(|| npz::read(Dribble::new(&buf, chunk))) } else { catch(|| safetensors::read(Dribble::new(&buf, chunk))) };
                match short {
                    Err(m) => return Err(fail("panic:read(short reads)", 0, m)),
                    Ok(Err(e)) => return Err(fail("read_error(short reads)", 0, format!("{} (reader returns at most {} bytes per call)", e, chunk))),
                    Ok(Ok(m)) => {
                        rep.count("reads_through_short_count_reader");
                        if m.len() != c.entries.len() {
                            return Err(fail("short_reads:entry_count", 0, format!("wrote {} entries, read {}", c.entries.len(), m.len())));
                        }
                    }
                }
            }
            let all = if npz_fmt {
                match &path {
                    Some(p) => catch(|| npz::read_from_file(p)),
                    None => catch(|| npz::read(Cursor::new(&buf[..]))),
                }
            } else {
                match &path {
                    Some(p) => catch(|| safetensors::read_from_file(p)),
                    None => catch(|| safetensors::read(&buf[..])),
                }
            };
            let map = match all {
                Err(m) => return Err(fail("panic:read", 0, m)),
                Ok(Err(e)) => return Err(fail("read_error", 0, e.to_string())),
                Ok(Ok(m)) => m,
            };
            if map.len() != c.entries.len() {
                return Err(fail("entry_count", 0, format!("wrote {} entries, read {}", c.entries.len(), map.len())));
            }
            for (i, (name, src)) in c.entries.iter().enumerate() {
                let key = if npz_fmt { npz_key(name) } else { name.clone() };
                let Some(v) = map.get(&key) else {
                    return Err(fail("missing_entry", i, format!("key {:?} not among {:?}", key, map.keys().collect::<Vec<_>>())));
                };
                if let Some(w) = compare(rep, src.dt, &expected[i], v) {
                    return Err(fail(&w, i, format!("entry {:?}", name)));
                }
                // single-array readers
                let one = if npz_fmt { catch(|| npz::read_array(Cursor::new(&buf[..]), name)) } else { catch(|| safetensors::read_array(&buf[..], name)) };
                match one {
                    Err(m) => return Err(fail("panic:read_array", i, m)),
                    Ok(Err(e)) => return Err(fail("read_array_error", i, e.to_string())),
                    Ok(Ok(v)) => {
                        if let Some(w) = compare(rep, src.dt, &expected[i], &v) {
                            return Err(fail(&format!("read_array:{}", w), i, format!("entry {:?}", name)));
                        }
                    }
                }
            }
            Ok(true)
        }
        _ => Ok(false),
    }
}

fn gen_case(rng: &mut Rng, k: u64, tmp: bool) -> RtCase {
    let format = FORMATS[(k % 3) as usize].to_string();
    let n_entries = if format == "npy" { 1 } else { rng.urange(0, 8) };
    let mut names: Vec<String> = Vec::new();
    let mut entries = Vec::new();
    for i in 0..n_entries {
        // every dtype in turn, so that all are covered quickly
        let dt = DTYPES[((k / 3 + i as u64) % 11) as usize];
        let mut name = rng.choose(&NAME_POOL).to_string();
        let norm = |n: &str| npz_key(n);
        if names.iter().any(|x| norm(x) == norm(&name)) {
            name = format!("{}_{}", name, i);
        }
        names.push(name.clone());
        entries.push((name, gen_src(rng, dt)));
    }
    RtCase { format, entries, via_file: tmp && rng.chance(1, 8) }
}

fn shrink_rt(rep: &mut Report, c: &RtCase, f: &RtFail, tmp: Option<&str>) -> RtCase {
    let still = |rep: &mut Report, cand: &RtCase| matches!(run_roundtrip(rep, cand, tmp), Err(ref g) if g.what == f.what);
    // keep only the failing entry if that still fails
    let mut cur = c.clone();
    if cur.entries.len() > 1 {
        let cand = RtCase { entries: vec![cur.entries[f.entry.min(cur.entries.len() - 1)].clone()], ..cur.clone() };
        if still(rep, &cand) {
            cur = cand;
        }
    }
    // drop layout operations
    for e in 0..cur.entries.len() {
        let mut i = 0;
        while i < cur.entries[e].1.ops.len() {
            let mut cand = cur.clone();
            cand.entries[e].1.ops.remove(i);
            // dropping an op can invalidate later ops; catch that
            let ok = catch(|| cand.entries[e].1.expected()).is_ok();
            if ok && still(rep, &cand) {
                cur = cand;
            } else {
                i += 1;
            }
        }
    }
    if cur.via_file {
        let cand = RtCase { via_file: false, ..cur.clone() };
        if still(rep, &cand) {
            cur = cand;
        }
    }
    cur
}

fn report_rt(rep: &mut Report, c: &RtCase, f: RtFail, tmp: Option<&str>) {
    let s = shrink_rt(rep, c, &f, tmp);
    let fin = match run_roundtrip(rep, &s, tmp) {
        Err(g) => g,
        _ => f,
    };
    let e = &s.entries[fin.entry.min(s.entries.len().saturating_sub(1))];
    let what = if fin.what.starts_with("panic") { format!("{}:{}", fin.what, crate::c38::norm_panic(&fin.detail)) } else { fin.what.clone() };
    let sig = format!("C34|roundtrip:{}|{}|{}|{}", s.format, dt_name(e.1.dt), e.1.layout_class(), what);
    rep.violation(
        sig,
        format!("{} round trip of a {} tensor (base shape {:?}, ops {:?}, name {:?}): {} {}", s.format, dt_name(e.1.dt), e.1.base_shape, e.1.ops, e.0, fin.what, fin.detail),
        s.to_json(),
    );
}

/// .npy files as NumPy writes them (format versions 1-3, little / big /
/// native endian, C or Fortran order), built by the harness from the format
/// specification, must read back as the logical array. This goes beyond
/// files written by rten itself; it is what decides `fortran_order` and
/// byte-order handling in the reader.
fn foreign_npy_case(rep: &mut Report, rng: &mut Rng, k: u64) {
    let dt = DTYPES[(k % 11) as usize];
    let size = match dt {
        DataType::Bool | DataType::Int8 | DataType::UInt8 => 1usize,
        DataType::Int16 | DataType::UInt16 => 2,
        DataType::Int32 | DataType::UInt32 | DataType::Float32 => 4,
        _ => 8,
    };
    let kind = match dt {
        DataType::Bool => 'b',
        DataType::Float32 | DataType::Float64 => 'f',
        DataType::Int8 | DataType::Int16 | DataType::Int32 | DataType::Int64 => 'i',
        _ => 'u',
    };
    let rank = rng.urange(0, 4);
    let shape: Vec<usize> = (0..rank).map(|_| if rng.chance(1, 20) { 0 } else { rng.urange(1, 3) }).collect();
    let n = naive::numel(&shape);
    let bits: Vec<u64> = (0..n).map(|_| special_bits(rng, dt)).collect();
    let fortran = rng.bool();
    let order = if size == 1 { *rng.choose(&['|', '<', '>', '=']) } else { *rng.choose(&['<', '>', '=']) };
    let big = order == '>' || (order == '=' && cfg!(target_endian = "big"));
    let version = rng.urange(1, 3) as u8;
    // data in file order
    let logical = Arr::new(shape.clone(), bits.clone());
    let file_order: Vec<u64> = if fortran && rank >= 2 {
        // column-major: first index varies fastest = row-major walk of the reversed shape
        let rshape: Vec<usize> = shape.iter().rev().copied().collect();
        naive::indices(&rshape).iter().map(|ridx| *logical.at(&ridx.iter().rev().copied().collect::<Vec<_>>())).collect()
    } else {
        bits.clone()
    };
    let mut data = Vec::with_capacity(n * size);
    for b in &file_order {
        let le = b.to_le_bytes();
        if big {
            data.extend(le[..size].iter().rev());
        } else {
            data.extend_from_slice(&le[..size]);
        }
    }
    let dims = match shape.len() {
        0 => "()".to_string(),
        1 => format!("({},)", shape[0]),
        _ => format!("({})", shape.iter().map(|d| d.to_string()).collect::<Vec<_>>().join(", ")),
    };
    let file = c34mal::npy_file(version, &format!("{}{}{}", order, kind, size), fortran, &dims, &data);
    rep.eval();
    rep.count("foreign_npy_files");
    rep.count(&format!("foreign_npy.{}.{}", if fortran { "fortran" } else { "c_order" }, if big { "big_endian" } else { "little_endian" }));
    let got = catch(|| npy::read(&file[..]));
    let what = match got {
        Err(m) => Some(format!("panic:{}", crate::c38::norm_panic(&m))),
        Ok(Err(e)) => Some(format!("read_error:{}", panic_class(&e.to_string()))),
        Ok(Ok(v)) => compare(rep, dt, &logical, &v),
    };
    if n >= 2 {
        rep.nontrivial(&("foreign", file.clone()));
    }
    if let Some(w) = what {
        rep.violation(
            format!("C34|npy_spec|{}|{}|{}", if fortran && rank >= 2 { "fortran_order" } else { "c_order" }, if big && size > 1 { "big_endian" } else { "little_endian" }, w),
            format!("a NumPy-format .npy file (version {}, descr {}{}{}, fortran_order {}, shape {}) does not read back as the array it encodes: {}", version, order, kind, size, fortran, dims, w),
            json!({"mode": "foreign_npy", "hex": to_hex(&file), "dtype": dt_name(dt), "shape": shape, "bits": bits.iter().map(|b| format!("{:x}", b)).collect::<Vec<_>>()}),
        );
    }
}

/// .safetensors files as other writers produce them, built from the format
/// specification: 8-byte little-endian header length, JSON header (optionally
/// padded with spaces to any length, not only multiples of 8), tensors laid
/// out back to back in any order, so that multi-byte tensors may start at
/// offsets that are not aligned for their element type.
fn foreign_safetensors_case(rep: &mut Report, rng: &mut Rng, k: u64) {
    let n_tensors = rng.urange(1, 3);
    let names = ["a", "b", "c"];
    let st_name = |dt: DataType| match dt {
        DataType::Bool => "BOOL",
        DataType::Int8 => "I8",
        DataType::UInt8 => "U8",
        DataType::Int16 => "I16",
        DataType::UInt16 => "U16",
        DataType::Int32 => "I32",
        DataType::UInt32 => "U32",
        DataType::Float32 => "F32",
        DataType::Int64 => "I64",
        DataType::UInt64 => "U64",
        _ => "F64",
    };
    let mut entries: Vec<(String, DataType, Vec<usize>, Vec<u64>)> = Vec::new();
    let mut data: Vec<u8> = Vec::new();
    let mut header = String::from("{");
    for t in 0..n_tensors {
        let dt = DTYPES[((k as usize) + t * 5 + rng.below(11)) % 11];
        let size = match dt {
            DataType::Bool | DataType::Int8 | DataType::UInt8 => 1usize,
            DataType::Int16 | DataType::UInt16 => 2,
            DataType::Int32 | DataType::UInt32 | DataType::Float32 => 4,
            _ => 8,
        };
        let rank = rng.urange(0, 3);
        let shape: Vec<usize> = (0..rank).map(|_| rng.urange(1, 3)).collect();
        let n = naive::numel(&shape);
        let bits: Vec<u64> = (0..n).map(|_| special_bits(rng, dt)).collect();
        let begin = data.len();
        for b in &bits {
            data.extend_from_slice(&b.to_le_bytes()[..size]);
        }
        if t > 0 {
            header.push(',');
        }
        header.push_str(&format!(
            "\"{}\":{{\"dtype\":\"{}\",\"shape\":[{}],\"data_offsets\":[{},{}]}}",
            names[t],
            st_name(dt),
            shape.iter().map(|d| d.to_string()).collect::<Vec<_>>().join(","),
            begin,
            data.len()
        ));
        entries.push((names[t].to_string(), dt, shape, bits));
    }
    header.push('}');
    // Any amount of trailing padding is allowed by the format.
    let pad = rng.below(9);
    for _ in 0..pad {
        header.push(' ');
    }
    let mut file = (header.len() as u64).to_le_bytes().to_vec();
    file.extend_from_slice(header.as_bytes());
    file.extend_from_slice(&data);
    rep.eval();
    rep.count("foreign_safetensors_files");
    if (8 + header.len()) % 8 != 0 {
        rep.count("foreign_safetensors_files_with_unaligned_data_start");
    }
    rep.nontrivial(&("foreign_st", file.clone()));
    let mut what: Option<String> = None;
    match catch(|| safetensors::read(&file[..])) {
        Err(m) => what = Some(format!("panic:{}", crate::c38::norm_panic(&m))),
        Ok(Err(e)) => what = Some(format!("read_error:{}", panic_class(&e.to_string()))),
        Ok(Ok(map)) => {
            for (name, dt, shape, bits) in &entries {
                let logical = Arr::new(shape.clone(), bits.clone());
                match map.get(name) {
                    None => what = Some(format!("missing_entry:{}", name)),
                    Some(v) => {
                        if let Some(w) = compare(rep, *dt, &logical, v) {
                            what = Some(w);
                        }
                    }
                }
                match catch(|| safetensors::read_array(&file[..], name)) {
                    Err(m) => what = Some(format!("panic:read_array:{}", crate::c38::norm_panic(&m))),
                    Ok(Err(e)) => what = Some(format!("read_array_error:{}", panic_class(&e.to_string()))),
                    Ok(Ok(v)) => {
                        if let Some(w) = compare(rep, *dt, &logical, &v) {
                            what = Some(format!("read_array:{}", w));
                        }
                    }
                }
            }
        }
    }
    if let Some(w) = what {
        rep.violation(
            format!("C34|safetensors_spec|header_mod8={}|{}", (8 + header.len()) % 8, w),
            format!("a .safetensors file built from the format specification (header of {} bytes incl. {} bytes of padding, {} tensors: {}) does not read back as the tensors it encodes: {}", header.len(), pad, entries.len(), entries.iter().map(|e| format!("{}:{}{:?}", e.0, dt_name(e.1), e.2)).collect::<Vec<_>>().join(" "), w),
            json!({"mode": "foreign_safetensors", "hex": to_hex(&file),
                   "entries": entries.iter().map(|e| json!({"name": e.0, "dtype": dt_name(e.1), "shape": e.2, "bits": e.3.iter().map(|b| format!("{:x}", b)).collect::<Vec<_>>()})).collect::<Vec<_>>()}),
        );
    }
}

fn replay_foreign_st(rep: &mut Report, w: &Json) {
    let file = from_hex(w["hex"].as_str().unwrap_or(""));
    rep.eval();
    let res = catch(|| safetensors::read(&file[..]));
    let mut what: Option<String> = None;
    match res {
        Err(m) => what = Some(format!("panic:{}", crate::c38::norm_panic(&m))),
        Ok(Err(e)) => what = Some(format!("read_error:{}", panic_class(&e.to_string()))),
        Ok(Ok(map)) => {
            for e in w["entries"].as_array().cloned().unwrap_or_default() {
                let dt = dt_from_name(e["dtype"].as_str().unwrap_or("f32")).unwrap_or(DataType::Float32);
                let shape: Vec<usize> = e["shape"].as_array().map(|a| a.iter().map(|x| x.as_u64().unwrap_or(0) as usize).collect()).unwrap_or_default();
                let bits: Vec<u64> = e["bits"].as_array().map(|a| a.iter().map(|x| u64::from_str_radix(x.as_str().unwrap_or("0"), 16).unwrap_or(0)).collect()).unwrap_or_default();
                match map.get(e["name"].as_str().unwrap_or("")) {
                    None => what = Some("missing_entry".into()),
                    Some(v) => {
                        if let Some(x) = compare(rep, dt, &Arr::new(shape, bits), v) {
                            what = Some(x);
                        }
                    }
                }
            }
        }
    }
    if let Some(wh) = what {
        rep.violation(format!("C34|safetensors_spec|replay|{}", wh), format!("replayed .safetensors file does not read back as the tensors it encodes: {}", wh), w.clone());
    }
}

fn replay_foreign(rep: &mut Report, w: &Json) {
    let file = from_hex(w["hex"].as_str().unwrap_or(""));
    let dt = dt_from_name(w["dtype"].as_str().unwrap_or("f32")).unwrap_or(DataType::Float32);
    let shape: Vec<usize> = w["shape"].as_array().map(|a| a.iter().map(|x| x.as_u64().unwrap_or(0) as usize).collect()).unwrap_or_default();
    let bits: Vec<u64> = w["bits"].as_array().map(|a| a.iter().map(|x| u64::from_str_radix(x.as_str().unwrap_or("0"), 16).unwrap_or(0)).collect()).unwrap_or_default();
    let logical = Arr::new(shape, bits);
    rep.eval();
    let what = match catch(|| npy::read(&file[..])) {
        Err(m) => Some(format!("panic:{}", crate::c38::norm_panic(&m))),
        Ok(Err(e)) => Some(format!("read_error:{}", panic_class(&e.to_string()))),
        Ok(Ok(v)) => compare(rep, dt, &logical, &v),
    };
    if let Some(wh) = what {
        rep.violation(format!("C34|npy_spec|{}|replay|{}", dt_name(dt), wh), format!("replayed .npy file does not read back as the array it encodes: {}", wh), w.clone());
    }
}

pub const RULE: &str = "Round trips: tensors of all 11 element types, ranks 0-5 with dims 0-4, special float/integer values, sources built with rten-tensor as contiguous / permuted / strided-sliced / broadcast views (expected elements computed independently with the naive array model), written with npy::write, npz::write (0-8 entries, awkward names), safetensors::write (in memory and through files) and read back with read / read_array / read_from_file. NumPy-format .npy files built from the format specification (versions 1-3, little/big/native endian, C and Fortran order) must read back as the array they encode, and so must .safetensors files built from the specification with any amount of header padding and tensors at offsets not aligned for their element type. Every in-memory read is repeated through a reader that returns short counts (1-1000 bytes per call), and one source in twelve has a payload of several I/O buffers. Malformed files: valid files and hand-built headers mutated at header length fields, descr / fortran_order / shape strings, zip end-of-central-directory and central-directory fields, safetensors header length, JSON dtype / shape / data_offsets, plus truncations and byte flips; read through the same public readers in child processes (catch_unwind, allocation monitor, per-case alarm). A round-trip case is non-trivial when the source has at least 2 elements or a non-contiguous layout; a malformed case when the mutant kept its outer framing (npy magic, zip end-of-central-directory signature, safetensors header length within the file) or the reader returned a value.";

pub fn run(args: &Args) {
    unsafe { std::env::set_var("RUST_BACKTRACE", "0") };
    let mut rep = Report::new("C34", "loadfuzz", args, RULE);
    rep.max_per_group = 16;
    let miri = cfg!(miri);
    let tmp_dir = if miri {
        None
    } else {
        let d = format!("/verif/tmp/{}", std::process::id());
        let _ = std::fs::create_dir_all(&d);
        Some(d)
    };
    let tmp = tmp_dir.as_deref();

    if let Some(path) = &args.replay {
        let text = std::fs::read_to_string(path).expect("read replay file");
        let j: Json = serde_json::from_str(&text).expect("parse replay file");
        let w = if j.get("witness").is_some() { j["witness"].clone() } else { j };
        if w["mode"].as_str() == Some("foreign_safetensors") {
            replay_foreign_st(&mut rep, &w);
        } else if w["mode"].as_str() == Some("foreign_npy") {
            replay_foreign(&mut rep, &w);
        } else if w["mode"].as_str() == Some("roundtrip") {
            let c = RtCase::from_json(&w).expect("roundtrip witness");
            rep.eval();
            if let Err(f) = run_roundtrip(&mut rep, &c, tmp) {
                report_rt(&mut rep, &c, f, tmp);
            }
        } else {
            c34mal::replay(&mut rep, &w);
        }
        if let Some(d) = &tmp_dir {
            let _ = std::fs::remove_dir_all(d);
        }
        rep.finish();
        return;
    }

    let n_rt = args.budget(if miri { 45 } else { 9000 }, if miri { 450 } else { 600_000 });
    let base = (args.shard as u64) << 40;
    let mut corpus: Vec<(String, Vec<u8>)> = Vec::new();
    for k in 0..n_rt {
        let mut rng = Rng::derive(args.seed, 0x34_0000_0000 + base + k);
        let c = gen_case(&mut rng, k, tmp.is_some());
        rep.eval();
        rep.count(&format!("roundtrips.{}", c.format));
        for (_, s) in &c.entries {
            rep.count(&format!("dtype.{}", dt_name(s.dt)));
            rep.count(&format!("layout.{}", s.layout_class()));
            rep.count(&format!("rank.{}", s.expected().shape.len()));
            if naive::numel(&s.expected().shape) == 0 {
                rep.count("empty_tensors");
            }
        }
        rep.count(&format!("entries.{}", c.entries.len()));
        if c.via_file {
            rep.count("via_file");
        }
        match run_roundtrip(&mut rep, &c, tmp) {
            Ok(true) => {
                rep.count("roundtrip_equal");
                if c.entries.iter().any(|(_, s)| !s.ops.is_empty() || s.bits.len() >= 2) {
                    rep.nontrivial(&(c.format.clone(), c.entries.iter().map(|(n, s)| (n.clone(), dt_name(s.dt), s.base_shape.clone(), s.bits.clone(), format!("{:?}", s.ops))).collect::<Vec<_>>()));
                }
                if rep.wants_sample() && c.entries.iter().any(|(_, s)| s.ops.len() >= 2) {
                    rep.sample(|| c.to_json());
                }
            }
            Ok(false) => rep.count("writer_declined(no result)"),
            Err(f) => {
                rep.count(&format!("roundtrip_failed.{}.{}", c.format, f.what));
                report_rt(&mut rep, &c, f, tmp);
            }
        }
        // keep some valid files as seeds for the malformed part
        if corpus.len() < 120 && k % 7 == 0 {
            if let Some(bytes) = c34mal::encode(&c) {
                corpus.push((c.format.clone(), bytes));
            }
        }
    }
    let n_foreign = args.budget(if miri { 22 } else { 1100 }, if miri { 110 } else { 55_000 });
    for k in 0..n_foreign {
        let mut rng = Rng::derive(args.seed, 0x34_4000_0000 + base + k);
        foreign_npy_case(&mut rep, &mut rng, k);
        let mut rng2 = Rng::derive(args.seed, 0x34_5000_0000 + base + k);
        foreign_safetensors_case(&mut rep, &mut rng2, k);
    }
    let n_mal = args.budget(if miri { 30 } else { 9000 }, if miri { 300 } else { 1_400_000 });
    c34mal::run(&mut rep, args, corpus, n_mal);
    if let Some(d) = &tmp_dir {
        let _ = std::fs::remove_dir_all(d);
    }
    rep.finish();
}
