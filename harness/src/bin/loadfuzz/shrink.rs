//! Delta debugging on byte strings with a bounded number of re-executions.

/// Shrink `input` while `test` keeps returning true. `test` is called at most
/// `max_exec` times. Removes chunks (ddmin), then tries to cut the tail and to
/// zero single bytes.
pub fn ddmin(input: &[u8], max_exec: usize, mut test: impl FnMut(&[u8]) -> bool) -> (Vec<u8>, usize) {
    let mut cur = input.to_vec();
    let mut execs = 0usize;
    let mut n = 2usize;
    while cur.len() >= 2 && execs < max_exec {
        let chunk = cur.len().div_ceil(n);
        let mut reduced = false;
        let mut i = 0;
        while i * chunk < cur.len() && execs < max_exec {
            let a = i * chunk;
            let b = (a + chunk).min(cur.len());
            let mut cand = Vec::with_capacity(cur.len() - (b - a));
            cand.extend_from_slice(&cur[..a]);
            cand.extend_from_slice(&cur[b..]);
            execs += 1;
            if test(&cand) {
                cur = cand;
                n = (n - 1).max(2);
                reduced = true;
                break;
            }
            i += 1;
        }
        if !reduced {
            if chunk <= 1 {
                break;
            }
            n = (n * 2).min(cur.len());
        }
    }
    // Cut the tail byte by byte (cheap and often effective for prefixes).
    while cur.len() > 1 && execs < max_exec {
        let cand = cur[..cur.len() - 1].to_vec();
        execs += 1;
        if test(&cand) {
            cur = cand;
        } else {
            break;
        }
    }
    // Canonicalise: zero bytes that do not matter (short inputs only).
    if cur.len() <= 64 {
        for i in 0..cur.len() {
            if execs >= max_exec {
                break;
            }
            if cur[i] == 0 {
                continue;
            }
            let mut cand = cur.clone();
            cand[i] = 0;
            execs += 1;
            if test(&cand) {
                cur = cand;
            }
        }
    }
    (cur, execs)
}
