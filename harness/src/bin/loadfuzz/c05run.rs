//! Batch child runner for C05.
//!
//! A batch of cases is executed in one forked child (fresh 8 MiB stack, as a
//! normal main thread). Before each case the child writes the case index and
//! the stage it is in to a shared page and re-arms a per-case alarm; after
//! each case it appends one result record to a shared record area. When the
//! child dies (abort, signal, sanitizer exit, alarm) the parent therefore
//! knows which case and which stage were in flight and still has the results
//! of the cases completed before it.
//!
//! Unlike `child::Shared::run`, sanitizer reports of a child are *returned*
//! (in `Batch::stderr`) and not forwarded to the engine's stderr: the C05
//! engine decides itself whether a report is attributable to the property
//! (reports during a model *run* are only judged when a malformed constant was
//! seen) and embeds the report text in its own witness.
use std::sync::atomic::{AtomicU32, AtomicU64, Ordering};
use vcommon::guard;

pub use crate::child::ChildEnd;

#[repr(C)]
pub struct Hdr {
    /// Index (within the batch) of the case in flight, u32::MAX before the first.
    pub cur: AtomicU32,
    pub stage: AtomicU32,
    /// Engine-defined: which entry point / constant is being examined.
    pub aux: AtomicU32,
    pub finished: AtomicU32,
    pub max_alloc: AtomicU64,
    pub n_records: AtomicU32,
    pub write_pos: AtomicU64,
    /// Free-form progress words written by the workload (e.g. constant index).
    pub aux2: AtomicU64,
}

const HDR_BYTES: usize = 4096;
const REGION_BYTES: usize = 16 << 20;

pub struct Region {
    base: *mut u8,
}

unsafe impl Send for Region {}
unsafe impl Sync for Region {}

pub struct Batch {
    pub end: ChildEnd,
    /// Records of the cases that completed, in order.
    pub records: Vec<String>,
    /// Case index in flight when the child ended abnormally.
    pub cur: u32,
    pub stage: u32,
    pub aux: u32,
    pub aux2: u64,
    pub max_alloc: u64,
    pub stderr: String,
}

impl Region {
    pub fn new() -> Region {
        let p = unsafe {
            libc::mmap(std::ptr::null_mut(), REGION_BYTES, libc::PROT_READ | libc::PROT_WRITE, libc::MAP_SHARED | libc::MAP_ANONYMOUS, -1, 0)
        };
        assert!(p != libc::MAP_FAILED, "mmap shared failed");
        Region { base: p as *mut u8 }
    }

    pub fn hdr(&self) -> &Hdr {
        unsafe { &*(self.base as *const Hdr) }
    }

    pub fn max_alloc_ptr(&self) -> *mut AtomicU64 {
        &self.hdr().max_alloc as *const AtomicU64 as *mut AtomicU64
    }

    fn reset(&self) {
        let h = self.hdr();
        h.cur.store(u32::MAX, Ordering::SeqCst);
        h.stage.store(0, Ordering::SeqCst);
        h.aux.store(0, Ordering::SeqCst);
        h.aux2.store(0, Ordering::SeqCst);
        h.finished.store(0, Ordering::SeqCst);
        h.max_alloc.store(0, Ordering::SeqCst);
        h.n_records.store(0, Ordering::SeqCst);
        h.write_pos.store(0, Ordering::SeqCst);
    }

    /// Called by the child: a new case starts.
    pub fn begin_case(&self, idx: u32, alarm_s: u32) {
        let h = self.hdr();
        h.cur.store(idx, Ordering::SeqCst);
        h.stage.store(0, Ordering::SeqCst);
        h.aux.store(0, Ordering::SeqCst);
        h.aux2.store(0, Ordering::SeqCst);
        h.max_alloc.store(0, Ordering::SeqCst);
        unsafe { libc::alarm(alarm_s) };
    }

    pub fn set_stage(&self, stage: u32, aux: u32) {
        let h = self.hdr();
        h.aux.store(aux, Ordering::SeqCst);
        h.stage.store(stage, Ordering::SeqCst);
    }

    /// Called by the child: append the record of a finished case.
    pub fn push_record(&self, s: &str) {
        let h = self.hdr();
        let cap = REGION_BYTES - HDR_BYTES;
        let pos = h.write_pos.load(Ordering::SeqCst) as usize;
        let b = s.as_bytes();
        let (b, len) = if pos + 4 + b.len() > cap { (&b"{\"overflow\":true}"[..], 17usize) } else { (b, b.len()) };
        if pos + 4 + len > cap {
            return;
        }
        unsafe {
            let dst = self.base.add(HDR_BYTES + pos);
            std::ptr::copy_nonoverlapping((len as u32).to_le_bytes().as_ptr(), dst, 4);
            std::ptr::copy_nonoverlapping(b.as_ptr(), dst.add(4), len);
        }
        h.write_pos.store((pos + 4 + len) as u64, Ordering::SeqCst);
        h.n_records.fetch_add(1, Ordering::SeqCst);
    }

    fn read_records(&self) -> Vec<String> {
        let h = self.hdr();
        let n = h.n_records.load(Ordering::SeqCst) as usize;
        let end = h.write_pos.load(Ordering::SeqCst) as usize;
        let mut out = Vec::with_capacity(n);
        let mut pos = 0usize;
        while out.len() < n && pos + 4 <= end {
            let mut lb = [0u8; 4];
            unsafe { std::ptr::copy_nonoverlapping(self.base.add(HDR_BYTES + pos), lb.as_mut_ptr(), 4) };
            let len = u32::from_le_bytes(lb) as usize;
            if pos + 4 + len > end {
                break;
            }
            let mut v = vec![0u8; len];
            unsafe { std::ptr::copy_nonoverlapping(self.base.add(HDR_BYTES + pos + 4), v.as_mut_ptr(), len) };
            out.push(String::from_utf8_lossy(&v).into_owned());
            pos += 4 + len;
        }
        out
    }

    /// Run `f` in a forked child. `f` processes its cases calling
    /// `begin_case` / `set_stage` / `push_record`. The calling process must be
    /// single-threaded (only the calling thread survives the fork).
    pub fn run(&self, f: impl FnOnce() + Send) -> Batch {
        self.reset();
        let mut fds = [0i32; 2];
        let have_pipe = unsafe { libc::pipe(fds.as_mut_ptr()) } == 0;
        let r = guard::in_child(|| {
            unsafe {
                if have_pipe {
                    libc::close(fds[0]);
                    let fl = libc::fcntl(fds[1], libc::F_GETFL);
                    libc::fcntl(fds[1], libc::F_SETFL, fl | libc::O_NONBLOCK);
                    libc::dup2(fds[1], 2);
                    libc::close(fds[1]);
                }
            }
            let ok = std::thread::scope(|sc| std::thread::Builder::new().stack_size(8 << 20).spawn_scoped(sc, f).expect("spawn in child").join().is_ok());
            unsafe { libc::alarm(0) };
            self.hdr().finished.store(if ok { 1 } else { 2 }, Ordering::SeqCst);
            0
        });
        let mut stderr = String::new();
        if have_pipe {
            unsafe { libc::close(fds[1]) };
            let mut buf = vec![0u8; 16384];
            let mut all = Vec::new();
            loop {
                let n = unsafe { libc::read(fds[0], buf.as_mut_ptr() as *mut _, buf.len()) };
                if n <= 0 {
                    break;
                }
                if all.len() < 1 << 20 {
                    all.extend_from_slice(&buf[..n as usize]);
                }
            }
            unsafe { libc::close(fds[0]) };
            stderr = String::from_utf8_lossy(&all).into_owned();
        }
        let h = self.hdr();
        let finished = h.finished.load(Ordering::SeqCst);
        let end = match r {
            Ok(0) if finished == 1 => ChildEnd::Completed,
            Ok(code) => ChildEnd::Exit(code),
            Err(sig) if sig == libc::SIGALRM => ChildEnd::Timeout,
            Err(sig) => ChildEnd::Signal(sig),
        };
        Batch {
            end,
            records: self.read_records(),
            cur: h.cur.load(Ordering::SeqCst),
            stage: h.stage.load(Ordering::SeqCst),
            aux: h.aux.load(Ordering::SeqCst),
            aux2: h.aux2.load(Ordering::SeqCst),
            max_alloc: h.max_alloc.load(Ordering::SeqCst),
            stderr,
        }
    }
}

impl Drop for Region {
    fn drop(&mut self) {
        unsafe { libc::munmap(self.base as *mut _, REGION_BYTES) };
    }
}

/// Classify an abnormal end (same classes natively and under ASan).
pub fn crash_class(end: &ChildEnd, stderr: &str) -> String {
    let asan_kind = || {
        stderr.find("ERROR: AddressSanitizer: ").map(|at| {
            let rest = &stderr[at + 25..];
            rest.split(|c: char| !(c.is_ascii_alphanumeric() || c == '-' || c == '_')).next().unwrap_or("").to_string()
        })
    };
    match end {
        ChildEnd::Completed => "completed".to_string(),
        ChildEnd::Timeout => "timeout".to_string(),
        ChildEnd::Exit(_) | ChildEnd::Signal(_) => {
            if stderr.contains("overflowed its stack") || stderr.contains("AddressSanitizer: stack-overflow") {
                "stack_overflow".to_string()
            } else if stderr.contains("memory allocation of") || stderr.contains("AddressSanitizer: requested allocation size") || stderr.contains("AddressSanitizer: allocation-size-too-big") || stderr.contains("AddressSanitizer: out of memory") {
                "abort:alloc".to_string()
            } else if let Some(k) = asan_kind() {
                format!("sanitizer:{}", k)
            } else {
                match end {
                    ChildEnd::Exit(c) => format!("exit:{}", c),
                    ChildEnd::Signal(s) => format!("signal:{}", s),
                    _ => unreachable!(),
                }
            }
        }
    }
}
