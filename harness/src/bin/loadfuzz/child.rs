//! Child runner: executes a closure in a forked child with a wall-clock alarm,
//! captures the child's stderr through a pipe and gets a result string back
//! through a shared anonymous mapping. The shared header is also written by
//! the monitors *while* the child runs (stage marker, largest allocation
//! request, last length-delimited request), so that after an abort the parent
//! still knows what was in flight.
//!
//! Reusable: `Shared::new()`, `Shared::run(timeout_s, || -> String)`.
use std::sync::atomic::{AtomicU32, AtomicU64, Ordering};
use vcommon::guard;

#[repr(C)]
pub struct Hdr {
    pub done: AtomicU32,
    /// Which entry point is executing (engine-defined numbering).
    pub stage: AtomicU32,
    pub max_alloc: AtomicU64,
    /// Reader calls made so far by the counting reader.
    pub calls: AtomicU64,
    /// Last length-delimited request seen by the counting reader.
    pub req_kind: AtomicU32,
    pub req_len: AtomicU64,
    pub req_pos: AtomicU64,
    pub result_len: AtomicU32,
}

const HDR_BYTES: usize = 4096;
const REGION_BYTES: usize = 1 << 20;

pub struct Shared {
    base: *mut u8,
    mapped: bool,
    heap: Option<Vec<u64>>,
}

// The mapping is only written through atomics / before-after a fork.
unsafe impl Send for Shared {}
unsafe impl Sync for Shared {}

#[derive(Clone, Debug, PartialEq)]
pub enum ChildEnd {
    /// Child wrote its result and exited normally.
    Completed,
    /// Exited with a code without completing (e.g. sanitizer exit code).
    Exit(i32),
    Signal(i32),
    /// Killed by the alarm.
    Timeout,
}

#[derive(Clone, Debug)]
pub struct ChildRun {
    pub end: ChildEnd,
    pub result: Option<String>,
    pub stderr: String,
    pub stage: u32,
    pub max_alloc: u64,
    pub calls: u64,
    pub req: (u32, u64, u64),
}

impl Shared {
    pub fn new() -> Shared {
        if cfg!(miri) {
            let mut heap = vec![0u64; HDR_BYTES / 8];
            let base = heap.as_mut_ptr() as *mut u8;
            return Shared { base, mapped: false, heap: Some(heap) };
        }
        let p = unsafe {
            libc::mmap(
                std::ptr::null_mut(),
                REGION_BYTES,
                libc::PROT_READ | libc::PROT_WRITE,
                libc::MAP_SHARED | libc::MAP_ANONYMOUS,
                -1,
                0,
            )
        };
        assert!(p != libc::MAP_FAILED, "mmap shared failed");
        Shared { base: p as *mut u8, mapped: true, heap: None }
    }

    pub fn hdr(&self) -> &Hdr {
        // Safety: base points to at least HDR_BYTES zero-initialised, 8-aligned bytes.
        unsafe { &*(self.base as *const Hdr) }
    }

    pub fn reset(&self) {
        let h = self.hdr();
        h.done.store(0, Ordering::SeqCst);
        h.stage.store(0, Ordering::SeqCst);
        h.max_alloc.store(0, Ordering::SeqCst);
        h.calls.store(0, Ordering::SeqCst);
        h.req_kind.store(0, Ordering::SeqCst);
        h.req_len.store(0, Ordering::SeqCst);
        h.req_pos.store(0, Ordering::SeqCst);
        h.result_len.store(0, Ordering::SeqCst);
    }

    pub fn max_alloc_ptr(&self) -> *mut AtomicU64 {
        &self.hdr().max_alloc as *const AtomicU64 as *mut AtomicU64
    }

    fn write_result(&self, s: &str) {
        if !self.mapped {
            return;
        }
        let cap = REGION_BYTES - HDR_BYTES;
        let b = s.as_bytes();
        let n = b.len().min(cap);
        unsafe { std::ptr::copy_nonoverlapping(b.as_ptr(), self.base.add(HDR_BYTES), n) };
        self.hdr().result_len.store(n as u32, Ordering::SeqCst);
        self.hdr().done.store(if n == b.len() { 1 } else { 2 }, Ordering::SeqCst);
    }

    fn read_result(&self) -> Option<String> {
        if self.hdr().done.load(Ordering::SeqCst) != 1 {
            return None;
        }
        let n = self.hdr().result_len.load(Ordering::SeqCst) as usize;
        let mut v = vec![0u8; n];
        unsafe { std::ptr::copy_nonoverlapping(self.base.add(HDR_BYTES), v.as_mut_ptr(), n) };
        String::from_utf8(v).ok()
    }

    /// Run `f` in a forked child. `f` returns the result string handed back to
    /// the parent. The calling process must be single-threaded.
    pub fn run(&self, timeout_s: u32, f: impl FnOnce() -> String + Send) -> ChildRun {
        assert!(self.mapped, "child runs are not available in this flavour");
        self.reset();
        let mut fds = [0i32; 2];
        let have_pipe = unsafe { libc::pipe(fds.as_mut_ptr()) } == 0;
        if have_pipe {
            unsafe {
                let fl = libc::fcntl(fds[1], libc::F_GETFL);
                libc::fcntl(fds[1], libc::F_SETFL, fl | libc::O_NONBLOCK);
            }
        }
        let r = guard::in_child(|| {
            unsafe {
                if have_pipe {
                    libc::close(fds[0]);
                    libc::dup2(fds[1], 2);
                    libc::close(fds[1]);
                }
                libc::alarm(timeout_s);
            }
            // Give the workload the stack of a normal main thread (8 MiB),
            // whatever the stack of the forking thread is.
            let s = std::thread::scope(|sc| {
                std::thread::Builder::new()
                    .stack_size(8 << 20)
                    .spawn_scoped(sc, f)
                    .expect("spawn in child")
                    .join()
                    .unwrap_or_else(|_| "\"child-thread-panicked\"".to_string())
            });
            self.write_result(&s);
            0
        });
        let mut stderr = String::new();
        if have_pipe {
            unsafe { libc::close(fds[1]) };
            let mut buf = vec![0u8; 16384];
            let mut all = Vec::new();
            loop {
                let n = unsafe { libc::read(fds[0], buf.as_mut_ptr() as *mut _, buf.len()) };
                if n <= 0 {
                    break;
                }
                all.extend_from_slice(&buf[..n as usize]);
                if all.len() > 1 << 20 {
                    break;
                }
            }
            unsafe { libc::close(fds[0]) };
            stderr = String::from_utf8_lossy(&all).into_owned();
        }
        // Sanitizer reports of the child must reach the driver, which scans
        // this process's stderr.
        if stderr.contains("Sanitizer") {
            eprintln!("{}", stderr);
        }
        let h = self.hdr();
        let result = self.read_result();
        let end = match r {
            Ok(0) if result.is_some() => ChildEnd::Completed,
            Ok(code) => ChildEnd::Exit(code),
            Err(sig) if sig == libc::SIGALRM => ChildEnd::Timeout,
            Err(sig) => ChildEnd::Signal(sig),
        };
        ChildRun {
            end,
            result,
            stderr,
            stage: h.stage.load(Ordering::SeqCst),
            max_alloc: h.max_alloc.load(Ordering::SeqCst),
            calls: h.calls.load(Ordering::SeqCst),
            req: (
                h.req_kind.load(Ordering::SeqCst),
                h.req_len.load(Ordering::SeqCst),
                h.req_pos.load(Ordering::SeqCst),
            ),
        }
    }
}

impl Drop for Shared {
    fn drop(&mut self) {
        if self.mapped {
            unsafe { libc::munmap(self.base as *mut _, REGION_BYTES) };
        }
        self.heap = None;
    }
}

/// Classify an abnormal child end for signatures (same class natively and
/// under ASan, which reports a stack overflow itself and exits with a code).
pub fn crash_class(run: &ChildRun) -> String {
    let err = &run.stderr;
    let asan_kind = || {
        err.find("ERROR: AddressSanitizer: ").map(|at| {
            let rest = &err[at + 25..];
            rest.split(|c: char| !(c.is_ascii_alphanumeric() || c == '-' || c == '_')).next().unwrap_or("").to_string()
        })
    };
    match &run.end {
        ChildEnd::Completed => "completed".to_string(),
        ChildEnd::Timeout => "timeout".to_string(),
        ChildEnd::Exit(_) | ChildEnd::Signal(_) => {
            if err.contains("overflowed its stack") || err.contains("AddressSanitizer: stack-overflow") {
                "stack_overflow".to_string()
            } else if err.contains("memory allocation of") {
                "abort:alloc".to_string()
            } else if let Some(k) = asan_kind() {
                format!("sanitizer:{}", k)
            } else {
                match &run.end {
                    ChildEnd::Exit(c) => format!("exit:{}", c),
                    ChildEnd::Signal(s) => format!("signal:{}", s),
                    _ => unreachable!(),
                }
            }
        }
    }
}
