//! C05, the part that runs inside the child: drive the real loader through
//! its entry points and examine every model that comes back.
use crate::allocmon;
use crate::c05run::Region;
use crate::c38::TmpFile;
use rten::verif::{Constant, Graph, Node};
use rten::{DataType, Dimension, Model, ModelOptions, NodeId, RunOptions, ThreadPool, Value, ValueOrView, ValueType, ValueView};
use rten_tensor::prelude::*;
use rten_tensor::{Storage, Tensor, TensorView};
use std::sync::Arc;
use vcommon::*;

// ---------------------------------------------------------------- panics

static LAST_PANIC: std::sync::Mutex<Option<String>> = std::sync::Mutex::new(None);

/// Resolving a backtrace costs seconds in a fresh process (debug info is
/// parsed on first use), so it is only done when a finding is written up.
static RESOLVE_FRAMES: std::sync::atomic::AtomicBool = std::sync::atomic::AtomicBool::new(false);

pub fn set_resolve_frames(on: bool) {
    RESOLVE_FRAMES.store(on, std::sync::atomic::Ordering::SeqCst);
}

/// Panic hook for the child: like `vcommon::quiet_panics`, but when the panic
/// is raised inside the standard library or a dependency (capacity overflow,
/// slice index, unwrap on None ...) the first rten frame of the backtrace is
/// appended, so that the signature names the rten code that asked for it.
pub fn install_child_panic_hook() {
    std::panic::set_hook(Box::new(|info| {
        let msg = if let Some(s) = info.payload().downcast_ref::<&str>() {
            s.to_string()
        } else if let Some(s) = info.payload().downcast_ref::<String>() {
            s.clone()
        } else {
            "<non-string panic>".to_string()
        };
        let loc = info.location().map(|l| format!("{}:{}", l.file(), l.line())).unwrap_or_default();
        let mut text = format!("{} @ {}", msg, loc);
        if !RESOLVE_FRAMES.load(std::sync::atomic::Ordering::SeqCst) {
            if let Ok(mut slot) = LAST_PANIC.lock() {
                *slot = Some(text);
            }
            return;
        }
        // The rten frames below the panic: the first one outside the tensor /
        // support crates goes into the signature when the panic itself was
        // raised in the standard library, a dependency or rten-tensor.
        let bt = std::backtrace::Backtrace::force_capture().to_string();
        let mut frames: Vec<String> = Vec::new();
        for l in bt.lines().map(|l| l.trim()) {
            if let Some(f) = l.strip_prefix("at /repo/") {
                let mut parts = f.rsplitn(2, ':');
                let _col = parts.next();
                let fl = parts.next().unwrap_or(f).to_string();
                if frames.last() != Some(&fl) {
                    frames.push(fl);
                }
                if frames.len() >= 8 {
                    break;
                }
            }
        }
        if !loc.starts_with("/repo/src/") {
            if let Some(f) = frames.iter().find(|f| f.starts_with("src/") && !f.starts_with("src/buffer_pool.rs")) {
                text.push_str(&format!(" [first rten frame /repo/{}]", f));
            }
        }
        if !frames.is_empty() {
            text.push_str(&format!(" [frames {}]", frames.join(" <- ")));
        }
        if let Ok(mut slot) = LAST_PANIC.lock() {
            *slot = Some(text);
        }
    }));
}

/// Called by the allocation monitor just before it refuses a request: write
/// the rten frames that asked for the memory to stderr, where the parent finds
/// them after the abort.
fn on_alloc_refused(size: usize) {
    let bt = std::backtrace::Backtrace::force_capture().to_string();
    let mut files: Vec<String> = Vec::new();
    for l in bt.lines().map(|l| l.trim()) {
        if let Some(f) = l.strip_prefix("at /repo/") {
            let file = f.split(':').next().unwrap_or(f).to_string();
            if files.last() != Some(&file) {
                files.push(file);
            }
            if files.len() >= 8 {
                break;
            }
        }
    }
    eprintln!("C05-ALLOC-REFUSED {} bytes; rten frames: {}", size, files.join(" <- "));
}

pub fn install_child_alloc_hook() {
    allocmon::set_on_refuse(on_alloc_refused);
}

/// `catch_unwind` that returns the text recorded by the child's hook.
pub fn catch_panic<T>(f: impl FnOnce() -> T) -> Result<T, String> {
    match std::panic::catch_unwind(std::panic::AssertUnwindSafe(f)) {
        Ok(v) => Ok(v),
        Err(_) => Err(LAST_PANIC.lock().ok().and_then(|mut m| m.take()).unwrap_or_else(|| "<panic>".to_string())),
    }
}

// ---------------------------------------------------------------- entries

pub const E_BUF_OPT: u32 = 1;
pub const E_BUF_NOOPT: u32 = 2;
pub const E_FILE_OPT: u32 = 3;
pub const E_FILE_NOOPT: u32 = 4;
pub const E_MMAP: u32 = 5;
pub const E_BUF_PREPACK: u32 = 6;
pub const ALL_ENTRIES: [u32; 6] = [E_BUF_OPT, E_BUF_NOOPT, E_FILE_OPT, E_FILE_NOOPT, E_MMAP, E_BUF_PREPACK];

pub fn entry_name(e: u32) -> &'static str {
    match e {
        E_BUF_OPT => "load(buf,optimize)",
        E_BUF_NOOPT => "load(buf,no-optimize)",
        E_FILE_OPT => "load_file(optimize)",
        E_FILE_NOOPT => "load_file(no-optimize)",
        E_MMAP => "load_mmap(optimize)",
        E_BUF_PREPACK => "load(buf,optimize,prepack)",
        _ => "?",
    }
}

/// Entry group used in signatures: which public function was driven.
pub fn entry_group(e: u32) -> &'static str {
    match e {
        E_BUF_OPT | E_BUF_NOOPT | E_BUF_PREPACK => "load",
        E_FILE_OPT | E_FILE_NOOPT => "load_file",
        E_MMAP => "load_mmap",
        _ => "?",
    }
}

pub fn entry_bit(e: u32) -> u32 {
    1 << e
}

// ---------------------------------------------------------------- stages

pub const ST_LOAD: u32 = 1;
pub const ST_WALK: u32 = 2;
pub const ST_READ: u32 = 3;
pub const ST_CONST_OUT: u32 = 4;
pub const ST_RUN: u32 = 5;
pub const ST_DROP: u32 = 6;

pub fn stage_name(s: u32) -> &'static str {
    match s {
        ST_LOAD => "load",
        ST_WALK => "walk_constants",
        ST_READ => "read_constant_elements",
        ST_CONST_OUT => "run_constant_as_output",
        ST_RUN => "run_model",
        ST_DROP => "drop_model",
        _ => "between_stages",
    }
}

// ---------------------------------------------------------------- environment

/// Per-process scratch files (rewritten in place for every case).
pub struct Env {
    pub dir: String,
    pub onnx: TmpFile,
    pub rten: TmpFile,
    pub ext_data: Vec<u8>,
}

pub const EXT_DATA_NAME: &str = "weights.data";
pub const EXT_DATA_LEN: usize = 4096;

pub fn ext_data_bytes() -> Vec<u8> {
    (0..EXT_DATA_LEN).map(|i| ((i * 7 + 3) % 251) as u8).collect()
}

/// The thread pool used for running models. Created on first use, i.e. in
/// the child: a pool created before the fork would have no worker threads
/// there.
fn run_pool() -> Arc<ThreadPool> {
    static POOL: std::sync::OnceLock<Arc<ThreadPool>> = std::sync::OnceLock::new();
    POOL.get_or_init(|| Arc::new(ThreadPool::with_num_threads(1))).clone()
}

impl Env {
    pub fn new() -> Env {
        let dir = format!("/verif/tmp/c05-{}", std::process::id());
        let _ = std::fs::create_dir_all(&dir);
        let ext_data = ext_data_bytes();
        std::fs::write(format!("{}/{}", dir, EXT_DATA_NAME), &ext_data).expect("write external data file");
        Env {
            onnx: TmpFile::create(&format!("{}/case.onnx", dir)).expect("tmp onnx"),
            rten: TmpFile::create(&format!("{}/case.rten", dir)).expect("tmp rten"),
            dir,
            ext_data,
        }
    }
    pub fn cleanup(&self) {
        let _ = std::fs::remove_dir_all(&self.dir);
    }
}

// ---------------------------------------------------------------- results

#[derive(Clone, Debug, Default)]
pub struct EntryOut {
    pub entry: u32,
    /// "ok" | "err" | "panic"
    pub status: String,
    /// LoadErrorKind for "err"
    pub kind: String,
    pub msg: String,
    pub max_alloc: u64,
    pub micros: u64,
    pub n_consts: u64,
    pub n_sub_consts: u64,
    pub elems_read: u64,
    pub n_ops: u64,
    /// Descriptions of malformed constants ("class|detail").
    pub bad: Vec<String>,
    pub const_out_ok: u64,
    pub const_out_err: u64,
    pub const_out_panic: u64,
    /// A constant returned through run() whose shape/count disagree.
    pub const_out_bad: Vec<String>,
    /// "" (not attempted) | "ok" | "err" | "panic" | "skipped:<why>"
    pub run: String,
    pub run_msg: String,
}

impl EntryOut {
    pub fn to_json(&self) -> Json {
        json!({"e": self.entry, "s": self.status, "k": self.kind, "m": self.msg, "a": self.max_alloc, "us": self.micros,
               "nc": self.n_consts, "nsc": self.n_sub_consts, "ne": self.elems_read, "no": self.n_ops, "bad": self.bad,
               "cok": self.const_out_ok, "cerr": self.const_out_err, "cpan": self.const_out_panic, "cbad": self.const_out_bad,
               "run": self.run, "rm": self.run_msg})
    }
    pub fn from_json(j: &Json) -> EntryOut {
        let strs = |v: &Json| v.as_array().map(|a| a.iter().filter_map(|x| x.as_str().map(|s| s.to_string())).collect()).unwrap_or_default();
        EntryOut {
            entry: j["e"].as_u64().unwrap_or(0) as u32,
            status: j["s"].as_str().unwrap_or("").to_string(),
            kind: j["k"].as_str().unwrap_or("").to_string(),
            msg: j["m"].as_str().unwrap_or("").to_string(),
            max_alloc: j["a"].as_u64().unwrap_or(0),
            micros: j["us"].as_u64().unwrap_or(0),
            n_consts: j["nc"].as_u64().unwrap_or(0),
            n_sub_consts: j["nsc"].as_u64().unwrap_or(0),
            elems_read: j["ne"].as_u64().unwrap_or(0),
            n_ops: j["no"].as_u64().unwrap_or(0),
            bad: strs(&j["bad"]),
            const_out_ok: j["cok"].as_u64().unwrap_or(0),
            const_out_err: j["cerr"].as_u64().unwrap_or(0),
            const_out_panic: j["cpan"].as_u64().unwrap_or(0),
            const_out_bad: strs(&j["cbad"]),
            run: j["run"].as_str().unwrap_or("").to_string(),
            run_msg: j["rm"].as_str().unwrap_or("").to_string(),
        }
    }
}

// ---------------------------------------------------------------- constants

/// Checked product in u128; `None` when it does not even fit there.
pub fn checked_product(shape: &[usize]) -> Option<u128> {
    // A zero dimension makes the tensor empty whatever the other dimensions are.
    if shape.iter().any(|&d| d == 0) {
        return Some(0);
    }
    let mut p: u128 = 1;
    for &d in shape {
        p = p.checked_mul(d as u128)?;
    }
    Some(p)
}

/// Smallest storage length (in elements) that keeps every index of
/// (shape, strides) inside the storage, computed without overflow.
pub fn required_len(shape: &[usize], strides: &[usize]) -> Option<u128> {
    if shape.iter().any(|&d| d == 0) {
        return Some(0);
    }
    let mut last: u128 = 0;
    for (&d, &s) in shape.iter().zip(strides) {
        last = last.checked_add(((d - 1) as u128).checked_mul(s as u128)?)?;
    }
    last.checked_add(1)
}

/// The well-formedness monitor for one tensor view: element count (checked,
/// 128 bit) against the backing storage. Returns a list of "class|detail".
pub fn check_view<T>(v: &TensorView<T>, what: &str, out: &mut Vec<String>) -> bool {
    let shape = v.shape().to_vec();
    let strides = v.strides().to_vec();
    let storage_len = v.storage().len() as u128;
    let layout_len = v.len() as u128;
    let elem = std::mem::size_of::<T>().max(1) as u128;
    let before = out.len();
    let describe = |class: &str, extra: String| format!("{}|{} shape={:?} strides={:?} storage_len={} reported_len={} {}", class, what, shape, strides, storage_len, layout_len, extra);
    // The data pointer must be aligned for the element type even when the
    // constant is empty: the views handed to operators are built with
    // slice::from_raw_parts, whose precondition this is.
    let ptr = v.data_ptr() as usize;
    if ptr % std::mem::align_of::<T>() != 0 {
        out.push(describe("misaligned_data_pointer", format!("ptr%align={}", ptr % std::mem::align_of::<T>())));
    }
    match checked_product(&shape) {
        None => out.push(describe("count_overflows_u128", String::new())),
        Some(p) => {
            if p.checked_mul(elem).map(|b| b > isize::MAX as u128).unwrap_or(true) {
                out.push(describe("count_exceeds_address_space", format!("product={}", p)));
            }
            if p != layout_len {
                out.push(describe("count_ne_reported_len", format!("product={}", p)));
            }
            match required_len(&shape, &strides) {
                None => out.push(describe("extent_overflows_u128", String::new())),
                Some(req) => {
                    if req > storage_len {
                        out.push(describe("count_exceeds_data", format!("product={} required={}", p, req)));
                    } else if v.is_contiguous() && p != storage_len {
                        out.push(describe("count_ne_data", format!("product={}", p)));
                    }
                }
            }
        }
    }
    out.len() == before
}

fn sum_view<T: Copy + Into<f64>>(v: &TensorView<T>) -> (u64, f64) {
    let mut n = 0u64;
    let mut acc = 0f64;
    for x in v.iter() {
        n += 1;
        let f: f64 = (*x).into();
        if f.is_finite() {
            acc += f;
        }
    }
    (n, acc)
}

/// Largest constant (in elements) whose elements are all read.
const READ_CAP: u128 = 1 << 24;

struct Walk {
    n_consts: u64,
    n_sub: u64,
    n_ops: u64,
    elems: u64,
    bad: Vec<String>,
    checksum: f64,
    /// Top-level constants that are well-formed: ids to request through run().
    top_ok: Vec<(NodeId, u128)>,
    demonstrate: bool,
}

fn examine_constant(c: &Constant, what: &str, w: &mut Walk, region: Option<&Region>) -> bool {
    let mut bad = Vec::new();
    let ok = match c.as_view() {
        ValueView::FloatTensor(v) => check_view(&v, what, &mut bad),
        ValueView::Int32Tensor(v) => check_view(&v, what, &mut bad),
        ValueView::Int8Tensor(v) => check_view(&v, what, &mut bad),
        ValueView::UInt8Tensor(v) => check_view(&v, what, &mut bad),
        _ => true,
    };
    if !ok {
        w.bad.extend(bad);
        if !w.demonstrate {
            return false;
        }
    }
    let n = checked_product(c.shape()).unwrap_or(0);
    if n > READ_CAP {
        return true;
    }
    if let Some(r) = region {
        r.set_stage(ST_READ, r.hdr().aux.load(std::sync::atomic::Ordering::SeqCst));
    }
    // Touch every element through the constant's own view: under ASan a view
    // that extends past its backing allocation is reported here.
    let (cnt, s) = match c.as_view() {
        ValueView::FloatTensor(v) => sum_view(&v),
        ValueView::Int32Tensor(v) => sum_view(&v),
        ValueView::Int8Tensor(v) => sum_view(&v),
        ValueView::UInt8Tensor(v) => sum_view(&v),
        _ => (0, 0.0),
    };
    if cnt as u128 != n {
        w.bad.push(format!("iter_count_ne_product|{} shape={:?} iterated={} product={}", what, c.shape(), cnt, n));
        return false;
    }
    w.elems += cnt;
    w.checksum += s;
    if let Some(r) = region {
        r.set_stage(ST_WALK, r.hdr().aux.load(std::sync::atomic::Ordering::SeqCst));
    }
    true
}

fn walk_graph(g: &Graph, depth: usize, path: &str, w: &mut Walk, region: Option<&Region>) {
    if depth > 64 {
        return;
    }
    for (id, node) in g.iter() {
        match node {
            Node::Constant(c) => {
                w.n_consts += 1;
                if depth > 0 {
                    w.n_sub += 1;
                }
                let what = format!("{}const#{}({:?},{})", path, id.as_u32(), c.name().unwrap_or(""), dtype_name(c));
                let ok = examine_constant(c, &what, w, region);
                if ok && depth == 0 {
                    w.top_ok.push((id, checked_product(c.shape()).unwrap_or(0)));
                }
            }
            Node::Operator(op) => {
                w.n_ops += 1;
                // An operator writes values: an output that names a constant (or an
                // operator) makes the constant's data depend on which of the two the
                // executor happens to read - not a well-formed constant.
                for out_id in op.output_ids().iter().flatten() {
                    match g.get_node(*out_id) {
                        Some(Node::Value(_)) => {}
                        Some(Node::Constant(c)) => w.bad.push(format!(
                            "constant_is_operator_output|{}op#{} writes to const#{}({:?})",
                            path,
                            id.as_u32(),
                            out_id.as_u32(),
                            c.name().unwrap_or("")
                        )),
                        _ => w.bad.push(format!("operator_output_not_a_value|{}op#{} output #{}", path, id.as_u32(), out_id.as_u32())),
                    }
                }
                if let Some(sg) = op.operator().as_subgraph_op() {
                    for (i, sub) in sg.subgraphs().into_iter().enumerate() {
                        walk_graph(sub, depth + 1, &format!("{}op#{}.sub{}/", path, id.as_u32(), i), w, region);
                    }
                }
            }
            Node::Value(_) => {}
        }
    }
}

fn dtype_name(c: &Constant) -> &'static str {
    match c {
        Constant::Float(_) => "f32",
        Constant::Int32(_) => "i32",
        Constant::Int8(_) => "i8",
        Constant::UInt8(_) => "u8",
    }
}

fn value_count_shape(v: &Value) -> Option<(Vec<usize>, usize)> {
    Some(match v {
        Value::FloatTensor(t) => (t.shape().to_vec(), t.iter().count()),
        Value::Int32Tensor(t) => (t.shape().to_vec(), t.iter().count()),
        Value::Int8Tensor(t) => (t.shape().to_vec(), t.iter().count()),
        Value::UInt8Tensor(t) => (t.shape().to_vec(), t.iter().count()),
        _ => return None,
    })
}

// ---------------------------------------------------------------- running the model

const MAX_RUN_INPUTS: usize = 6;
const MAX_RUN_ELEMS: usize = 1 << 14;
const MAX_RUN_OPS: u64 = 400;

fn conforming_inputs(model: &Model) -> Result<Vec<(NodeId, ValueOrView<'static>)>, String> {
    let ids = model.input_ids();
    if ids.len() > MAX_RUN_INPUTS {
        return Err("too_many_inputs".into());
    }
    let mut out: Vec<(NodeId, ValueOrView<'static>)> = Vec::new();
    for &id in ids {
        let Some(info) = model.node_info(id) else { return Err("dangling_input_id".into()) };
        let shape: Vec<usize> = match info.shape() {
            Some(dims) => dims
                .iter()
                .map(|d| match d {
                    Dimension::Fixed(n) => *n,
                    Dimension::Symbolic(_) => 2,
                })
                .collect(),
            None => vec![2],
        };
        let n = checked_product(&shape).unwrap_or(u128::MAX);
        if n > MAX_RUN_ELEMS as u128 {
            return Err("input_too_large".into());
        }
        let n = n as usize;
        let v: Value = match info.dtype() {
            Some(ValueType::Tensor(DataType::Float)) | None => Tensor::from_data(shape.as_slice(), vec![0.5f32; n]).into(),
            Some(ValueType::Tensor(DataType::Int32)) => Tensor::from_data(shape.as_slice(), vec![1i32; n]).into(),
            Some(ValueType::Tensor(DataType::Int8)) => Tensor::from_data(shape.as_slice(), vec![1i8; n]).into(),
            Some(ValueType::Tensor(DataType::UInt8)) => Tensor::from_data(shape.as_slice(), vec![1u8; n]).into(),
            _ => return Err("non_tensor_input".into()),
        };
        out.push((id, v.into()));
    }
    Ok(out)
}

// ---------------------------------------------------------------- one entry

pub struct ExecOpts {
    /// Alarm (seconds) for one load call and everything up to the model run.
    pub alarm_s: u32,
    /// Alarm for the (unjudged) run of the model.
    pub run_alarm_s: u32,
    /// Resolve the rten frames under a panic (slow; write-up runs only).
    pub resolve_frames: bool,
    /// Request well-formed top-level constants through run() (at most this many).
    pub const_outputs: usize,
    pub run_model: bool,
    /// Use a malformed constant anyway (read its elements, run the model) to
    /// show the consequence; only for the final, single-case execution.
    pub demonstrate: bool,
}

fn load_entry(entry: u32, bytes: &[u8], is_rten_ext: bool, env: &Env) -> Result<Model, rten::LoadError> {
    // Building the operator registry costs far more than loading a small
    // model; build it once per process (in the child) and clone the options.
    thread_local! {
        static BASE: ModelOptions = ModelOptions::with_all_ops();
    }
    let mut opts = BASE.with(|b| b.clone());
    match entry {
        E_BUF_NOOPT | E_FILE_NOOPT => {
            opts.enable_optimization(false);
        }
        E_BUF_PREPACK => {
            opts.prepack_weights(true);
        }
        _ => {}
    }
    match entry {
        E_BUF_OPT | E_BUF_NOOPT | E_BUF_PREPACK => {
            opts.external_data(EXT_DATA_NAME, env.ext_data.clone());
            opts.load(bytes.to_vec())
        }
        E_FILE_OPT | E_FILE_NOOPT => opts.load_file(if is_rten_ext { &env.rten.path } else { &env.onnx.path }),
        // Safety (of the harness): the scratch file is not modified while the
        // model is alive; the model is dropped before the next case is written.
        E_MMAP => unsafe { opts.load_mmap(if is_rten_ext { &env.rten.path } else { &env.onnx.path }) },
        _ => unreachable!(),
    }
}

pub static T_PUT: std::sync::atomic::AtomicU64 = std::sync::atomic::AtomicU64::new(0);
pub static T_LOAD: std::sync::atomic::AtomicU64 = std::sync::atomic::AtomicU64::new(0);
pub static T_EXAMINE: std::sync::atomic::AtomicU64 = std::sync::atomic::AtomicU64::new(0);
pub static T_DROP: std::sync::atomic::AtomicU64 = std::sync::atomic::AtomicU64::new(0);

/// Execute the entry points selected by `mask` on `bytes`.
pub fn exec_case(bytes: &[u8], mask: u32, rten_ext: bool, env: &Env, region: Option<&Region>, xo: &ExecOpts) -> Vec<EntryOut> {
    let mut outs = Vec::new();
    set_resolve_frames(xo.resolve_frames);
    let needs_file = mask & (entry_bit(E_FILE_OPT) | entry_bit(E_FILE_NOOPT) | entry_bit(E_MMAP)) != 0;
    let mut file_ok = true;
    if needs_file {
        let t = std::time::Instant::now();
        file_ok = if rten_ext { env.rten.put(bytes) } else { env.onnx.put(bytes) };
        T_PUT.fetch_add(t.elapsed().as_micros() as u64, std::sync::atomic::Ordering::Relaxed);
    }
    for e in ALL_ENTRIES {
        if mask & entry_bit(e) == 0 {
            continue;
        }
        if !file_ok && matches!(e, E_FILE_OPT | E_FILE_NOOPT | E_MMAP) {
            continue;
        }
        if e == E_MMAP && bytes.is_empty() {
            // mmap of an empty file is an error of the OS call, nothing to see.
            continue;
        }
        let mut out = EntryOut { entry: e, ..Default::default() };
        if let Some(r) = region {
            r.set_stage(ST_LOAD, e);
        }
        unsafe { libc::alarm(xo.alarm_s) };
        allocmon::set_refuse_above(crate::c05::LOAD_REFUSE_ABOVE);
        let t0 = std::time::Instant::now();
        let (r, max_alloc) = allocmon::measure(|| catch_panic(|| load_entry(e, bytes, rten_ext, env)));
        out.micros = t0.elapsed().as_micros() as u64;
        T_LOAD.fetch_add(out.micros, std::sync::atomic::Ordering::Relaxed);
        out.max_alloc = max_alloc as u64;
        match r {
            Err(p) => {
                out.status = "panic".into();
                out.msg = p;
            }
            Ok(Err(err)) => {
                out.status = "err".into();
                out.kind = format!("{:?}", err.kind());
                let m = err.to_string();
                out.msg = m.chars().take(160).collect();
            }
            Ok(Ok(model)) => {
                out.status = "ok".into();
                let t = std::time::Instant::now();
                examine_model(&model, e, &mut out, env, region, xo);
                T_EXAMINE.fetch_add(t.elapsed().as_micros() as u64, std::sync::atomic::Ordering::Relaxed);
                if let Some(r) = region {
                    r.set_stage(ST_DROP, e);
                }
                let t = std::time::Instant::now();
                drop(model);
                T_DROP.fetch_add(t.elapsed().as_micros() as u64, std::sync::atomic::Ordering::Relaxed);
            }
        }
        if let Some(r) = region {
            r.set_stage(0, e);
        }
        outs.push(out);
    }
    outs
}

fn examine_model(model: &Model, e: u32, out: &mut EntryOut, _env: &Env, region: Option<&Region>, xo: &ExecOpts) {
    if let Some(r) = region {
        r.set_stage(ST_WALK, e);
    }
    let mut w = Walk { n_consts: 0, n_sub: 0, n_ops: 0, elems: 0, bad: Vec::new(), checksum: 0.0, top_ok: Vec::new(), demonstrate: xo.demonstrate };
    // The walk itself only uses safe accessors; a panic here would be a
    // harness problem or a constant so broken that its accessors assert.
    let walked = catch_panic(|| walk_graph(rten::verif::model_graph(model), 0, "", &mut w, region));
    std::hint::black_box(w.checksum);
    out.n_consts = w.n_consts;
    out.n_sub_consts = w.n_sub;
    out.n_ops = w.n_ops;
    out.elems_read = w.elems;
    out.bad = std::mem::take(&mut w.bad);
    if let Err(p) = walked {
        out.bad.push(format!("accessor_panicked|{}", p));
    }
    out.bad.truncate(8);
    let malformed = !out.bad.is_empty();
    if let Some(r) = region {
        r.hdr().aux2.store(out.bad.len() as u64, std::sync::atomic::Ordering::SeqCst);
    }
    if malformed && !xo.demonstrate {
        // The finding is the malformed constant; using it is pointless danger.
        out.run = "skipped:malformed_constant".into();
        return;
    }

    // From here on the model is *run*. Aborts in this phase are not judged on
    // their own, so large requests are refused early to protect the host.
    allocmon::set_refuse_above(256 << 20);
    allocmon::begin();
    if xo.const_outputs > 0 {
        if let Some(r) = region {
            r.set_stage(ST_CONST_OUT, e);
        }
        for &(id, n) in w.top_ok.iter().take(xo.const_outputs) {
            if n > READ_CAP {
                continue;
            }
            let opts = RunOptions::default().with_thread_pool(Some(run_pool()));
            match catch_panic(|| model.run(vec![], &[id], Some(opts))) {
                Err(_) => out.const_out_panic += 1,
                Ok(Err(_)) => out.const_out_err += 1,
                Ok(Ok(vals)) => {
                    out.const_out_ok += 1;
                    if let Some((shape, count)) = vals.first().and_then(value_count_shape) {
                        let p = checked_product(&shape);
                        if p != Some(count as u128) || p != Some(n) {
                            out.const_out_bad.push(format!("returned_constant_mismatch|const#{} returned shape={:?} elements={} constant_elements={}", id.as_u32(), shape, count, n));
                        }
                    }
                }
            }
        }
    }
    if xo.run_model {
        if let Some(r) = region {
            r.set_stage(ST_RUN, e);
        }
        unsafe { libc::alarm(xo.run_alarm_s) };
        if w.n_ops > MAX_RUN_OPS {
            out.run = "skipped:too_many_ops".into();
        } else {
            match conforming_inputs(model) {
                Err(why) => out.run = format!("skipped:{}", why),
                Ok(inputs) => {
                    let opts = RunOptions::default().with_thread_pool(Some(run_pool()));
                    match catch_panic(|| model.run(inputs, model.output_ids(), Some(opts))) {
                        Err(p) => {
                            out.run = "panic".into();
                            out.run_msg = p.chars().take(160).collect();
                        }
                        Ok(Err(err)) => {
                            out.run = "err".into();
                            out.run_msg = err.to_string().chars().take(120).collect();
                        }
                        Ok(Ok(_)) => out.run = if malformed { "ok_despite_malformed".into() } else { "ok".into() },
                    }
                }
            }
        }
    }
    allocmon::end();
    allocmon::set_refuse_above(allocmon::REFUSE_ABOVE);
    unsafe { libc::alarm(xo.alarm_s) };
}
