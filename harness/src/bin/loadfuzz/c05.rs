//! C05: loading untrusted model bytes is safe, bounded and well-formed.
//!
//! Statement decided: "For any byte string presented as an ONNX or .rten model
//! (from a buffer or a file), loading terminates and returns either a model or
//! an error, without undefined behaviour, panics or out-of-bounds reads. Every
//! constant in a successfully loaded model has an element count that fits in
//! memory and matches its backing data, so that running the model cannot read
//! outside that data."
//!
//! Drive: the real loader (`ModelOptions::load`, `load_file`, `load_mmap`, with
//! the optimiser on and off, with and without weight pre-packing) on
//! structure-aware mutants of valid ONNX and .rten models.
//!
//! Monitors, per input (all loads happen in forked batch children, see
//! `c05run`):
//!  * panics inside a load call (`catch_unwind`): violation, wherever in the
//!    load path they originate (decoder, graph construction, operator
//!    deserialisation, optimiser, pre-packing);
//!  * child deaths while a load call is in flight: stack overflow, SIGSEGV /
//!    SIGBUS, sanitizer report, and allocation-failure aborts whose request
//!    exceeds 16 * input_len + 1 MiB (what the input could justify);
//!  * termination: a per-case alarm (>= 10^4 x the normal load time of such an
//!    input); a case killed by it is re-run alone with a longer alarm before
//!    it is reported;
//!  * well-formedness of every model that loads: through the `rten::verif`
//!    graph hook every constant node (sub-graphs included) is checked - the
//!    checked 128-bit product of its shape must fit the address space, equal
//!    the length its layout reports, stay within the length of its backing
//!    storage (contiguous constants: be equal to it) - and then every element
//!    is read through the constant's own view (under ASan this is where a view
//!    longer than its allocation is reported). Well-formed top-level
//!    constants are additionally requested as outputs of `Model::run`, whose
//!    returned shape and element count must agree with the constant;
//!  * the model is then run once with conforming inputs. Errors and panics of
//!    that run are *counted only*: they are outside "loading". A crash there
//!    is reported only as the consequence of a malformed constant.
use crate::allocmon;
use crate::c05exec::{self as ex, EntryOut, Env, ExecOpts};
use crate::c05onnx as ox;
use crate::c05rten as rt;
use crate::c05run::{self, ChildEnd, Region};
use crate::pbmut;
use crate::seeds;
use crate::shadow::{self, Msg};
use crate::shrink;
use std::cell::Cell;
use std::collections::HashSet;
use std::io::BufRead;
use vcommon::onnxpb;
use vcommon::*;

// ---------------------------------------------------------------- cases

#[derive(Clone, Copy, Debug, PartialEq, Eq, Hash)]
pub enum Fmt {
    Onnx,
    Rten,
}

impl Fmt {
    fn name(self) -> &'static str {
        match self {
            Fmt::Onnx => "onnx",
            Fmt::Rten => "rten",
        }
    }
    fn from_name(s: &str) -> Fmt {
        if s == "rten" { Fmt::Rten } else { Fmt::Onnx }
    }
}

#[derive(Clone, Debug)]
pub struct Case {
    pub bytes: Vec<u8>,
    /// How the bytes are presented to the file entry points (extension).
    pub fmt: Fmt,
    /// Format of the model the bytes were derived from (used in signatures).
    pub origin: Fmt,
    pub class: String,
    pub seed_name: String,
    pub structured: bool,
    pub mask: u32,
    pub run_model: bool,
}

const FULL_MASK: u32 = (1 << ex::E_BUF_OPT) | (1 << ex::E_BUF_NOOPT) | (1 << ex::E_FILE_OPT) | (1 << ex::E_FILE_NOOPT) | (1 << ex::E_MMAP) | (1 << ex::E_BUF_PREPACK);

// ---------------------------------------------------------------- outcome of a case

#[derive(Clone, Debug)]
pub struct Crash {
    pub class: String,
    pub stage: u32,
    pub entry: u32,
    pub max_alloc: u64,
    pub stderr: String,
    pub malformed_seen: u64,
}

#[derive(Clone, Debug, Default)]
pub struct Outcome {
    pub outs: Vec<EntryOut>,
    pub crash: Option<Crash>,
}

#[derive(Clone, Debug)]
pub struct Finding {
    pub group: &'static str,
    pub entry: u32,
    /// Which part of the load path was executing (derived from the rten
    /// frames under the panic / refused allocation), or what was examined.
    pub stage: String,
    pub class: String,
    pub detail: String,
}

impl Finding {
    /// Identity used while fuzzing and shrinking, when frames are not
    /// resolved: the class without the " <- frame" part.
    fn key(&self) -> String {
        self.class.split(" <- ").next().unwrap_or("").to_string()
    }
    fn signature(&self, fmt: Fmt) -> String {
        format!("C05|{}|{}|{}|{}", fmt.name(), self.group, self.stage, self.class)
    }
}

/// Normalise a panic message for signatures: no numbers, no shape lists, no
/// toolchain / checkout path prefixes, no line numbers. A panic raised
/// outside rten keeps the first rten frame (file only).
pub fn norm_panic(msg: &str) -> String {
    fn file_of(loc: &str) -> String {
        let mut l = loc.trim();
        for marker in ["/library/", "/registry/src/"] {
            if let Some(p) = l.find(marker) {
                l = &l[p + 1..];
            }
        }
        let l = l.strip_prefix("/repo/").unwrap_or(l);
        // drop ":line"
        match l.rsplit_once(':') {
            Some((f, n)) if n.chars().all(|c| c.is_ascii_digit()) => f.to_string(),
            _ => l.to_string(),
        }
    }
    let msg = match msg.find(" [frames ") {
        Some(i) => &msg[..i],
        None => msg,
    };
    let (head, frame) = match msg.find(" [first rten frame ") {
        Some(i) => (&msg[..i], Some(msg[i + 18..].trim().trim_end_matches(']').to_string())),
        None => (msg, None),
    };
    let (m, loc) = head.rsplit_once(" @ ").unwrap_or((head, ""));
    let m = panic_class(m);
    // "[N, N, N]" -> "[..]"
    let mut out = String::new();
    let mut rest = m.as_str();
    while let Some(a) = rest.find('[') {
        out.push_str(&rest[..a]);
        if let Some(b) = rest[a..].find(']') {
            let inner = &rest[a + 1..a + b];
            if inner.chars().all(|c| c == 'N' || c == ',' || c == ' ') {
                out.push_str("[..]");
            } else {
                out.push_str(&rest[a..a + b + 1]);
            }
            rest = &rest[a + b + 1..];
        } else {
            // Unclosed (the message was truncated inside a long shape list).
            if rest[a + 1..].chars().all(|c| c == 'N' || c == ',' || c == ' ') {
                out.push_str("[..]");
            } else {
                out.push_str(&rest[a..]);
            }
            rest = "";
        }
    }
    out.push_str(rest);
    if out.len() > 110 {
        let mut cut = 110;
        while !out.is_char_boundary(cut) {
            cut -= 1;
        }
        out.truncate(cut);
    }
    let mut sig = format!("{} @ {}", out, file_of(loc));
    if let Some(f) = frame {
        sig.push_str(&format!(" <- {}", file_of(&f)));
    }
    sig
}

/// Requests above this are refused while a load call is in flight (the C38
/// engine uses 4 GiB; here up to 16 shards load concurrently and a hostile
/// model can make the optimiser really fill what it is given).
pub const LOAD_REFUSE_ABOVE: usize = (1 << 30) + (1 << 16);

/// Which part of the load path do these rten frames ("file[:line] <- ...",
/// innermost first) belong to?
pub fn phase_of(frames: &str) -> &'static str {
    let fs: Vec<&str> = frames.split(" <- ").map(|f| f.trim()).collect();
    if fs.iter().any(|f| f.starts_with("src/ops/")) {
        // An operator's code runs at load time only when the optimiser
        // evaluates constant sub-graphs (or for weight pre-packing).
        "operator_evaluation"
    } else if fs.iter().any(|f| f.starts_with("rten-shape-inference/") || f.starts_with("src/infer_shapes.rs")) {
        "shape_inference"
    } else if fs.iter().any(|f| f.starts_with("src/optimize")) {
        "graph_optimizer"
    } else {
        "model_loader"
    }
}

fn frames_of_panic(msg: &str) -> &str {
    match msg.find(" [frames ") {
        Some(i) => msg[i + 9..].trim_end_matches(']'),
        None => "",
    }
}

fn justified_alloc(len: usize) -> u64 {
    16 * len as u64 + (1 << 20)
}

pub fn judge(bytes: &[u8], oc: &Outcome) -> Vec<Finding> {
    let mut fs: Vec<Finding> = Vec::new();
    let mut push = |f: Finding| {
        if !fs.iter().any(|g| g.key() == f.key()) {
            fs.push(f);
        }
    };
    for o in &oc.outs {
        let group = ex::entry_group(o.entry);
        if o.status == "panic" {
            push(Finding { group, entry: o.entry, stage: phase_of(frames_of_panic(&o.msg)).to_string(), class: format!("panic:{}", norm_panic(&o.msg)), detail: format!("{} panicked: {}", ex::entry_name(o.entry), o.msg) });
        }
        if let Some(b) = o.bad.first() {
            let class = b.split('|').next().unwrap_or("malformed");
            push(Finding {
                group,
                entry: o.entry,
                stage: "loaded_model".into(),
                class: format!("malformed_constant:{}", class),
                detail: format!("{} returned a model with a malformed constant: {}", ex::entry_name(o.entry), o.bad.join("; ")),
            });
        }
        if let Some(b) = o.const_out_bad.first() {
            push(Finding { group, entry: o.entry, stage: "loaded_model".into(), class: "malformed_constant:returned_constant_mismatch".into(), detail: format!("{}: {}", ex::entry_name(o.entry), b) });
        }
    }
    if let Some(c) = &oc.crash {
        let group = ex::entry_group(c.entry);
        let first_line = c.stderr.lines().find(|l| l.contains("ERROR") || l.contains("C05-ALLOC-REFUSED") || l.contains("memory allocation") || l.contains("overflowed") || l.contains("panicked")).unwrap_or("").to_string();
        let detail = format!(
            "child ended with {} while {} was in stage {}; largest allocation request {} bytes; input {} bytes; stderr: {}",
            c.class,
            ex::entry_name(c.entry),
            ex::stage_name(c.stage),
            c.max_alloc,
            bytes.len(),
            first_line
        );
        let counts = match c.stage {
            ex::ST_LOAD => match c.class.as_str() {
                a if a.starts_with("abort:alloc") => c.max_alloc > justified_alloc(bytes.len()),
                // SIGKILL comes from outside (OOM killer, operator); timeouts
                // are confirmed separately.
                "signal:9" | "timeout" => false,
                _ => true,
            },
            // Reading a constant's elements through its own view, or dropping
            // the model: only memory errors count.
            ex::ST_WALK | ex::ST_READ | ex::ST_DROP => c.class.starts_with("sanitizer:") || c.class == "signal:11" || c.class == "signal:7",
            // Running the model: only as the consequence of a malformed constant.
            ex::ST_CONST_OUT | ex::ST_RUN => c.malformed_seen > 0 && (c.class.starts_with("sanitizer:") || c.class == "signal:11" || c.class == "signal:7"),
            _ => false,
        };
        if counts {
            let stage = match c.stage {
                ex::ST_LOAD => match c.stderr.lines().rev().find(|l| l.starts_with("C05-ALLOC-REFUSED")).and_then(|l| l.split("rten frames: ").nth(1)) {
                    Some(fr) if c.class.starts_with("abort:alloc") => phase_of(fr),
                    _ => "load",
                },
                ex::ST_WALK | ex::ST_READ => "read_constants",
                ex::ST_DROP => "drop_model",
                _ => "run_with_malformed_constant",
            };
            if c.class.starts_with("abort:alloc") && stage == "operator_evaluation" {
                // An operator evaluated by constant propagation asked for more memory than
                // the harness allocator grants. How much memory a model's operators use is
                // explicitly not bounded (docs/security.md, "Non-guarantees: resource
                // usage"), and the refusal is the harness's own simulation of exhaustion:
                // counted, not judged. The loader's own allocations are still judged.
                CONSTPROP_ALLOC_ABORTS.fetch_add(1, std::sync::atomic::Ordering::Relaxed);
            } else {
                push(Finding { group, entry: c.entry, stage: stage.to_string(), class: c.class.clone(), detail });
            }
        }
    }
    fs
}

pub static CONSTPROP_ALLOC_ABORTS: std::sync::atomic::AtomicU64 = std::sync::atomic::AtomicU64::new(0);

// ---------------------------------------------------------------- execution context

pub struct Ctx {
    pub region: Region,
    pub env: Env,
    pub alarm_s: u32,
    pub asan: bool,
    pub children: Cell<u64>,
    pub child_deaths: Cell<u64>,
    pub child_deaths_after_last_case: Cell<u64>,
}

impl Ctx {
    pub fn new() -> Ctx {
        let asan = std::env::var("VERIF_FLAVOUR").map(|f| f == "asan").unwrap_or(false);
        Ctx { region: Region::new(), env: Env::new(), alarm_s: if asan { 40 } else { 15 }, asan, children: Cell::new(0), child_deaths: Cell::new(0), child_deaths_after_last_case: Cell::new(0) }
    }

    /// Run `cases` in as few children as possible. Returns one outcome per case.
    pub fn run_batch(&self, cases: &[Case], alarm_s: u32, demonstrate: bool, resolve_frames: bool) -> Vec<Outcome> {
        let mut outcomes: Vec<Outcome> = Vec::with_capacity(cases.len());
        let mut start = 0usize;
        while start < cases.len() {
            let slice = &cases[start..];
            allocmon::set_shared(self.region.max_alloc_ptr());
            let region = &self.region;
            let env = &self.env;
            let batch = self.region.run(|| {
                ex::install_child_panic_hook();
                ex::install_child_alloc_hook();
                for (i, c) in slice.iter().enumerate() {
                    region.begin_case(i as u32, alarm_s);
                    let xo = ExecOpts { alarm_s, run_alarm_s: (alarm_s / 4).max(3), resolve_frames, const_outputs: if c.run_model { 8 } else { 2 }, run_model: c.run_model, demonstrate };
                    let outs = ex::exec_case(&c.bytes, c.mask, c.fmt == Fmt::Rten, env, Some(region), &xo);
                    region.push_record(&Json::Array(outs.iter().map(|o| o.to_json()).collect()).to_string());
                }
                if std::env::var_os("LF_DEBUG").is_some() {
                    use std::sync::atomic::Ordering::Relaxed;
                    eprintln!("child times us: put {} load {} examine {} drop {}", ex::T_PUT.load(Relaxed), ex::T_LOAD.load(Relaxed), ex::T_EXAMINE.load(Relaxed), ex::T_DROP.load(Relaxed));
                }
            });
            if std::env::var_os("LF_DEBUG").is_some() {
                eprintln!("child ended {:?}; {} records; stderr tail: {}", batch.end, batch.records.len(), batch.stderr.lines().rev().take(3).collect::<Vec<_>>().join(" | "));
            }
            allocmon::set_shared(std::ptr::null_mut());
            self.children.set(self.children.get() + 1);
            let n_done = batch.records.len();
            for r in &batch.records {
                let j: Json = serde_json::from_str(r).unwrap_or(Json::Null);
                let outs = j.as_array().map(|a| a.iter().map(EntryOut::from_json).collect()).unwrap_or_default();
                outcomes.push(Outcome { outs, crash: None });
            }
            if batch.end == ChildEnd::Completed && n_done == slice.len() {
                break;
            }
            if n_done >= slice.len() {
                // Died after the last record (during exit): nothing in flight.
                self.child_deaths_after_last_case.set(self.child_deaths_after_last_case.get() + 1);
                break;
            }
            // The case in flight is the one after the completed ones.
            let mut class = c05run::crash_class(&batch.end, &batch.stderr);
            if class == "abort:alloc" {
                // Who asked? (written by the child's allocation hook)
                if let Some(l) = batch.stderr.lines().rev().find(|l| l.starts_with("C05-ALLOC-REFUSED")) {
                    if let Some(fr) = l.split("rten frames: ").nth(1) {
                        // Skip the generic allocation layers.
                        let first = fr.split(" <- ").map(|f| f.trim()).find(|f| !f.starts_with("rten-tensor/") && !f.starts_with("rten-base/") && *f != "src/buffer_pool.rs").unwrap_or("");
                        if !first.is_empty() {
                            class = format!("abort:alloc <- {}", first);
                        }
                    }
                }
            }
            self.child_deaths.set(self.child_deaths.get() + 1);
            outcomes.push(Outcome {
                outs: Vec::new(),
                crash: Some(Crash { class, stage: batch.stage, entry: batch.aux, max_alloc: batch.max_alloc, stderr: tail(&batch.stderr, 6000), malformed_seen: batch.aux2 }),
            });
            start += n_done + 1;
        }
        outcomes
    }

    /// Delta-debug `case` inside ONE child for findings that do not kill the
    /// process (panics, malformed constants): forking per attempt costs tens
    /// of milliseconds on a loaded machine. Every improvement is published to
    /// the shared region, so a death half-way still leaves the best so far.
    pub fn shrink_in_child(&self, case: &Case, key: &str, max_exec: usize, box_s: f64) -> (Vec<u8>, usize) {
        allocmon::set_shared(self.region.max_alloc_ptr());
        let region = &self.region;
        let env = &self.env;
        let alarm_s = self.alarm_s;
        let batch = self.region.run(|| {
            ex::install_child_panic_hook();
                ex::install_child_alloc_hook();
            let t0 = std::time::Instant::now();
            let mut execs = 0u32;
            let xo = ExecOpts { alarm_s, run_alarm_s: 3, resolve_frames: false, const_outputs: 2, run_model: false, demonstrate: false };
            let (best, _) = shrink::ddmin(&case.bytes, max_exec, |cand| {
                execs += 1;
                if t0.elapsed().as_secs_f64() > box_s {
                    return false;
                }
                region.begin_case(execs, alarm_s);
                let outs = ex::exec_case(cand, FULL_MASK, case.fmt == Fmt::Rten, env, Some(region), &xo);
                let oc = Outcome { outs, crash: None };
                let hit = judge(cand, &oc).iter().any(|g| g.key() == key);
                if hit {
                    region.push_record(&format!("{}:{}", execs, to_hex(cand)));
                }
                hit
            });
            region.push_record(&format!("{}:{}", execs, to_hex(&best)));
        });
        allocmon::set_shared(std::ptr::null_mut());
        self.children.set(self.children.get() + 1);
        match batch.records.last().and_then(|r| r.split_once(':')) {
            Some((n, hex)) => (from_hex(hex), n.parse().unwrap_or(0)),
            None => (case.bytes.clone(), 0),
        }
    }

    pub fn run_one(&self, case: &Case, alarm_s: u32, demonstrate: bool, resolve_frames: bool) -> Outcome {
        self.run_batch(std::slice::from_ref(case), alarm_s, demonstrate, resolve_frames).pop().unwrap_or_default()
    }
}

fn tail(s: &str, n: usize) -> String {
    if s.len() <= n {
        return s.to_string();
    }
    // Keep the head (the report's first lines carry the kind and the frames).
    let mut cut = n;
    while !s.is_char_boundary(cut) {
        cut -= 1;
    }
    s[..cut].to_string()
}

// ---------------------------------------------------------------- seeds

pub struct OnnxSeed {
    pub name: String,
    pub bytes: Vec<u8>,
    pub must_load: bool,
}

pub struct RtenSeed {
    pub name: String,
    pub spec: Option<rt::RSpec>,
    pub bytes: Vec<u8>,
}

/// A model whose initialisers exercise every storage path of `load_constant`
/// including f16 / bool / double conversions and external data, and a
/// Constant node of each attribute kind.
fn seed_storage_paths() -> Vec<u8> {
    use onnxpb::*;
    let mut inits = Vec::new();
    inits.push(tensor_f32("w", &[2, 3], &[1.0, 2.0, 3.0, 4.0, 5.0, 6.0]));
    inits.push(tensor_raw("h", 10, &[4], &[0x00, 0x3c, 0x00, 0x40, 0x00, 0x42, 0x00, 0x44])); // f16 1,2,3,4
    inits.push(tensor_raw("d", DOUBLE, &[2], &[1.5f64.to_le_bytes(), (-2.5f64).to_le_bytes()].concat()));
    inits.push(tensor_raw("bo", BOOL, &[3], &[1, 0, 2]));
    inits.push(tensor_i64("l", &[2, 1], &[i64::MIN, i64::MAX]));
    inits.push(tensor_raw("u", UINT8, &[2, 2], &[1, 2, 3, 4]));
    inits.push(tensor_raw("s8", INT8, &[4], &[0xff, 0x80, 0x7f, 0]));
    let mut t = Pb::new();
    t.int(1, 3).int(2, 10).packed_ints(5, &[0x3c00, 0x4000, 0x4200]).str(8, "h_typed");
    inits.push(t);
    let mut t = Pb::new();
    t.int(1, 8).int(2, FLOAT).str(8, "ext");
    for (k, v) in [("location", "weights.data"), ("offset", "64"), ("length", "32")] {
        let mut e = Pb::new();
        e.str(1, k).str(2, v);
        t.msg(13, &e);
    }
    t.int(14, 1);
    inits.push(t);
    let nodes = [
        node("Constant", "c_t", &[], &["ct"], &[("value", Attr::Tensor(tensor_f32("", &[3], &[0.5, 1.5, 2.5])))]),
        node("Constant", "c_i", &[], &["ci"], &[("value_int", Attr::Int(7))]),
        node("Constant", "c_is", &[], &["cis"], &[("value_ints", Attr::Ints(vec![1, -1, i64::MAX]))]),
        node("Constant", "c_f", &[], &["cf"], &[("value_float", Attr::Float(0.25))]),
        node("Constant", "c_fs", &[], &["cfs"], &[("value_floats", Attr::Floats(vec![1.0, 2.0]))]),
        node("MatMul", "mm", &["x", "w"], &["t0"], &[]),
        node("Add", "add", &["t0", "ct"], &["t1"], &[]),
        node("Mul", "mul", &["t1", "cf"], &["y"], &[]),
        node("ConstantOfShape", "cos", &["cis_shape"], &["z"], &[("value", Attr::Tensor(tensor_f32("", &[1], &[3.0])))]),
    ];
    let mut inits2 = inits;
    inits2.push(tensor_i64("cis_shape", &[2], &[2, 2]));
    let g = graph(
        "storage",
        &nodes,
        &inits2,
        &[value_info("x", FLOAT, Some(&[Dim::Sym("n".into()), Dim::Fixed(2)]))],
        &[value_info("y", FLOAT, None), value_info("z", FLOAT, None)],
    );
    model(&g, 21)
}

fn read_pack_models(dir: &str, family: &str, shard: usize, shards: usize, cap: usize) -> Result<Vec<(String, Vec<u8>)>, String> {
    let path = format!("{}/{}.jsonl", dir, family);
    let f = std::fs::File::open(&path).map_err(|e| format!("{}: {}", path, e))?;
    let mut out = Vec::new();
    for (i, line) in std::io::BufReader::new(f).lines().enumerate() {
        if i % shards != shard {
            continue;
        }
        let Ok(line) = line else { break };
        if line.trim().is_empty() {
            continue;
        }
        // Only the "id" and "model" fields are needed; avoid building the
        // whole JSON tree (expected outputs are large).
        let Some(model) = json_str_field(&line, "model") else { continue };
        let id = json_str_field(&line, "id").unwrap_or_else(|| format!("{}-{}", family, i));
        out.push((id, from_hex(&model)));
        if out.len() >= cap {
            break;
        }
    }
    Ok(out)
}

fn json_str_field(line: &str, key: &str) -> Option<String> {
    let pat = format!("\"{}\": \"", key);
    let pat2 = format!("\"{}\":\"", key);
    let at = line.find(&pat).map(|a| a + pat.len()).or_else(|| line.find(&pat2).map(|a| a + pat2.len()))?;
    let end = line[at..].find('"')?;
    Some(line[at..at + end].to_string())
}

// ---------------------------------------------------------------- generation

struct Pools {
    onnx: Vec<OnnxSeed>,
    rten: Vec<RtenSeed>,
}

fn noise_on(rng: &mut Rng, bytes: Vec<u8>, donors: &[Vec<u8>], class: &mut String) -> Vec<u8> {
    let (b, n) = pbmut::noise(rng, &bytes, donors);
    class.push('+');
    class.push_str(n);
    b
}

fn gen_onnx(rng: &mut Rng, pools: &Pools, small_only: bool) -> Option<(Vec<u8>, String, String, bool)> {
    let seed = loop {
        let s = rng.choose(&pools.onnx);
        if s.bytes.is_empty() || (small_only && s.bytes.len() > 20_000 && !rng.chance(1, 12)) {
            continue;
        }
        break s;
    };
    let model = &seed.bytes;
    let pick = rng.below(100);
    let mut structured = true;
    let (mut bytes, mut class): (Vec<u8>, String) = if pick < 45 {
        let items = ox::enumerate(model);
        let tensors: Vec<&ox::Path> = items.iter().filter(|(_, k)| *k == ox::Kind::Tensor).map(|(p, _)| p).collect();
        if tensors.is_empty() {
            return None;
        }
        let n_mut = if rng.chance(1, 6) { 2 } else { 1 };
        let mut cur = model.clone();
        let mut classes = Vec::new();
        for _ in 0..n_mut {
            let path = (*rng.choose(&tensors)).clone();
            let mut name = String::new();
            cur = ox::edit(&cur, &path, &mut |fs| name = ox::mutate_tensor(rng, fs))?;
            classes.push(name);
        }
        (cur, format!("tensor:{}", classes.join("&")))
    } else if pick < 60 {
        let items = ox::enumerate(model);
        let graphs: Vec<&ox::Path> = items.iter().filter(|(_, k)| *k == ox::Kind::Graph).map(|(p, _)| p).collect();
        if graphs.is_empty() {
            return None;
        }
        let path = (*rng.choose(&graphs)).clone();
        let mut name = String::new();
        let b = ox::edit(model, &path, &mut |fs| name = ox::mutate_graph(rng, fs))?;
        (b, format!("graph:{}", name))
    } else if pick < 78 {
        let w = shadow::walk(model, Msg::Model);
        if w.sites.is_empty() {
            return None;
        }
        let class = *rng.choose(&["len_wrap", "len_2p63", "len_2p31", "len_gt_remaining", "len_short", "len_nested_overrun"]);
        let site = rng.below(w.sites.len());
        let m = pbmut::mutate_len_site(rng, class, model, &w, site, false)?;
        (m.bytes, format!("pb:{}", m.class))
    } else if pick < 86 {
        let w = shadow::walk(model, Msg::Model);
        let m = match rng.below(4) {
            0 => pbmut::mutate_wire_type(rng, model, &w),
            1 => pbmut::mutate_varint_trunc(rng, model, &w),
            2 => pbmut::mutate_varint_overlong(rng, model, &w, false),
            _ => pbmut::mutate_varint_overlong(rng, model, &w, true),
        }?;
        (m.bytes, format!("pb:{}", m.class))
    } else if pick < 89 {
        let depth = *rng.choose(&[1usize, 2, 8, 30, 60, 63, 64, 65, 100, 200]);
        (ox::nest_graph(model, depth)?, format!("nest:if_depth_{}", depth))
    } else {
        structured = false;
        (model.clone(), "noise".to_string())
    };
    if !structured || rng.chance(1, 5) {
        let donors = [model.clone()];
        bytes = noise_on(rng, bytes, &donors, &mut class);
    }
    Some((bytes, class, seed.name.clone(), structured))
}

fn gen_rten(rng: &mut Rng, pools: &Pools) -> Option<(Vec<u8>, String, String, bool)> {
    let seed = rng.choose(&pools.rten);
    let pick = rng.below(100);
    let mut structured = true;
    let mut class;
    let mut bytes;
    if pick < 45 && seed.spec.is_some() {
        let mut spec = seed.spec.clone().unwrap();
        let tdo = if seed.bytes.len() >= 32 && &seed.bytes[..4] == b"RTEN" { u64::from_le_bytes(seed.bytes[24..32].try_into().unwrap()) } else { 0 };
        let n_mut = if rng.chance(1, 5) { 2 } else { 1 };
        let mut names = Vec::new();
        for _ in 0..n_mut {
            names.push(rt::mutate_spec(rng, &mut spec, seed.bytes.len() as u64, tdo));
        }
        bytes = rt::build(&spec);
        class = format!("spec:{}", names.join("&"));
        if rng.chance(1, 8) {
            if let Some(h) = rt::mutate_header(rng, &mut bytes) {
                class = format!("{}&{}", class, h);
            }
        }
    } else if pick < 60 {
        bytes = seed.bytes.clone();
        if bytes.len() >= 4 && &bytes[..4] != b"RTEN" && rng.chance(1, 2) {
            // Wrap a V1 file into a V2 container first.
            let h = rten_model_file::header::Header { version: 2, model_offset: 32, model_len: bytes.len() as u64, tensor_data_offset: 32 + bytes.len() as u64 };
            let mut b = h.to_buf();
            b.extend_from_slice(&bytes);
            b.extend_from_slice(&[0u8; 16]);
            bytes = b;
        }
        class = rt::mutate_header(rng, &mut bytes)?;
    } else if pick < 88 {
        bytes = seed.bytes.clone();
        let sites = rt::fb_sites(&bytes);
        if sites.is_empty() {
            return None;
        }
        let n_mut = if rng.chance(1, 5) { 2 } else { 1 };
        let mut names = Vec::new();
        for _ in 0..n_mut {
            let s = *rng.choose(&sites);
            names.push(rt::patch_site(rng, &mut bytes, &s));
        }
        class = format!("fb:{}", names.join("&"));
    } else {
        structured = false;
        bytes = seed.bytes.clone();
        class = "noise".to_string();
    }
    if !structured || rng.chance(1, 6) {
        let donors = [seed.bytes.clone()];
        bytes = noise_on(rng, bytes, &donors, &mut class);
    }
    Some((bytes, class, seed.name.clone(), structured))
}

fn pick_mask(rng: &mut Rng, fmt: Fmt) -> u32 {
    let mut m = ex::entry_bit(ex::E_BUF_OPT);
    if rng.chance(1, 2) {
        m |= ex::entry_bit(ex::E_BUF_NOOPT);
    }
    if rng.chance(1, 3) {
        m |= ex::entry_bit(ex::E_FILE_OPT);
    }
    if rng.chance(1, 8) {
        m |= ex::entry_bit(ex::E_FILE_NOOPT);
    }
    if rng.chance(1, if fmt == Fmt::Rten { 5 } else { 16 }) {
        m |= ex::entry_bit(ex::E_MMAP);
    }
    if rng.chance(1, 8) {
        m |= ex::entry_bit(ex::E_BUF_PREPACK);
    }
    m
}

// ---------------------------------------------------------------- runner

pub struct Runner<'a> {
    pub rep: &'a mut Report,
    pub ctx: &'a Ctx,
    seen: HashSet<(Fmt, String)>,
    pub shrink_exec: usize,
    pub shrink_box_s: f64,
    pub unattributed: Vec<Json>,
    pub replaying: bool,
}

/// Mutation class for the evidence counters (numeric variants collapsed).
fn coarse_class(part: &str) -> String {
    if let Some(rest) = part.strip_prefix("tensor:") {
        if rest.starts_with("dtype_") && rest.contains("_to_") {
            return "tensor:dtype_swapped".into();
        }
        if rest.starts_with("external_") {
            return format!("tensor:{}", rest);
        }
    }
    if part.starts_with("nest:") {
        return "nest:if_graphs".into();
    }
    if part.starts_with("spec:inline_union_tag_") {
        return "spec:inline_union_tag".into();
    }
    if part.starts_with("spec:dtype_field_") {
        return "spec:dtype_field".into();
    }
    part.to_string()
}

fn past_framing(o: &EntryOut) -> bool {
    match o.status.as_str() {
        "ok" => true,
        "err" => matches!(o.kind.as_str(), "GraphError" | "OperatorInvalid" | "OptimizeError" | "ExternalDataError" | "ShapeInferenceFailed"),
        "panic" => true,
        _ => false,
    }
}

impl<'a> Runner<'a> {
    pub fn new(rep: &'a mut Report, ctx: &'a Ctx) -> Self {
        Runner { rep, ctx, seen: HashSet::new(), shrink_exec: 150, shrink_box_s: 2.0, unattributed: Vec::new(), replaying: false }
    }

    fn evidence(&mut self, case: &Case, oc: &Outcome) {
        let rep = &mut *self.rep;
        rep.eval();
        for part in case.class.split(['&', '+']) {
            rep.count(&format!("mut.{}", coarse_class(part)));
        }
        rep.count(&format!("mutfamily.{}.{}", case.origin.name(), case.class.split([':', '&', '+', '_']).next().unwrap_or("")));
        if case.class.contains("+noise") {
            rep.count("mut.byte_noise_on_top");
        }
        rep.count(&format!("inputs.{}", case.fmt.name()));
        let len = case.bytes.len().max(1) as u64;
        let mut nontrivial = false;
        for o in &oc.outs {
            let en = ex::entry_name(o.entry);
            rep.count(&format!("loads.{}.{}", en, o.status));
            rep.count(&format!("loads.{}.{}", case.fmt.name(), o.status));
            if o.status == "err" {
                rep.count(&format!("load_error.{}.{}", case.fmt.name(), o.kind));
            }
            if o.status == "panic" {
                rep.count("load_panics");
            }
            if past_framing(o) {
                nontrivial = true;
            }
            rep.max("max_single_alloc_request_bytes_during_load", o.max_alloc);
            rep.max("max_alloc_request_per_1000_input_bytes", o.max_alloc.saturating_mul(1000) / len);
            rep.max("max_load_micros", o.micros);
            rep.add("load_micros_total", o.micros);
            if o.micros > 100_000 {
                rep.count("loads_slower_than_100ms");
                rep.add("load_micros_in_loads_slower_than_100ms", o.micros);
                if o.max_alloc > (64 << 20) {
                    rep.count("loads_slower_than_100ms_with_alloc_over_64MiB");
                }
            }
            if o.status == "ok" {
                rep.count(&format!("models_examined.{}", case.fmt.name()));
                rep.add("constants_walked", o.n_consts);
                rep.add("constants_walked_in_subgraphs", o.n_sub_consts);
                rep.add("constant_elements_read", o.elems_read);
                rep.add("operators_in_loaded_models", o.n_ops);
                rep.add("malformed_constants", o.bad.len() as u64 + o.const_out_bad.len() as u64);
                rep.add("constants_returned_by_run.ok", o.const_out_ok);
                rep.add("constants_returned_by_run.err", o.const_out_err);
                rep.add("constants_returned_by_run.panic(not judged)", o.const_out_panic);
                if !o.run.is_empty() {
                    let r = o.run.split(':').next().unwrap_or("");
                    rep.count(&format!("model_run.{}{}", r, if r == "panic" || r == "err" { "(not judged)" } else { "" }));
                    if let Some(why) = o.run.strip_prefix("skipped:") {
                        rep.count(&format!("model_run_skipped.{}", why));
                    }
                }
            }
        }
        if let Some(c) = &oc.crash {
            rep.count(&format!("child_death.{}.{}", ex::stage_name(c.stage), c.class));
            if c.stage == ex::ST_LOAD {
                nontrivial = true;
                rep.max("max_single_alloc_request_bytes_during_load", c.max_alloc);
            }
        }
        if nontrivial {
            rep.nontrivial(&case.bytes);
            rep.count(&format!("past_framing.{}", case.fmt.name()));
        }
        if rep.wants_sample() && case.structured && !oc.outs.is_empty() && case.bytes.len() < 600 && nontrivial {
            rep.sample(|| {
                json!({"fmt": case.fmt.name(), "class": case.class, "seed": case.seed_name, "hex": to_hex(&case.bytes),
                       "outcomes": oc.outs.iter().map(|o| format!("{}:{}{}", ex::entry_name(o.entry), o.status, if o.status == "err" { format!("({})", o.kind) } else if o.status == "ok" { format!("(consts={},elems={},run={})", o.n_consts, o.elems_read, o.run) } else { String::new() })).collect::<Vec<_>>()})
            });
        }
    }

    /// Judge the outcome of a case that already ran; shrink and report.
    pub fn absorb(&mut self, case: &Case, oc: Outcome) {
        let mut oc = oc;
        // A crash is always confirmed by running the case alone.
        let unjudged_run_death = oc.crash.as_ref().map(|c| matches!(c.stage, ex::ST_RUN | ex::ST_CONST_OUT) && c.malformed_seen == 0).unwrap_or(false);
        if let (Some(c), false) = (&oc.crash, unjudged_run_death) {
            let confirm_alarm = if c.class == "timeout" { self.ctx.alarm_s * 4 } else { self.ctx.alarm_s };
            let tc = std::time::Instant::now();
            let again = self.ctx.run_one(case, confirm_alarm, false, false);
            self.rep.add("time_us.confirming_child_deaths", tc.elapsed().as_micros() as u64);
            match (&again.crash, c) {
                (Some(c2), c1) if c2.class == c1.class && c2.stage == c1.stage => {
                    self.rep.count("child_death_confirmed_alone");
                    if c1.class == "timeout" && c1.stage == ex::ST_LOAD {
                        if c2.max_alloc.max(c1.max_alloc) > justified_alloc(case.bytes.len()) {
                            // The model made the loader work on gigabytes
                            // (constant propagation): slow, but no evidence
                            // of non-termination. Resource use is not bounded
                            // by the property.
                            self.rep.count("slow_load_with_large_allocation(not judged)");
                        } else {
                            // Confirmed: no return within 4x the alarm, alone.
                            let mut cc = c2.clone();
                            cc.class = "no_return_within_bound".into();
                            oc.crash = Some(cc);
                        }
                    }
                }
                _ => {
                    self.rep.count("child_death_not_reproduced_alone");
                    let keep = again;
                    oc = keep;
                }
            }
        }
        self.evidence(case, &oc);
        if let Some(c) = &oc.crash {
            if matches!(c.stage, ex::ST_RUN | ex::ST_CONST_OUT) && c.malformed_seen == 0 && (c.class.starts_with("sanitizer:") || c.class.starts_with("signal:1") || c.class == "signal:7") && self.unattributed.len() < 8 {
                // Not a C05 question (all constants were well-formed); keep it
                // visible for whoever owns operator memory safety.
                self.unattributed.push(json!({"fmt": case.fmt.name(), "class": c.class, "stage": ex::stage_name(c.stage), "entry": ex::entry_name(c.entry), "generated_as": case.class,
                    "hex": if case.bytes.len() <= 8192 { Json::String(to_hex(&case.bytes)) } else { Json::Null }, "stderr": tail(&c.stderr, 1500)}));
            }
        }
        let findings = judge(&case.bytes, &oc);
        for f in findings {
            self.rep.count(&format!("finding_hits.{}|{}", case.origin.name(), f.key()));
            if !self.seen.insert((case.origin, f.key())) {
                continue;
            }
            self.report(case, &f);
        }
    }

    fn reproduces(&self, case: &Case, bytes: &[u8], f: &Finding, resolve_frames: bool) -> Option<Finding> {
        let c = Case { bytes: bytes.to_vec(), mask: FULL_MASK, run_model: false, ..case.clone() };
        let mut oc = self.ctx.run_one(&c, self.ctx.alarm_s, false, resolve_frames);
        if let Some(cr) = oc.crash.as_mut() {
            if cr.class == "timeout" && cr.stage == ex::ST_LOAD && f.class == "no_return_within_bound" {
                cr.class = "no_return_within_bound".into();
            }
        }
        judge(bytes, &oc).into_iter().find(|g| g.key() == f.key())
    }

    fn report(&mut self, case: &Case, f: &Finding) {
        let t0 = std::time::Instant::now();
        let mut execs = 0usize;
        let (shrunk, fin) = if self.replaying || f.class == "no_return_within_bound" {
            (case.bytes.clone(), self.reproduces(case, &case.bytes, f, true).unwrap_or_else(|| f.clone()))
        } else {
            let max_exec = if case.bytes.len() > 100_000 { 30 } else { self.shrink_exec };
            let box_s = self.shrink_box_s;
            let kills_process = !(f.class.starts_with("panic:") || f.class.starts_with("malformed_constant:"));
            let res = if kills_process {
                // One child per attempt: keep it short.
                shrink::ddmin(&case.bytes, max_exec.min(24), |cand| {
                    execs += 1;
                    t0.elapsed().as_secs_f64() < box_s && self.reproduces(case, cand, f, false).is_some()
                })
            } else {
                let (b, n) = self.ctx.shrink_in_child(case, &f.key(), max_exec, box_s);
                execs = n;
                (b, n)
            };
            match self.reproduces(case, &res.0, f, true) {
                Some(fin) => (res.0, fin),
                // Never report a shrunk input that does not reproduce.
                None => (case.bytes.clone(), self.reproduces(case, &case.bytes, f, true).unwrap_or_else(|| f.clone())),
            }
        };
        self.rep.add("time_us.shrinking_and_resolving", t0.elapsed().as_micros() as u64);
        self.rep.add("shrink_executions", execs as u64);
        // What happens when the malformed constant is actually used.
        let mut consequence = Json::Null;
        if fin.class.starts_with("malformed_constant:") {
            let c = Case { bytes: shrunk.clone(), mask: ex::entry_bit(fin.entry), run_model: true, ..case.clone() };
            let oc = self.ctx.run_one(&c, self.ctx.alarm_s, true, false);
            consequence = match &oc.crash {
                Some(cr) => json!({"reading_all_elements_and_running_the_model": format!("child ended with {} in stage {}", cr.class, ex::stage_name(cr.stage)), "stderr": tail(&cr.stderr, 2500)}),
                None => json!({"reading_all_elements_and_running_the_model": "completed", "run": oc.outs.first().map(|o| o.run.clone())}),
            };
        }
        let hex = if shrunk.len() <= 262_144 { Some(to_hex(&shrunk)) } else { None };
        let witness = json!({
            "fmt": case.origin.name(),
            "presented_as": case.fmt.name(),
            "entry": ex::entry_name(fin.entry),
            "entry_group": fin.group,
            "stage": fin.stage,
            "class": fin.class,
            "hex": hex,
            "len": shrunk.len(),
            "original_len": case.bytes.len(),
            "generated_as": case.class,
            "seed_model": case.seed_name,
            "observed": fin.detail,
            "consequence": consequence,
        });
        let head = hex.as_deref().map(|h| h[..h.len().min(64)].to_string()).unwrap_or_default();
        self.rep.violation(fin.signature(case.origin), format!("{} [{} bytes {}: {}...]", fin.detail, shrunk.len(), case.fmt.name(), head), witness);
    }
}

// ---------------------------------------------------------------- the run

pub const RULE: &str = "Inputs are presented to the real loader as ONNX or .rten files through ModelOptions::load (buffer; optimiser on/off; with weight pre-packing), load_file and load_mmap. ONNX seeds: models built by the harness (every TensorProto storage path incl. f16/f64/bool/int64 conversion and external data, Constant nodes, If/Loop sub-graphs), mnist.onnx and the Python generator's single-operator / DAG / control-flow packs. .rten seeds: files written with the rten_model_file::schema FlatBuffers builders (V1 without header and V2 with header; inline and offset-addressed constants of all four element types; mis-aligned tensor data; If sub-graphs with their own constants). Mutators re-encode the model with chosen fields replaced: TensorProto dims ([2^32,2^32], [2^63,2], [2^61,8], negative, zero mixed with huge, products that wrap to the true element count), raw_data shorter/longer, data_type swapped, typed plus raw data, external-data offset/length extremes, missing/duplicate/dangling names, nested If graphs, hostile varint lengths on every length-delimited field, wire types, truncated/over-long varints; .rten constant shapes that do not match the data or wrap 2^64, data_offset extremes, union tags and dtypes that lie, dangling node indices, header offsets/lengths around the file size and 2^64, and in-place patches of offsets / vector lengths / vtable entries located by walking the FlatBuffer with the schema; byte flips / truncations / splices on top. A case is non-trivial when it got past the framing: some entry point returned a model, failed with an error raised during graph construction (GraphError, OperatorInvalid, OptimizeError, ExternalDataError), or panicked / died inside the load call.";

fn witness_case(w: &Json) -> Option<Case> {
    let bytes = from_hex(w["hex"].as_str()?);
    Some(Case {
        bytes,
        fmt: Fmt::from_name(w["presented_as"].as_str().or(w["fmt"].as_str()).unwrap_or("onnx")),
        origin: Fmt::from_name(w["fmt"].as_str().unwrap_or("onnx")),
        class: w["generated_as"].as_str().unwrap_or("replay").to_string(),
        seed_name: w["seed_model"].as_str().unwrap_or("replay").to_string(),
        structured: true,
        mask: FULL_MASK,
        run_model: true,
    })
}

fn read_witness_file(path: &str) -> Option<Case> {
    let text = std::fs::read_to_string(path).ok()?;
    let j: Json = serde_json::from_str(&text).ok()?;
    let mut w = if j.get("witness").is_some() { j["witness"].clone() } else { j };
    if w.get("witness").is_some() {
        w = w["witness"].clone();
    }
    witness_case(&w)
}

pub fn run(args: &Args) {
    unsafe { std::env::set_var("RUST_BACKTRACE", "0") };
    // rten's global pool (used by constant propagation during a load) would
    // otherwise start one spinning worker per core in every child of every shard.
    unsafe { std::env::set_var("RTEN_NUM_THREADS", "1") };
    let mut rep = Report::new("C05", "loadfuzz", args, RULE);
    rep.max_violations = 64;
    rep.max_per_group = 24;
    let ctx = Ctx::new();

    if let Some(path) = &args.replay {
        let case = read_witness_file(path).expect("replay file has no usable witness (fmt + hex)");
        let mut r = Runner::new(&mut rep, &ctx);
        r.replaying = true;
        let oc = r.ctx.run_one(&case, ctx.alarm_s, false, true);
        r.absorb(&case, oc);
        ctx.env.cleanup();
        rep.finish();
        return;
    }

    let shard = args.shard;
    let shards = args.shards.max(1);

    // ---- seeds
    let mut pools = Pools { onnx: Vec::new(), rten: Vec::new() };
    for s in seeds::build(true) {
        let must = matches!(s.name, "mlp" | "big_raw" | "mnist");
        pools.onnx.push(OnnxSeed { name: s.name.to_string(), bytes: s.bytes, must_load: must });
    }
    pools.onnx.push(OnnxSeed { name: "storage_paths".into(), bytes: seed_storage_paths(), must_load: true });
    let pack_dir = args.get("packs").map(|s| s.to_string()).or_else(|| std::env::var("VERIF_PACK_DIR").ok());
    let mut pack_problem = None;
    if let Some(dir) = &pack_dir {
        let cap = if args.thorough { 4000 } else if ctx.asan { 120 } else { 400 };
        for fam in ["singleop", "dag", "cflow"] {
            match read_pack_models(dir, fam, shard, shards, cap) {
                Ok(ms) => {
                    rep.add(&format!("pack_models.{}", fam), ms.len() as u64);
                    for (id, bytes) in ms {
                        pools.onnx.push(OnnxSeed { name: id, bytes, must_load: false });
                    }
                }
                Err(e) => pack_problem = Some(e),
            }
        }
    } else {
        rep.count("no_pack_dir_given(built-in_seeds_only)");
    }
    for spec in rt::seed_specs() {
        let bytes = rt::build(&spec);
        pools.rten.push(RtenSeed { name: spec.name.to_string(), bytes, spec: Some(spec) });
    }
    for p in ["/repo/model-load-file-test.rten", "/repo/model-load-mmap-test.rten"] {
        if let Ok(b) = std::fs::read(p) {
            pools.rten.push(RtenSeed { name: p.rsplit('/').next().unwrap().to_string(), bytes: b, spec: None });
        }
    }
    rep.note(
        "seeds",
        json!({"onnx_builtin": pools.onnx.iter().filter(|s| !s.name.contains('-')).map(|s| json!({"name": s.name, "bytes": s.bytes.len()})).collect::<Vec<_>>(),
               "onnx_total": pools.onnx.len(),
               "rten": pools.rten.iter().map(|s| json!({"name": s.name, "bytes": s.bytes.len(), "patch_sites": rt::fb_sites(&s.bytes).len()})).collect::<Vec<_>>()}),
    );

    let mut runner = Runner::new(&mut rep, &ctx);
    if args.thorough {
        runner.shrink_exec = 400;
        runner.shrink_box_s = 20.0;
    }
    let batch_size: usize = 256;
    let budget = args.budget(24_000, 2_400_000);

    // ---- pinned witnesses of open findings (shard 0 only)
    if shard == 0 {
        if let Some(list) = args.get("pinned") {
            for p in list.split(',').filter(|p| !p.is_empty()) {
                match read_witness_file(p) {
                    Some(case) => {
                        let oc = runner.ctx.run_one(&case, ctx.alarm_s, false, true);
                        runner.absorb(&case, oc);
                        runner.rep.count("pinned_witnesses_run");
                    }
                    None => runner.rep.count("pinned_witness_unreadable"),
                }
            }
        }
    }

    // ---- 1. unmutated seeds through every entry point (self-test: they load,
    //         all constants are well-formed, the model runs)
    let mut seed_cases: Vec<(Case, bool)> = Vec::new();
    for (i, s) in pools.onnx.iter().enumerate() {
        // built-in seeds on every shard (cheap); pack models are already sharded
        if s.name.contains('-') && i % (if ctx.asan { 16 } else { 4 }) != 0 {
            continue;
        }
        seed_cases.push((Case { bytes: s.bytes.clone(), fmt: Fmt::Onnx, origin: Fmt::Onnx, class: "seed".into(), seed_name: s.name.clone(), structured: true, mask: FULL_MASK, run_model: true }, s.must_load));
    }
    for s in &pools.rten {
        seed_cases.push((Case { bytes: s.bytes.clone(), fmt: Fmt::Rten, origin: Fmt::Rten, class: "seed".into(), seed_name: s.name.clone(), structured: true, mask: FULL_MASK, run_model: true }, true));
    }
    let mut selftest: Vec<String> = Vec::new();
    let t_seed = std::time::Instant::now();
    {
        let cases: Vec<Case> = seed_cases.iter().map(|c| c.0.clone()).collect();
        for chunk in cases.chunks(batch_size).zip(seed_cases.chunks(batch_size)) {
            let ocs = runner.ctx.run_batch(chunk.0, ctx.alarm_s, false, false);
            for ((case, must), oc) in chunk.1.iter().zip(ocs) {
                if *must && oc.crash.is_none() && !oc.outs.is_empty() {
                    let ok = oc.outs.iter().all(|o| o.status == "ok" && o.bad.is_empty());
                    if !ok {
                        selftest.push(format!(
                            "{}: {:?}",
                            case.seed_name,
                            oc.outs.iter().filter(|o| o.status != "ok" || !o.bad.is_empty()).map(|o| format!("{}:{}:{}:{}", ex::entry_name(o.entry), o.status, o.msg, o.bad.join(";"))).collect::<Vec<_>>()
                        ));
                    }
                    if oc.outs.iter().any(|o| o.status == "ok" && o.n_consts > 0 && o.elems_read > 0) {
                        runner.rep.count("seed_models_with_constants_read");
                    }
                }
                runner.absorb(case, oc);
            }
        }
    }
    runner.rep.add("time_us.seed_phase(incl. its write-ups)", t_seed.elapsed().as_micros() as u64);
    if !selftest.is_empty() {
        runner.rep.inconclusive = Some(format!("valid seed models no longer load cleanly through every entry point (harness out of date?): {}", selftest.join(" | ")));
    }

    // ---- 2. mutants
    let mut done = runner.rep.evaluations;
    let mut rng = Rng::derive(args.seed, 0x05_0000 + shard as u64);
    let mut run_disabled = false;
    let mut run_stage_deaths = 0u64;
    while done < budget {
        let tgen = std::time::Instant::now();
        let mut batch: Vec<Case> = Vec::with_capacity(batch_size);
        let mut attempts = 0;
        while batch.len() < batch_size && (done + batch.len() as u64) < budget && attempts < batch_size * 20 {
            attempts += 1;
            let fmt = if rng.chance(11, 20) { Fmt::Onnx } else { Fmt::Rten };
            let g = match fmt {
                Fmt::Onnx => gen_onnx(&mut rng, &pools, true),
                Fmt::Rten => gen_rten(&mut rng, &pools),
            };
            let Some((bytes, class, seed_name, structured)) = g else { continue };
            if bytes.len() > 1 << 20 {
                continue;
            }
            // A small share is presented with the other format's extension.
            let origin = fmt;
            let fmt = if rng.chance(1, 64) { if fmt == Fmt::Onnx { Fmt::Rten } else { Fmt::Onnx } } else { fmt };
            let mask = pick_mask(&mut rng, fmt);
            let run_model = !run_disabled && rng.chance(1, 2);
            batch.push(Case { bytes, fmt, origin, class, seed_name, structured, mask, run_model });
        }
        if batch.is_empty() {
            break;
        }
        runner.rep.add("time_us.generating_mutants", tgen.elapsed().as_micros() as u64);
        let tb = std::time::Instant::now();
        let ocs = runner.ctx.run_batch(&batch, ctx.alarm_s, false, false);
        runner.rep.add("time_us.mutant_batches", tb.elapsed().as_micros() as u64);
        if std::env::var_os("LF_DEBUG").is_some() {
            let slow = batch.iter().zip(&ocs).map(|(c, o)| (o.outs.iter().map(|e| e.micros).sum::<u64>(), c.class.clone(), c.seed_name.clone(), c.bytes.len())).max();
            eprintln!("batch of {} in {:?}; done {}; slowest load {:?}", batch.len(), tb.elapsed(), done, slow);
        }
        for (case, oc) in batch.iter().zip(ocs) {
            if let Some(c) = &oc.crash {
                if matches!(c.stage, ex::ST_RUN | ex::ST_CONST_OUT) {
                    run_stage_deaths += 1;
                    if run_stage_deaths > 40 && !run_disabled {
                        run_disabled = true;
                        runner.rep.count("model_runs_disabled_after_40_run_stage_deaths");
                    }
                }
            }
            runner.absorb(case, oc);
            done += 1;
        }
    }

    let unattributed = std::mem::take(&mut runner.unattributed);
    drop(runner);
    rep.add("children_spawned", ctx.children.get());
    rep.add("child_deaths", ctx.child_deaths.get());
    rep.add("child_deaths_after_last_case", ctx.child_deaths_after_last_case.get());
    if !unattributed.is_empty() {
        rep.note("memory_errors_while_running_models_whose_constants_are_all_well_formed(not_a_C05_question)", Json::Array(unattributed));
    }
    rep.note("bounds", json!({"alloc_abort_is_a_violation_above": "16*len+1MiB", "allocator_refuses_above_bytes": LOAD_REFUSE_ABOVE, "per_case_alarm_s": ctx.alarm_s, "timeout_confirmation_alarm_s": ctx.alarm_s * 4, "batch_size": batch_size}));
    if let Some(e) = pack_problem {
        if rep.inconclusive.is_none() {
            rep.inconclusive = Some(format!("generator pack unreadable: {}", e));
        }
    }
    let n = rep.evaluations.max(1);
    let timeouts: u64 = rep.counters.iter().filter(|(k, _)| k.starts_with("child_death.") && k.ends_with(".timeout")).map(|(_, v)| *v).sum();
    if timeouts * 50 > n.max(50) && rep.inconclusive.is_none() {
        rep.inconclusive = Some(format!("{} of {} cases were killed by the per-case alarm (machine overloaded?)", timeouts, n));
    }
    let not_repro = rep.counters.get("child_death_not_reproduced_alone").copied().unwrap_or(0);
    if not_repro * 100 > n.max(100) && rep.inconclusive.is_none() {
        rep.inconclusive = Some(format!("{} child deaths did not reproduce when the case ran alone", not_repro));
    }
    let examined = rep.counters.get("constants_walked").copied().unwrap_or(0);
    if examined == 0 && rep.inconclusive.is_none() {
        rep.inconclusive = Some("no constant of any loaded model was examined".into());
    }
    ctx.env.cleanup();
    rep.add("alloc_refusals_in_constant_propagation_not_judged", CONSTPROP_ALLOC_ABORTS.load(std::sync::atomic::Ordering::Relaxed));
    rep.finish();
}

/// Timing of the child machinery (development aid: `loadfuzz c05bench`).
pub fn bench() {
    unsafe { std::env::set_var("RTEN_NUM_THREADS", "1") };
    let ctx = Ctx::new();
    let spec = &rt::seed_specs()[1];
    let bytes = rt::build(spec);
    for (name, mask, run_model) in [("buf_opt only", ex::entry_bit(ex::E_BUF_OPT), false), ("full mask", FULL_MASK, false), ("full mask + run", FULL_MASK, true), ("file only", ex::entry_bit(ex::E_FILE_OPT), false)] {
        let case = Case { bytes: bytes.clone(), fmt: Fmt::Rten, origin: Fmt::Rten, class: "bench".into(), seed_name: "bench".into(), structured: true, mask, run_model };
        let t = std::time::Instant::now();
        for _ in 0..50 {
            let oc = ctx.run_one(&case, 10, false, false);
            if let Some(c) = &oc.crash {
                eprintln!("bench child died: {} stage {} entry {}\n{}", c.class, c.stage, c.entry, c.stderr);
                break;
            }
        }
        eprintln!("{}: {:?} per single-case child", name, t.elapsed() / 50);
        let cases: Vec<Case> = (0..200).map(|_| case.clone()).collect();
        let t = std::time::Instant::now();
        let ocs = ctx.run_batch(&cases, 10, false, false);
        eprintln!("{}: {:?} per case in a batch of {}", name, t.elapsed() / 200, ocs.len());
    }
    ctx.env.cleanup();
}
