//! `.rten` inputs for C05: a small specification type that is serialised with
//! the real `rten_model_file::schema` FlatBuffers builders (so the result is
//! what rten-convert would write), spec-level mutators that make individual
//! fields lie (shapes, data offsets, union tags, node indices), a header
//! mutator, and a schema-guided walker that locates offsets / lengths /
//! vtable entries inside *any* .rten FlatBuffer for in-place patching.
use flatbuffers::{FlatBufferBuilder, UnionWIPOffset, WIPOffset};
use rten_model_file::header::Header;
use rten_model_file::schema as sg;
use vcommon::Rng;

#[derive(Clone, Debug)]
pub enum RData {
    F32(Vec<f32>),
    I32(Vec<i32>),
    I8(Vec<i8>),
    U8(Vec<u8>),
}

impl RData {
    pub fn len(&self) -> usize {
        match self {
            RData::F32(v) => v.len(),
            RData::I32(v) => v.len(),
            RData::I8(v) => v.len(),
            RData::U8(v) => v.len(),
        }
    }
    fn inline_tag(&self) -> u8 {
        match self {
            RData::F32(_) => 1,
            RData::I32(_) => 2,
            RData::I8(_) => 3,
            RData::U8(_) => 4,
        }
    }
    /// ConstantDataType value.
    fn dtype(&self) -> u16 {
        match self {
            RData::I32(_) => 0,
            RData::F32(_) => 1,
            RData::I8(_) => 2,
            RData::U8(_) => 3,
        }
    }
    fn elem_size(&self) -> usize {
        match self {
            RData::F32(_) | RData::I32(_) => 4,
            _ => 1,
        }
    }
    fn le_bytes(&self) -> Vec<u8> {
        match self {
            RData::F32(v) => v.iter().flat_map(|x| x.to_le_bytes()).collect(),
            RData::I32(v) => v.iter().flat_map(|x| x.to_le_bytes()).collect(),
            RData::I8(v) => v.iter().map(|x| *x as u8).collect(),
            RData::U8(v) => v.clone(),
        }
    }
}

#[derive(Clone, Debug)]
pub struct RConst {
    pub name: Option<String>,
    pub shape: Vec<u32>,
    pub data: RData,
    /// Store the data inside the FlatBuffer (always so in V1 files).
    pub inline: bool,
    // ---- lies
    pub dtype_override: Option<Option<u16>>,
    pub tag_override: Option<u8>,
    pub offset_override: Option<u64>,
    /// Write both inline data and a data_offset.
    pub both: bool,
    /// Write neither.
    pub omit_data: bool,
    /// Bytes of padding in front of the tensor data (mis-alignment).
    pub misalign: usize,
}

impl RConst {
    pub fn new(name: &str, shape: &[u32], data: RData, inline: bool) -> RConst {
        RConst { name: Some(name.to_string()), shape: shape.to_vec(), data, inline, dtype_override: None, tag_override: None, offset_override: None, both: false, omit_data: false, misalign: 0 }
    }
}

#[derive(Clone, Debug)]
pub enum RAttrs {
    None,
    Concat(i32),
    Softmax(i32),
    Gather(i32),
    Cast(u8),
    Transpose(Vec<u32>),
    Gemm(f32, f32, bool, bool),
    Reshape(bool),
    If(Box<RGraph>, Box<RGraph>),
    Loop(Box<RGraph>),
}

#[derive(Clone, Debug)]
pub enum RNode {
    Const(RConst),
    Value { name: Option<String>, shape: Option<Vec<(u32, Option<String>)>>, dtype: Option<u8> },
    Op { name: Option<String>, op_type: u8, attrs: RAttrs, attrs_tag_override: Option<u8>, inputs: Vec<i32>, outputs: Vec<i32> },
}

#[derive(Clone, Debug, Default)]
pub struct RGraph {
    pub nodes: Vec<RNode>,
    pub inputs: Vec<u32>,
    pub outputs: Vec<u32>,
    pub captures: Option<Vec<u32>>,
}

#[derive(Clone, Debug)]
pub struct RSpec {
    pub v2: bool,
    pub graph: RGraph,
    pub schema_version: i32,
    pub metadata: bool,
    pub name: &'static str,
}

// ---------------------------------------------------------------- serialisation

struct TensorData {
    data: Vec<u8>,
}

impl TensorData {
    fn add(&mut self, c: &RConst) -> u64 {
        let align = c.data.elem_size();
        let off = self.data.len();
        let pad = off.next_multiple_of(align) - off + c.misalign;
        self.data.extend(std::iter::repeat_n(0xEE, pad));
        let start = self.data.len();
        self.data.extend(c.data.le_bytes());
        start as u64
    }
}

fn build_graph<'a>(b: &mut FlatBufferBuilder<'a>, g: &RGraph, td: &mut Option<TensorData>) -> WIPOffset<sg::Graph<'a>> {
    let mut nodes = Vec::new();
    for n in &g.nodes {
        let (name, kind, data): (Option<&str>, u8, Option<WIPOffset<UnionWIPOffset>>) = match n {
            RNode::Const(c) => {
                let shape = b.create_vector(&c.shape[..]);
                let use_inline = c.inline || td.is_none();
                let mut args = sg::ConstantNodeArgs { shape: Some(shape), data_type: sg::ConstantData::NONE, data: None, dtype: Some(sg::ConstantDataType(c.data.dtype())), data_offset: None };
                if !c.omit_data {
                    if use_inline || c.both {
                        let u = match &c.data {
                            RData::F32(v) => {
                                let d = b.create_vector(&v[..]);
                                sg::FloatData::create(b, &sg::FloatDataArgs { data: Some(d) }).as_union_value()
                            }
                            RData::I32(v) => {
                                let d = b.create_vector(&v[..]);
                                sg::Int32Data::create(b, &sg::Int32DataArgs { data: Some(d) }).as_union_value()
                            }
                            RData::I8(v) => {
                                let d = b.create_vector(&v[..]);
                                sg::Int8Data::create(b, &sg::Int8DataArgs { data: Some(d) }).as_union_value()
                            }
                            RData::U8(v) => {
                                let d = b.create_vector(&v[..]);
                                sg::UInt8Data::create(b, &sg::UInt8DataArgs { data: Some(d) }).as_union_value()
                            }
                        };
                        args.data_type = sg::ConstantData(c.data.inline_tag());
                        args.data = Some(u);
                    }
                    if !use_inline || c.both {
                        let off = match td.as_mut() {
                            Some(t) => t.add(c),
                            None => 0,
                        };
                        args.data_offset = Some(off);
                    }
                }
                if let Some(t) = c.tag_override {
                    args.data_type = sg::ConstantData(t);
                }
                if let Some(o) = c.offset_override {
                    args.data_offset = Some(o);
                }
                if let Some(d) = c.dtype_override {
                    args.dtype = d.map(sg::ConstantDataType);
                }
                let cn = sg::ConstantNode::create(b, &args);
                (c.name.as_deref(), 2, Some(cn.as_union_value()))
            }
            RNode::Value { name, shape, dtype } => {
                let shape = shape.as_ref().map(|dims| {
                    let v: Vec<_> = dims
                        .iter()
                        .map(|(value, name)| {
                            let name = name.as_ref().map(|s| b.create_string(s));
                            sg::Dim::create(b, &sg::DimArgs { value: *value, name })
                        })
                        .collect();
                    b.create_vector(&v[..])
                });
                let vn = sg::ValueNode::create(b, &sg::ValueNodeArgs { shape, dtype: dtype.map(sg::DataType) });
                (name.as_deref(), 3, Some(vn.as_union_value()))
            }
            RNode::Op { name, op_type, attrs, attrs_tag_override, inputs, outputs } => {
                let (tag, av): (u8, Option<WIPOffset<UnionWIPOffset>>) = match attrs {
                    RAttrs::None => (0, None),
                    RAttrs::Concat(axis) => (5, Some(sg::ConcatAttrs::create(b, &sg::ConcatAttrsArgs { axis: *axis }).as_union_value())),
                    RAttrs::Softmax(axis) => (20, Some(sg::SoftmaxAttrs::create(b, &sg::SoftmaxAttrsArgs { axis: *axis }).as_union_value())),
                    RAttrs::Gather(axis) => (10, Some(sg::GatherAttrs::create(b, &sg::GatherAttrsArgs { axis: *axis }).as_union_value())),
                    RAttrs::Cast(to) => (4, Some(sg::CastAttrs::create(b, &sg::CastAttrsArgs { to: sg::DataType(*to) }).as_union_value())),
                    RAttrs::Transpose(perm) => {
                        let p = b.create_vector(&perm[..]);
                        (21, Some(sg::TransposeAttrs::create(b, &sg::TransposeAttrsArgs { perm: Some(p) }).as_union_value()))
                    }
                    RAttrs::Gemm(alpha, beta, ta, tb) => (11, Some(sg::GemmAttrs::create(b, &sg::GemmAttrsArgs { alpha: *alpha, beta: *beta, transpose_a: *ta, transpose_b: *tb }).as_union_value())),
                    RAttrs::Reshape(az) => (17, Some(sg::ReshapeAttrs::create(b, &sg::ReshapeAttrsArgs { allow_zero: *az }).as_union_value())),
                    RAttrs::If(t, e) => {
                        let tg = build_graph(b, t, td);
                        let eg = build_graph(b, e, td);
                        (39, Some(sg::IfAttrs::create(b, &sg::IfAttrsArgs { then_branch: Some(tg), else_branch: Some(eg) }).as_union_value()))
                    }
                    RAttrs::Loop(body) => {
                        let bg = build_graph(b, body, td);
                        (49, Some(sg::LoopAttrs::create(b, &sg::LoopAttrsArgs { body: Some(bg) }).as_union_value()))
                    }
                };
                let ins = b.create_vector(&inputs[..]);
                let outs = b.create_vector(&outputs[..]);
                let on = sg::OperatorNode::create(
                    b,
                    &sg::OperatorNodeArgs { type_: sg::OperatorType(*op_type), attrs_type: sg::OperatorAttrs(attrs_tag_override.unwrap_or(tag)), attrs: av, inputs: Some(ins), outputs: Some(outs) },
                );
                (name.as_deref(), 1, Some(on.as_union_value()))
            }
        };
        let name = name.map(|s| b.create_string(s));
        nodes.push(sg::Node::create(b, &sg::NodeArgs { name, data_type: sg::NodeKind(kind), data }));
    }
    let inputs = b.create_vector(&g.inputs[..]);
    let outputs = b.create_vector(&g.outputs[..]);
    let captures = g.captures.as_ref().map(|c| b.create_vector(&c[..]));
    let nodes = b.create_vector(&nodes[..]);
    sg::Graph::create(b, &sg::GraphArgs { nodes: Some(nodes), inputs: Some(inputs), outputs: Some(outputs), captures })
}

pub fn build(spec: &RSpec) -> Vec<u8> {
    let mut b = FlatBufferBuilder::with_capacity(1024);
    let mut td = if spec.v2 { Some(TensorData { data: Vec::new() }) } else { None };
    let graph = build_graph(&mut b, &spec.graph, &mut td);
    let metadata = if spec.metadata {
        let h = b.create_string("0123456789abcdef");
        let d = b.create_string("verif seed model");
        Some(sg::Metadata::create(&mut b, &sg::MetadataArgs { onnx_hash: Some(h), description: Some(d), ..Default::default() }))
    } else {
        None
    };
    let model = sg::Model::create(&mut b, &sg::ModelArgs { schema_version: spec.schema_version, graph: Some(graph), metadata });
    b.finish(model, None);
    let model_data = b.finished_data().to_vec();
    match td {
        Some(td) => {
            let header = Header { version: 2, model_offset: Header::LEN as u64, model_len: model_data.len() as u64, tensor_data_offset: (Header::LEN + model_data.len()) as u64 };
            let mut out = header.to_buf();
            out.extend(model_data);
            out.extend(td.data);
            out
        }
        None => model_data,
    }
}

// ---------------------------------------------------------------- seeds

const OP_ADD: u8 = 0;
const OP_CAST: u8 = 5;
const OP_CONCAT: u8 = 7;
const OP_GATHER: u8 = 18;
const OP_GEMM: u8 = 19;
const OP_IDENTITY: u8 = 23;
const OP_MATMUL: u8 = 30;
const OP_RELU: u8 = 39;
const OP_RESHAPE: u8 = 40;
const OP_SOFTMAX: u8 = 49;
const OP_TRANSPOSE: u8 = 52;
const OP_IF: u8 = 104;
const OP_MATMULINTEGER: u8 = 108;

fn val(name: &str, shape: Option<Vec<(u32, Option<&str>)>>, dtype: Option<u8>) -> RNode {
    RNode::Value { name: Some(name.to_string()), shape: shape.map(|s| s.into_iter().map(|(v, n)| (v, n.map(|x| x.to_string()))).collect()), dtype }
}

fn op(name: &str, op_type: u8, attrs: RAttrs, inputs: &[i32], outputs: &[i32]) -> RNode {
    RNode::Op { name: Some(name.to_string()), op_type, attrs, attrs_tag_override: None, inputs: inputs.to_vec(), outputs: outputs.to_vec() }
}

fn mlp(v2: bool) -> RSpec {
    let w: Vec<f32> = (0..12).map(|i| i as f32 * 0.25 - 1.0).collect();
    let nodes = vec![
        RNode::Const(RConst::new("w", &[4, 3], RData::F32(w), !v2)),               // 0
        RNode::Const(RConst::new("b", &[3], RData::F32(vec![0.5, -0.5, 0.0]), !v2)), // 1
        val("x", Some(vec![(0, Some("batch")), (4, None)]), Some(1)),              // 2
        val("t0", None, None),                                                     // 3
        val("t1", None, None),                                                     // 4
        val("y", Some(vec![(0, Some("batch")), (3, None)]), Some(1)),              // 5
        op("mm", OP_MATMUL, RAttrs::None, &[2, 0], &[3]),
        op("add", OP_ADD, RAttrs::None, &[3, 1], &[4]),
        op("relu", OP_RELU, RAttrs::None, &[4], &[5]),
    ];
    RSpec { v2, graph: RGraph { nodes, inputs: vec![2], outputs: vec![5], captures: None }, schema_version: 1, metadata: true, name: if v2 { "rten_mlp_v2" } else { "rten_mlp_v1" } }
}

fn all_dtypes(v2: bool, inline_in_v2: bool) -> RSpec {
    let inl = !v2 || inline_in_v2;
    let nodes = vec![
        RNode::Const(RConst::new("f", &[2, 3], RData::F32(vec![1.0, -2.0, 3.5, 0.0, f32::NAN, f32::INFINITY]), inl)), // 0
        RNode::Const(RConst::new("i", &[4], RData::I32(vec![0, 1, -1, i32::MAX]), inl)),                              // 1
        RNode::Const(RConst::new("i8", &[3, 1], RData::I8(vec![-128, 0, 127]), inl)),                                // 2
        RNode::Const(RConst::new("u8", &[5], RData::U8(vec![0, 1, 2, 254, 255]), inl)),                              // 3
        RNode::Const(RConst::new("scalar", &[], RData::F32(vec![2.0]), inl)),                                       // 4
        RNode::Const(RConst::new("empty", &[0, 3], RData::I32(vec![]), inl)),                                       // 5
        RNode::Const(RConst { name: None, ..RConst::new("", &[2], RData::I32(vec![0, 1]), inl) }),                 // 6 idx
        val("x", Some(vec![(2, None), (3, None)]), Some(1)),                                                        // 7
        val("g", None, None),                                                                                       // 8
        val("c", None, Some(0)),                                                                                    // 9
        val("cat", None, None),                                                                                     // 10
        val("tr", None, None),                                                                                      // 11
        val("sm", Some(vec![(3, None), (4, None)]), Some(1)),                                                       // 12
        op("gather", OP_GATHER, RAttrs::Gather(0), &[0, 6], &[8]),
        op("cast", OP_CAST, RAttrs::Cast(0), &[4], &[9]),
        op("concat", OP_CONCAT, RAttrs::Concat(0), &[7, 8], &[10]),
        op("transpose", OP_TRANSPOSE, RAttrs::Transpose(vec![1, 0]), &[10], &[11]),
        op("softmax", OP_SOFTMAX, RAttrs::Softmax(-1), &[11], &[12]),
    ];
    RSpec {
        v2,
        graph: RGraph { nodes, inputs: vec![7], outputs: vec![12, 9], captures: None },
        schema_version: 1,
        metadata: false,
        name: match (v2, inline_in_v2) {
            (false, _) => "rten_dtypes_v1",
            (true, false) => "rten_dtypes_v2",
            (true, true) => "rten_dtypes_v2_inline",
        },
    }
}

fn with_if(v2: bool) -> RSpec {
    let branch = |k: f32, v2: bool| RGraph {
        nodes: vec![
            RNode::Const(RConst::new("k", &[2], RData::F32(vec![k, k + 1.0]), !v2)), // 0
            val("x", None, None),                                                    // 1 (captured)
            val("o", None, None),                                                    // 2
            op("add", OP_ADD, RAttrs::None, &[1, 0], &[2]),
        ],
        inputs: vec![],
        outputs: vec![2],
        captures: Some(vec![1]),
    };
    let nodes = vec![
        val("cond", Some(vec![]), Some(0)),                                // 0
        val("x", Some(vec![(2, None)]), Some(1)),                          // 1
        val("y", None, None),                                              // 2
        RNode::Const(RConst::new("q", &[2, 2], RData::I8(vec![1, 2, 3, 4]), !v2)), // 3
        RNode::Const(RConst::new("r", &[2, 2], RData::U8(vec![1, 2, 3, 4]), !v2)), // 4
        val("mi", None, None),                                             // 5
        op("if", OP_IF, RAttrs::If(Box::new(branch(1.0, v2)), Box::new(branch(10.0, v2))), &[0], &[2]),
        op("mmi", OP_MATMULINTEGER, RAttrs::None, &[4, 3], &[5]),
    ];
    RSpec { v2, graph: RGraph { nodes, inputs: vec![0, 1], outputs: vec![2, 5], captures: None }, schema_version: 1, metadata: false, name: if v2 { "rten_if_v2" } else { "rten_if_v1" } }
}

fn gemm_big(v2: bool, misalign: usize) -> RSpec {
    let w: Vec<f32> = (0..64 * 48).map(|i| ((i % 97) as f32) * 0.01).collect();
    let mut wc = RConst::new("w", &[64, 48], RData::F32(w), !v2);
    wc.misalign = misalign;
    let nodes = vec![
        RNode::Const(wc),                                                                  // 0
        RNode::Const(RConst::new("bias", &[48], RData::F32(vec![0.25; 48]), !v2)),        // 1
        RNode::Const(RConst::new("shape", &[2], RData::I32(vec![-1, 64]), !v2)),          // 2
        val("x", Some(vec![(0, Some("n")), (8, None), (8, None)]), Some(1)),               // 3
        val("flat", None, None),                                                           // 4
        val("y", None, None),                                                              // 5
        val("id", None, None),                                                             // 6
        op("reshape", OP_RESHAPE, RAttrs::Reshape(false), &[3, 2], &[4]),
        op("gemm", OP_GEMM, RAttrs::Gemm(1.0, 1.0, false, false), &[4, 0, 1], &[5]),
        op("identity", OP_IDENTITY, RAttrs::None, &[5], &[6]),
    ];
    RSpec {
        v2,
        graph: RGraph { nodes, inputs: vec![3], outputs: vec![6], captures: None },
        schema_version: 1,
        metadata: true,
        name: match (v2, misalign) {
            (false, _) => "rten_gemm_v1",
            (true, 0) => "rten_gemm_v2",
            _ => "rten_gemm_v2_misaligned",
        },
    }
}

pub fn seed_specs() -> Vec<RSpec> {
    vec![mlp(false), mlp(true), all_dtypes(false, false), all_dtypes(true, false), all_dtypes(true, true), with_if(false), with_if(true), gemm_big(false, 0), gemm_big(true, 0), gemm_big(true, 1)]
}

// ---------------------------------------------------------------- spec-level mutators

fn const_positions(g: &RGraph, path: &mut Vec<usize>, out: &mut Vec<Vec<usize>>) {
    for (i, n) in g.nodes.iter().enumerate() {
        match n {
            RNode::Const(_) => {
                let mut p = path.clone();
                p.push(i);
                out.push(p);
            }
            RNode::Op { attrs, .. } => match attrs {
                RAttrs::If(t, e) => {
                    path.push(i);
                    path.push(0);
                    const_positions(t, path, out);
                    path.pop();
                    path.push(1);
                    const_positions(e, path, out);
                    path.pop();
                    path.pop();
                }
                RAttrs::Loop(b) => {
                    path.push(i);
                    path.push(0);
                    const_positions(b, path, out);
                    path.pop();
                    path.pop();
                }
                _ => {}
            },
            _ => {}
        }
    }
}

fn graph_at<'a>(g: &'a mut RGraph, path: &[usize]) -> &'a mut RGraph {
    if path.len() < 2 {
        return g;
    }
    let (op_i, branch) = (path[0], path[1]);
    match &mut g.nodes[op_i] {
        RNode::Op { attrs: RAttrs::If(t, e), .. } => graph_at(if branch == 0 { t } else { e }, &path[2..]),
        RNode::Op { attrs: RAttrs::Loop(b), .. } => graph_at(b, &path[2..]),
        _ => unreachable!(),
    }
}

fn const_at<'a>(g: &'a mut RGraph, path: &[usize]) -> &'a mut RConst {
    let gg = graph_at(g, &path[..path.len() - 1]);
    match &mut gg.nodes[*path.last().unwrap()] {
        RNode::Const(c) => c,
        _ => unreachable!(),
    }
}

fn hostile_u32_shape(rng: &mut Rng, n: usize, orig: &[u32]) -> (Vec<u32>, &'static str) {
    let m = u32::MAX;
    match rng.below(14) {
        0 => (vec![1 << 16, 1 << 16, 1 << 16, 1 << 16], "shape_2p64_wraps_to_0"),
        1 => (vec![m, m], "shape_u32max_sq"),
        2 => (vec![1 << 31, 1 << 31], "shape_2p62"),
        3 => (vec![1 << 31, 1 << 31, 4], "shape_2p64_x4"),
        4 => (vec![0, m, m], "shape_zero_and_huge"),
        5 => (vec![m, m, 0], "shape_huge_and_zero"),
        6 => (vec![n as u32 + 1], "shape_n_plus_1"),
        7 => (vec![(n as u32).saturating_sub(1)], "shape_n_minus_1"),
        8 => (vec![], "shape_scalar"),
        9 => (vec![1 << 16, 1 << 16, 1 << 16, 1 << 16, n.max(1) as u32], "shape_2p64_times_n"),
        10 => {
            let mut s = orig.to_vec();
            s.push(1 << rng.urange(20, 31));
            (s, "shape_orig_times_huge")
        }
        11 => (vec![1 << 31, 1 << 31, 2], "shape_2p63"),
        12 => (vec![m], "shape_u32max"),
        _ => (vec![1 << 30, 4], "shape_2p32"),
    }
}

/// Mutate the spec. `file_len` / `tdo` describe the unmutated serialisation
/// (for offsets "around the file size").
pub fn mutate_spec(rng: &mut Rng, spec: &mut RSpec, file_len: u64, tdo: u64) -> String {
    let mut consts = Vec::new();
    const_positions(&spec.graph, &mut Vec::new(), &mut consts);
    let pick = rng.below(20);
    if pick < 12 && !consts.is_empty() {
        let p = rng.choose(&consts).clone();
        let v2 = spec.v2;
        let c = const_at(&mut spec.graph, &p);
        let n = c.data.len();
        let esz = c.data.elem_size() as u64;
        let data_len = file_len.saturating_sub(tdo);
        return match pick {
            0..=3 => {
                let (s, name) = hostile_u32_shape(rng, n, &c.shape);
                c.shape = s;
                format!("{}{}", name, if c.inline || !v2 { "(inline)" } else { "(offset)" })
            }
            4 | 5 => {
                let k = *rng.choose(&[1u64, 2, 3, 4, 7, 8, 64]);
                let (o, name) = match rng.below(12) {
                    0 => (data_len, "offset_eq_data_len"),
                    1 => (data_len.saturating_sub(k), "offset_near_data_end"),
                    2 => (data_len + k, "offset_past_data_end"),
                    3 => (1 << 32, "offset_2p32"),
                    4 => (1 << 63, "offset_2p63"),
                    5 => (u64::MAX, "offset_u64max"),
                    6 => (u64::MAX - tdo + 1, "offset_wraps_to_0"),
                    7 => (u64::MAX - tdo + 1 + k, "offset_wraps_small"),
                    8 => (data_len.saturating_sub(n as u64 * esz) + 1, "offset_last_fit_plus_1"),
                    9 => (k | 1, "offset_misaligned"),
                    10 => (0u64.wrapping_sub(n as u64 * esz), "offset_minus_byte_len"),
                    _ => (0, "offset_0"),
                };
                c.offset_override = Some(o);
                if rng.chance(1, 3) {
                    c.inline = false;
                }
                name.to_string()
            }
            6 | 7 => {
                let nd = rng.below(6) as u16;
                match rng.below(3) {
                    0 => {
                        c.dtype_override = Some(Some(nd));
                        format!("dtype_field_{}", nd)
                    }
                    1 => {
                        c.dtype_override = Some(None);
                        "dtype_field_absent".into()
                    }
                    _ => {
                        c.tag_override = Some(rng.below(7) as u8);
                        format!("inline_union_tag_{}", c.tag_override.unwrap())
                    }
                }
            }
            8 => {
                c.both = true;
                "inline_and_offset".into()
            }
            9 => {
                c.omit_data = true;
                "no_data".into()
            }
            10 => {
                // shorten / lengthen the data under an unchanged shape
                let class;
                match &mut c.data {
                    RData::F32(v) => {
                        if rng.bool() && !v.is_empty() {
                            v.pop();
                            class = "data_short";
                        } else {
                            v.push(9.0);
                            class = "data_long";
                        }
                    }
                    RData::I32(v) => {
                        if rng.bool() && !v.is_empty() {
                            v.pop();
                            class = "data_short";
                        } else {
                            v.push(9);
                            class = "data_long";
                        }
                    }
                    RData::I8(v) => {
                        if rng.bool() && !v.is_empty() {
                            v.pop();
                            class = "data_short";
                        } else {
                            v.push(9);
                            class = "data_long";
                        }
                    }
                    RData::U8(v) => {
                        if rng.bool() && !v.is_empty() {
                            v.pop();
                            class = "data_short";
                        } else {
                            v.push(9);
                            class = "data_long";
                        }
                    }
                }
                format!("{}{}", class, if c.inline || !v2 { "(inline)" } else { "(offset)" })
            }
            _ => {
                c.inline = !c.inline;
                c.misalign = rng.below(4);
                "storage_kind_flipped".into()
            }
        };
    }
    // graph-level
    let n_nodes = spec.graph.nodes.len() as u32;
    match rng.below(10) {
        0 => {
            let v = *rng.choose(&[n_nodes, n_nodes + 1, u32::MAX, 1 << 31, 1 << 16]);
            if rng.bool() {
                spec.graph.inputs.push(v);
                "graph_input_dangling".into()
            } else {
                spec.graph.outputs.push(v);
                "graph_output_dangling".into()
            }
        }
        1 => {
            spec.graph.captures = Some(vec![*rng.choose(&[0, n_nodes, u32::MAX])]);
            "top_level_captures".into()
        }
        2 | 3 => {
            let ops: Vec<usize> = spec.graph.nodes.iter().enumerate().filter(|(_, n)| matches!(n, RNode::Op { .. })).map(|(i, _)| i).collect();
            if ops.is_empty() {
                return "noop".into();
            }
            let i = *rng.choose(&ops);
            let RNode::Op { inputs, outputs, .. } = &mut spec.graph.nodes[i] else { unreachable!() };
            let v = *rng.choose(&[n_nodes as i32, i as i32, i32::MAX, i32::MIN, -1, -2, n_nodes as i32 + 7, 0]);
            if rng.bool() && !inputs.is_empty() {
                let k = rng.below(inputs.len());
                inputs[k] = v;
                format!("op_input_index_{}", index_class(v, n_nodes, i))
            } else if !outputs.is_empty() {
                let k = rng.below(outputs.len());
                outputs[k] = v;
                format!("op_output_index_{}", index_class(v, n_nodes, i))
            } else {
                outputs.push(v);
                "op_output_added".into()
            }
        }
        4 => {
            let ops: Vec<usize> = spec.graph.nodes.iter().enumerate().filter(|(_, n)| matches!(n, RNode::Op { .. })).map(|(i, _)| i).collect();
            if ops.is_empty() {
                return "noop".into();
            }
            let i = *rng.choose(&ops);
            let RNode::Op { op_type, attrs_tag_override, .. } = &mut spec.graph.nodes[i] else { unreachable!() };
            if rng.bool() {
                *op_type = *rng.choose(&[145u8, 200, 255, 104, 116, 7, 52]);
                "op_type_changed".into()
            } else {
                *attrs_tag_override = Some(*rng.choose(&[0u8, 5, 21, 39, 49, 63, 255]));
                "attrs_tag_changed".into()
            }
        }
        5 => {
            spec.schema_version = *rng.choose(&[0, 2, -1, i32::MAX]);
            "schema_version".into()
        }
        6 => {
            // value node with hostile dims
            for n in spec.graph.nodes.iter_mut() {
                if let RNode::Value { shape, dtype, .. } = n {
                    *shape = Some(vec![(u32::MAX, None), (u32::MAX, None), (0, Some("s".to_string()))]);
                    *dtype = Some(*rng.choose(&[0u8, 1, 2, 3, 4, 255]));
                    break;
                }
            }
            "value_dims_hostile".into()
        }
        7 => {
            // duplicate names
            let name = spec.graph.nodes.iter().find_map(|n| match n {
                RNode::Value { name, .. } => name.clone(),
                _ => None,
            });
            for n in spec.graph.nodes.iter_mut() {
                match n {
                    RNode::Const(c) => c.name = name.clone(),
                    RNode::Op { name: nn, .. } => *nn = name.clone(),
                    _ => {}
                }
            }
            "names_collide".into()
        }
        8 => {
            // operators first: references to nodes that come later
            spec.graph.nodes.reverse();
            "nodes_reversed".into()
        }
        _ => {
            for n in spec.graph.nodes.iter_mut() {
                match n {
                    RNode::Const(c) => c.name = None,
                    RNode::Value { name, .. } => *name = None,
                    RNode::Op { name, .. } => *name = None,
                }
            }
            "names_missing".into()
        }
    }
}

fn index_class(v: i32, n: u32, me: usize) -> &'static str {
    if v < 0 {
        if v == -1 { "missing" } else { "negative" }
    } else if v as u32 >= n {
        "past_end"
    } else if v as usize == me {
        "self"
    } else {
        "other"
    }
}

// ---------------------------------------------------------------- header

/// Mutate one of the V2 header fields in place. Returns the class.
pub fn mutate_header(rng: &mut Rng, b: &mut Vec<u8>) -> Option<String> {
    if b.len() < 32 || &b[..4] != b"RTEN" {
        return None;
    }
    let file = b.len() as u64;
    let rd = |b: &[u8], at: usize| u64::from_le_bytes(b[at..at + 8].try_into().unwrap());
    let (mo, ml, tdo) = (rd(b, 8), rd(b, 16), rd(b, 24));
    let k = *rng.choose(&[0u64, 1, 2, 3, 4, 7, 8, 31, 32, 33]);
    let field = rng.below(5);
    let (at, width, val, name): (usize, usize, u64, String) = match field {
        0 => (4, 4, *rng.choose(&[0u64, 1, 3, 0xffff_ffff, 0x0200_0000]), "version".into()),
        1 => {
            let (v, n) = match rng.below(9) {
                0 => (file, "eq_file"),
                1 => (file.saturating_sub(k), "near_file_end"),
                2 => (file + k + 1, "past_file_end"),
                3 => (32u64.saturating_sub(k), "inside_header"),
                4 => (1 << 32, "2p32"),
                5 => (1 << 63, "2p63"),
                6 => (u64::MAX - k, "near_u64max"),
                7 => (mo + k + 1, "shifted"),
                _ => (0u64.wrapping_sub(ml).wrapping_add(k), "wraps_with_len"),
            };
            (8, 8, v, format!("model_offset_{}", n))
        }
        2 => {
            let (v, n) = match rng.below(9) {
                0 => (file - mo.min(file), "to_file_end"),
                1 => ((file - mo.min(file)) + k + 1, "past_file_end"),
                2 => (ml.saturating_sub(k + 1), "shorter"),
                3 => (0, "zero"),
                4 => (1 << 32, "2p32"),
                5 => (1 << 63, "2p63"),
                6 => (u64::MAX - k, "near_u64max"),
                7 => (0u64.wrapping_sub(mo).wrapping_add(k), "offset_plus_len_wraps"),
                _ => (ml + k + 1, "longer"),
            };
            (16, 8, v, format!("model_len_{}", n))
        }
        3 => {
            let (v, n) = match rng.below(9) {
                0 => (file, "eq_file"),
                1 => (file.saturating_sub(k), "near_file_end"),
                2 => (file + k + 1, "past_file_end"),
                3 => (32u64.saturating_sub(k), "inside_header"),
                4 => (1 << 32, "2p32"),
                5 => (1 << 63, "2p63"),
                6 => (u64::MAX - k, "near_u64max"),
                7 => (tdo + k + 1, "shifted_fwd"),
                _ => (tdo.saturating_sub(k + 1).max(32), "shifted_back"),
            };
            (24, 8, v, format!("tensor_data_offset_{}", n))
        }
        _ => {
            // truncate inside / right after the header
            let cut = rng.urange(0, 40).min(b.len());
            b.truncate(cut);
            return Some("header_truncated".into());
        }
    };
    b[at..at + width].copy_from_slice(&val.to_le_bytes()[..width]);
    Some(format!("header_{}", name))
}

// ---------------------------------------------------------------- FlatBuffer walker

#[derive(Clone, Copy, Debug, PartialEq)]
pub enum SiteKind {
    /// u32 forward offset to a table / vector / string
    UOffset,
    /// u32 element count of a vector
    VecLen,
    /// u32 element of a constant's shape vector
    ShapeDim,
    /// u64 ConstantNode.data_offset
    DataOffset,
    /// u8 union tag
    Tag,
    /// u16 vtable entry (offset of a field inside its table)
    VtEntry,
    /// u16 vtable size / table size
    VtSize,
    /// i32 offset from a table to its vtable
    SOffset,
    /// u32 node index in an operator's inputs / outputs, graph inputs / outputs
    NodeIndex,
    /// u16 / u8 / i32 scalar (dtype, op type, schema version)
    Scalar,
}

#[derive(Clone, Copy, Debug)]
pub struct FbSite {
    pub pos: usize,
    pub width: usize,
    pub kind: SiteKind,
}

struct Walker<'a> {
    b: &'a [u8],
    sites: Vec<FbSite>,
    budget: usize,
}

impl<'a> Walker<'a> {
    fn u16(&self, p: usize) -> Option<u16> {
        Some(u16::from_le_bytes(self.b.get(p..p + 2)?.try_into().ok()?))
    }
    fn u32(&self, p: usize) -> Option<u32> {
        Some(u32::from_le_bytes(self.b.get(p..p + 4)?.try_into().ok()?))
    }
    fn i32(&self, p: usize) -> Option<i32> {
        self.u32(p).map(|v| v as i32)
    }
    fn site(&mut self, pos: usize, width: usize, kind: SiteKind) {
        if self.sites.len() < 20_000 {
            self.sites.push(FbSite { pos, width, kind });
        }
    }
    /// Position of field `id` inside the table at `t` (None when absent).
    fn field(&mut self, t: usize, id: usize, record_vt: bool) -> Option<usize> {
        let so = self.i32(t)?;
        let vt = (t as i64 - so as i64) as usize;
        let vt_size = self.u16(vt)? as usize;
        if record_vt && id == 0 {
            self.site(t, 4, SiteKind::SOffset);
            self.site(vt, 2, SiteKind::VtSize);
            self.site(vt + 2, 2, SiteKind::VtSize);
        }
        let e = 4 + 2 * id;
        if e + 2 > vt_size {
            return None;
        }
        if record_vt {
            self.site(vt + e, 2, SiteKind::VtEntry);
        }
        let off = self.u16(vt + e)? as usize;
        if off == 0 { None } else { Some(t + off) }
    }
    /// Follow the uoffset stored at `p`.
    fn follow(&mut self, p: usize) -> Option<usize> {
        self.site(p, 4, SiteKind::UOffset);
        let o = self.u32(p)? as usize;
        let t = p.checked_add(o)?;
        if t + 4 > self.b.len() { None } else { Some(t) }
    }
    /// Vector at the uoffset stored in field position `p`: (first element, len).
    fn vector(&mut self, p: usize) -> Option<(usize, usize)> {
        let v = self.follow(p)?;
        self.site(v, 4, SiteKind::VecLen);
        let len = self.u32(v)? as usize;
        Some((v + 4, len))
    }
    fn scalar_vec(&mut self, p: usize, kind: SiteKind) {
        if let Some((first, len)) = self.vector(p) {
            for i in 0..len.min(16) {
                if first + 4 * i + 4 <= self.b.len() {
                    self.site(first + 4 * i, 4, kind);
                }
            }
        }
    }
    fn graph(&mut self, t: usize, depth: usize) {
        if depth > 6 || self.budget == 0 {
            return;
        }
        self.budget -= 1;
        if let Some(p) = self.field(t, 0, true) {
            if let Some((first, len)) = self.vector(p) {
                for i in 0..len.min(256) {
                    if let Some(n) = self.follow(first + 4 * i) {
                        self.node(n, depth);
                    }
                }
            }
        }
        for id in 1..=3 {
            if let Some(p) = self.field(t, id, true) {
                self.scalar_vec(p, SiteKind::NodeIndex);
            }
        }
    }
    fn node(&mut self, t: usize, depth: usize) {
        if let Some(p) = self.field(t, 0, true) {
            self.vector(p); // name string: length prefix
        }
        let tag_pos = self.field(t, 1, true);
        let tag = tag_pos.and_then(|p| self.b.get(p).copied()).unwrap_or(0);
        if let Some(p) = tag_pos {
            self.site(p, 1, SiteKind::Tag);
        }
        let Some(dp) = self.field(t, 2, true) else { return };
        let Some(d) = self.follow(dp) else { return };
        match tag {
            1 => {
                // OperatorNode { type, attrs_type, attrs, inputs, outputs }
                if let Some(p) = self.field(d, 0, true) {
                    self.site(p, 1, SiteKind::Scalar);
                }
                let at = self.field(d, 1, true);
                let atag = at.and_then(|p| self.b.get(p).copied()).unwrap_or(0);
                if let Some(p) = at {
                    self.site(p, 1, SiteKind::Tag);
                }
                if let Some(p) = self.field(d, 2, true) {
                    if let Some(a) = self.follow(p) {
                        match atag {
                            39 => {
                                for id in 0..2 {
                                    if let Some(gp) = self.field(a, id, true) {
                                        if let Some(g) = self.follow(gp) {
                                            self.graph(g, depth + 1);
                                        }
                                    }
                                }
                            }
                            49 => {
                                if let Some(gp) = self.field(a, 0, true) {
                                    if let Some(g) = self.follow(gp) {
                                        self.graph(g, depth + 1);
                                    }
                                }
                            }
                            _ => {
                                // record the attr table's vtable and first fields
                                for id in 0..3 {
                                    self.field(a, id, true);
                                }
                            }
                        }
                    }
                }
                for id in 3..=4 {
                    if let Some(p) = self.field(d, id, true) {
                        self.scalar_vec(p, SiteKind::NodeIndex);
                    }
                }
            }
            2 => {
                // ConstantNode { shape, data_type, data, dtype, data_offset }
                if let Some(p) = self.field(d, 0, true) {
                    self.scalar_vec(p, SiteKind::ShapeDim);
                }
                if let Some(p) = self.field(d, 1, true) {
                    self.site(p, 1, SiteKind::Tag);
                }
                if let Some(p) = self.field(d, 2, true) {
                    if let Some(dt) = self.follow(p) {
                        if let Some(vp) = self.field(dt, 0, true) {
                            self.vector(vp);
                        }
                    }
                }
                if let Some(p) = self.field(d, 3, true) {
                    self.site(p, 2, SiteKind::Scalar);
                }
                if let Some(p) = self.field(d, 4, true) {
                    self.site(p, 8, SiteKind::DataOffset);
                }
            }
            3 => {
                // ValueNode { shape:[Dim], dtype }
                if let Some(p) = self.field(d, 0, true) {
                    if let Some((first, len)) = self.vector(p) {
                        for i in 0..len.min(8) {
                            if let Some(dim) = self.follow(first + 4 * i) {
                                if let Some(vp) = self.field(dim, 0, true) {
                                    self.site(vp, 4, SiteKind::ShapeDim);
                                }
                                if let Some(np) = self.field(dim, 1, true) {
                                    self.vector(np);
                                }
                            }
                        }
                    }
                }
                if let Some(p) = self.field(d, 1, true) {
                    self.site(p, 1, SiteKind::Scalar);
                }
            }
            _ => {}
        }
    }
}

/// Offset and length of the FlatBuffer inside a .rten file (after the header
/// for V2 files, the whole file for V1).
pub fn flatbuffer_range(b: &[u8]) -> (usize, usize) {
    if b.len() >= 32 && &b[..4] == b"RTEN" {
        if let Ok(h) = Header::from_buf(b) {
            return (h.model_offset as usize, h.model_len as usize);
        }
    }
    (0, b.len())
}

/// Locate patch sites by walking Model -> Graph -> Node -> ... with the
/// schema's field numbers. Positions are absolute in `file`.
pub fn fb_sites(file: &[u8]) -> Vec<FbSite> {
    let (off, len) = flatbuffer_range(file);
    let Some(fb) = file.get(off..off + len) else { return Vec::new() };
    let mut w = Walker { b: fb, sites: Vec::new(), budget: 64 };
    w.site(0, 4, SiteKind::UOffset);
    if let Some(root) = w.u32(0).map(|v| v as usize) {
        if root + 4 <= fb.len() {
            if let Some(p) = w.field(root, 0, true) {
                w.site(p, 4, SiteKind::Scalar);
            }
            if let Some(p) = w.field(root, 1, true) {
                if let Some(g) = w.follow(p) {
                    w.graph(g, 0);
                }
            }
            if let Some(p) = w.field(root, 2, true) {
                if let Some(m) = w.follow(p) {
                    for id in 0..8 {
                        if let Some(sp) = w.field(m, id, true) {
                            w.vector(sp);
                        }
                    }
                }
            }
        }
    }
    let mut sites = w.sites;
    for s in sites.iter_mut() {
        s.pos += off;
    }
    sites.retain(|s| s.pos + s.width <= file.len());
    sites.sort_by_key(|s| (s.pos, s.width));
    sites.dedup_by_key(|s| (s.pos, s.width));
    sites
}

/// Patch one located site with a hostile value. Returns the class.
pub fn patch_site(rng: &mut Rng, b: &mut [u8], s: &FbSite) -> String {
    let cur: u64 = {
        let mut v = [0u8; 8];
        v[..s.width].copy_from_slice(&b[s.pos..s.pos + s.width]);
        u64::from_le_bytes(v)
    };
    let file = b.len() as u64;
    let (val, name): (u64, &str) = match s.kind {
        SiteKind::UOffset => match rng.below(8) {
            0 => (0, "uoffset_0"),
            1 => (cur.wrapping_add(4), "uoffset_plus_4"),
            2 => (cur.wrapping_sub(4), "uoffset_minus_4"),
            3 => (file, "uoffset_file_len"),
            4 => (0xffff_fffc, "uoffset_minus_4_wrapped"),
            5 => (0x7fff_ffff, "uoffset_2p31"),
            6 => (cur ^ 2, "uoffset_misaligned"),
            _ => (rng.below(file as usize + 1) as u64 & !3, "uoffset_random_aligned"),
        },
        SiteKind::VecLen => match rng.below(7) {
            0 => (cur + 1, "veclen_plus_1"),
            1 => (cur.saturating_sub(1), "veclen_minus_1"),
            2 => (0, "veclen_0"),
            3 => (0x7fff_ffff, "veclen_2p31"),
            4 => (0xffff_ffff, "veclen_u32max"),
            5 => (file / 4, "veclen_file_quarter"),
            _ => (cur * 2 + 1, "veclen_doubled"),
        },
        SiteKind::ShapeDim => match rng.below(6) {
            0 => (cur + 1, "dim_plus_1"),
            1 => (0, "dim_0"),
            2 => (0xffff_ffff, "dim_u32max"),
            3 => (1 << 16, "dim_2p16"),
            4 => (1 << 31, "dim_2p31"),
            _ => (cur.saturating_sub(1), "dim_minus_1"),
        },
        SiteKind::DataOffset => match rng.below(7) {
            0 => (file, "data_offset_file_len"),
            1 => (u64::MAX, "data_offset_u64max"),
            2 => (1 << 63, "data_offset_2p63"),
            3 => (cur + 1, "data_offset_plus_1"),
            4 => (cur.wrapping_sub(1), "data_offset_minus_1"),
            5 => (0u64.wrapping_sub(file), "data_offset_minus_file_len"),
            _ => (1 << 32, "data_offset_2p32"),
        },
        SiteKind::Tag => (rng.below(8) as u64, "union_tag"),
        SiteKind::VtEntry => match rng.below(5) {
            0 => (0, "vt_entry_absent"),
            1 => (cur + 4, "vt_entry_plus_4"),
            2 => (0xfffc, "vt_entry_far"),
            3 => (cur ^ 1, "vt_entry_misaligned"),
            _ => (4, "vt_entry_first_slot"),
        },
        SiteKind::VtSize => match rng.below(4) {
            0 => (cur + 2, "vt_size_plus_2"),
            1 => (cur.saturating_sub(2), "vt_size_minus_2"),
            2 => (0xffff, "vt_size_max"),
            _ => (0, "vt_size_0"),
        },
        SiteKind::SOffset => match rng.below(4) {
            0 => (0, "soffset_0"),
            1 => (cur.wrapping_add(2), "soffset_plus_2"),
            2 => (0x8000_0000, "soffset_min"),
            _ => ((cur as u32 as i32).wrapping_neg() as u32 as u64, "soffset_negated"),
        },
        SiteKind::NodeIndex => match rng.below(6) {
            0 => (cur + 1, "index_plus_1"),
            1 => (0xffff_ffff, "index_minus_1"),
            2 => (0x7fff_ffff, "index_i32max"),
            3 => (0x8000_0000, "index_i32min"),
            4 => (1000, "index_1000"),
            _ => (0, "index_0"),
        },
        SiteKind::Scalar => match rng.below(4) {
            0 => (cur + 1, "scalar_plus_1"),
            1 => (u64::MAX, "scalar_max"),
            2 => (0, "scalar_0"),
            _ => (rng.below(256) as u64, "scalar_random"),
        },
    };
    b[s.pos..s.pos + s.width].copy_from_slice(&val.to_le_bytes()[..s.width]);
    name.to_string()
}
