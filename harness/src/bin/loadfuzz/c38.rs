//! C38: the ONNX protobuf decoder terminates and never panics.
//!
//! Statement decided: "Decoding any byte string as an ONNX message (from a
//! buffer or a file) finishes in time linear in the input size and returns a
//! message or an error; field lengths larger than the remaining input are
//! errors."
//!
//! Monitors, per input:
//!  * panics: `catch_unwind` around every entry point;
//!  * linear time, as logical bounds instead of a clock. The decoder is
//!    generic over `ReadValue`, so the real `ValueReader` is wrapped in
//!    `reader::Counting` (primitive calls) and sits on `reader::IoMon`
//!    (byte-level `fill_buf`/`read`/`seek` calls):
//!      - the position never decreases across a primitive call;
//!      - bytes read in total <= 2*len + 64;
//!      - primitive calls <= 4*len + 64. Derivation: a successful call
//!        consumes >= 1 byte unless it is a zero-length read/skip, and each
//!        of those is preceded by a tag and a length varint (>= 2 bytes), so
//!        with a monotone position: calls <= len (consuming) + len/2
//!        (zero-length) + len/2 + 1 (Eof answers, one per open nesting level,
//!        each level costs >= 2 bytes) + 1 (the failing call) <= 2*len + 2.
//!        The bound used is twice that plus a constant;
//!      - byte-level calls <= 16*len + 256 (at most ~4 per primitive call);
//!        this is what catches a loop inside one `read_varint`;
//!  * allocation: `allocmon` records the largest single request. Violation if
//!    a request made inside `read_bytes/read_string(len)` with `len` beyond
//!    the remaining input exceeds 16*len + 1 MiB, or if any request exceeds
//!    512*len + 1 MiB (512: the decoder legitimately builds ~216-byte
//!    `TensorProto`s from 2-byte encodings and `Vec` doubling adds 2x, so a
//!    16x bound would be unsound for the *decoded structures*);
//!  * aborts: every case is first decoded in-process in "dry" mode, where the
//!    counting reader does not forward a `read_bytes/read_string(len)` whose
//!    allocation the allocator wrapper would refuse (> 4 GiB + 64 KiB; smaller
//!    requests are served lazily and are harmless). If that happens the case
//!    is repeated in a forked child (8 MiB stack, alarm), where the abort is
//!    observed. Inputs over 128 KiB, the deep-nesting cases (recursion depth)
//!    and `Model::load` always run in a child;
//!  * "lengths larger than the remaining input are errors": the shadow walker
//!    finds the first length-delimited field, at a level the decoder walks,
//!    whose length exceeds the rest of the whole input; if the real decoder
//!    returned `Ok` *and* its recorded call trace equals the walker's
//!    prediction up to and including that length, the field was accepted.
use crate::allocmon;
use crate::child::{self, ChildEnd, ChildRun, Hdr, Shared};
use crate::pbmut::{self, Mutant, NestKind};
use crate::reader::{self, Counting, IoMon, IoState, Mon, MonViolation};
use crate::seeds;
use crate::shadow::{self, Msg, Stop, Walk};
use crate::shrink;
use rten_onnx::onnx::{ModelProto, is_onnx_model};
use rten_onnx::protobuf::{DecodeMessage, ReadPos, ValueReader};
use std::collections::HashSet;
use std::io::{BufReader, Cursor};
use std::sync::atomic::Ordering;
use vcommon::*;

// ---------------------------------------------------------------- entries

#[derive(Clone, Copy, Debug, PartialEq, Eq, Hash)]
pub enum Entry {
    MonBuf = 1,
    ParseBuf = 2,
    Sniff = 3,
    MonFile = 4,
    ParseFile = 5,
    Load = 6,
}

impl Entry {
    pub fn name(self) -> &'static str {
        match self {
            Entry::MonBuf => "decode<buf>+monitors",
            Entry::ParseBuf => "ModelProto::parse_buf",
            Entry::Sniff => "is_onnx_model+monitors",
            Entry::MonFile => "decode<file>+monitors",
            Entry::ParseFile => "ModelProto::parse_file",
            Entry::Load => "ModelOptions::load",
        }
    }
    /// Entry group used in signatures.
    pub fn group(self) -> &'static str {
        match self {
            Entry::MonBuf | Entry::ParseBuf => "parse_buf",
            Entry::MonFile | Entry::ParseFile => "parse_file",
            Entry::Sniff => "is_onnx_model",
            Entry::Load => "Model::load",
        }
    }
    fn from_u32(x: u32) -> Option<Entry> {
        Some(match x {
            1 => Entry::MonBuf,
            2 => Entry::ParseBuf,
            3 => Entry::Sniff,
            4 => Entry::MonFile,
            5 => Entry::ParseFile,
            6 => Entry::Load,
            _ => return None,
        })
    }
}

#[derive(Clone, Copy, Debug, PartialEq)]
pub struct Plan {
    pub buf: bool,
    pub sniff: bool,
    pub file: bool,
    pub load: bool,
    /// Run in a child (8 MiB stack) even if the dry run sees no danger.
    pub child: bool,
}

impl Plan {
    pub fn for_group(group: &str) -> Plan {
        Plan { buf: group == "parse_buf", sniff: group == "is_onnx_model", file: group == "parse_file", load: group == "Model::load", child: false }
    }
}

#[derive(Clone, Debug, Default)]
pub struct EntryOut {
    pub entry: u32,
    /// "ok" | "err" | "panic" | "skipped"
    pub status: String,
    pub msg: String,
    pub max_alloc: u64,
    pub calls: u64,
    pub bytes_read: u64,
    pub bytes_skipped: u64,
    pub io_calls: u64,
    pub zero_row: u64,
    pub neg_seeks: u64,
    /// Monitor violation class, empty if none.
    pub mon: String,
    pub mon_detail: String,
    pub accepted: Option<(u64, u64, u64)>,
    pub last_req: Option<(u64, u64, u64)>,
    /// 1 trace equals the shadow prediction, 0 differs, -1 not applicable.
    pub trace_match: i64,
}

impl EntryOut {
    fn to_json(&self) -> Json {
        json!({
            "e": self.entry, "s": self.status, "m": self.msg, "a": self.max_alloc, "c": self.calls,
            "br": self.bytes_read, "bs": self.bytes_skipped, "io": self.io_calls, "z": self.zero_row,
            "ns": self.neg_seeks, "mon": self.mon, "md": self.mon_detail,
            "acc": self.accepted.map(|t| vec![t.0, t.1, t.2]), "lr": self.last_req.map(|t| vec![t.0, t.1, t.2]),
            "tm": self.trace_match,
        })
    }
    fn from_json(j: &Json) -> EntryOut {
        let t3 = |v: &Json| v.as_array().map(|a| (a[0].as_u64().unwrap_or(0), a[1].as_u64().unwrap_or(0), a[2].as_u64().unwrap_or(0)));
        EntryOut {
            entry: j["e"].as_u64().unwrap_or(0) as u32,
            status: j["s"].as_str().unwrap_or("").to_string(),
            msg: j["m"].as_str().unwrap_or("").to_string(),
            max_alloc: j["a"].as_u64().unwrap_or(0),
            calls: j["c"].as_u64().unwrap_or(0),
            bytes_read: j["br"].as_u64().unwrap_or(0),
            bytes_skipped: j["bs"].as_u64().unwrap_or(0),
            io_calls: j["io"].as_u64().unwrap_or(0),
            zero_row: j["z"].as_u64().unwrap_or(0),
            neg_seeks: j["ns"].as_u64().unwrap_or(0),
            mon: j["mon"].as_str().unwrap_or("").to_string(),
            mon_detail: j["md"].as_str().unwrap_or("").to_string(),
            accepted: t3(&j["acc"]),
            last_req: t3(&j["lr"]),
            trace_match: j["tm"].as_i64().unwrap_or(-1),
        }
    }
}

/// What a decoded model looked like (kept tiny; only for evidence).
fn summarize(m: &ModelProto) -> String {
    format!(
        "nodes={} inits={}",
        m.graph.as_ref().map(|g| g.node.len()).unwrap_or(0),
        m.graph.as_ref().map(|g| g.initializer.len()).unwrap_or(0)
    )
}

fn mon_class(v: &MonViolation) -> (&'static str, String) {
    match v {
        MonViolation::Backwards { call, kind, before, after, arg } => (
            "position_backwards",
            format!("call #{} {}({}) moved the position from {} to {}", call, reader::kind_name(*kind), arg, before, after),
        ),
        MonViolation::BytesRead { bytes } => ("reads>bound", format!("{} bytes read", bytes)),
        MonViolation::Calls { calls } => ("calls>bound", format!("{} primitive calls", calls)),
        MonViolation::AllocByLength { request, len, remaining } => (
            "alloc>bound",
            format!("allocation request of {} bytes for a field of length {} with {} bytes of input remaining", request, len, remaining),
        ),
    }
}

fn fill_from_monitors(out: &mut EntryOut, mon: &Mon, io: &IoState) {
    out.calls = mon.calls;
    out.bytes_read = mon.bytes_read;
    out.bytes_skipped = mon.bytes_skipped;
    out.io_calls = io.calls();
    out.zero_row = io.max_zero_row.get();
    out.neg_seeks = io.neg_seeks.get();
    out.accepted = mon.accepted_overrun.map(|t| (t.0 as u64, t.1, t.2));
    out.last_req = mon.last_req.map(|t| (t.0 as u64, t.1, t.2));
    if let Some(v) = &mon.violation {
        let (c, d) = mon_class(v);
        out.mon = c.to_string();
        out.mon_detail = d;
    } else if io.stopped.get() {
        out.mon = "io_calls>bound".to_string();
        out.mon_detail = format!(
            "{} byte-level calls (fill_buf {} read {} seek {}), longest run of fill_buf+consume(0): {}",
            io.calls(),
            io.fill_calls.get(),
            io.read_calls.get(),
            io.seeks.get(),
            io.max_zero_row.get()
        );
    }
}

fn hang_class(c: &str) -> bool {
    matches!(c, "position_backwards" | "reads>bound" | "calls>bound" | "io_calls>bound")
}

fn set_stage(hdr: Option<&Hdr>, e: Entry) {
    if let Some(h) = hdr {
        h.stage.store(e as u32, Ordering::SeqCst);
    }
}

fn finish_status<T>(out: &mut EntryOut, r: Result<Result<T, String>, String>) {
    match r {
        Ok(Ok(_)) => out.status = "ok".into(),
        Ok(Err(e)) => {
            out.status = "err".into();
            out.msg = e;
        }
        Err(p) => {
            out.status = "panic".into();
            out.msg = p;
        }
    }
}

fn err_kind(e: &rten_onnx::protobuf::ProtobufError) -> String {
    use rten_onnx::protobuf::ErrorKind as K;
    match e.kind() {
        K::IoError(io) => format!("IoError({:?})", io.kind()),
        k => format!("{:?}", k),
    }
}

/// A scratch file that is rewritten in place for every case (no truncate to
/// zero and no unlink per case: the file system here discards freed blocks
/// synchronously, which costs milliseconds).
pub struct TmpFile {
    pub path: String,
    file: std::sync::Mutex<std::fs::File>,
}

impl TmpFile {
    pub fn create(path: &str) -> Option<TmpFile> {
        let file = std::fs::OpenOptions::new().read(true).write(true).create(true).truncate(true).open(path).ok()?;
        Some(TmpFile { path: path.to_string(), file: std::sync::Mutex::new(file) })
    }
    pub fn put(&self, bytes: &[u8]) -> bool {
        use std::io::{Seek, SeekFrom, Write};
        let Ok(mut f) = self.file.lock() else { return false };
        f.seek(SeekFrom::Start(0)).is_ok() && f.write_all(bytes).is_ok() && f.set_len(bytes.len() as u64).is_ok() && f.flush().is_ok()
    }
}

/// Execute the planned entry points on `bytes` in this process.
///
/// With `dry` (in-process runs), the first monitored decode does not forward
/// allocation requests that would abort the process; if one is seen the
/// function returns `None` and the caller repeats the case in a child.
pub fn exec_case(bytes: &[u8], plan: Plan, hdr: Option<&Hdr>, tmp: Option<&TmpFile>, allow_load: bool, dry: Option<u64>) -> Option<Vec<EntryOut>> {
    let mut outs = Vec::new();
    if let (Some(limit), false) = (dry, plan.buf) {
        // The interception lives in the monitored buffer decode.
        let io = IoState::new(bytes.len());
        let mut mon = Mon::new(bytes.len(), false);
        mon.intercept_above = Some(limit);
        let _ = catch(|| {
            let rd = Counting::new(ValueReader::new(ReadPos::new(IoMon::new(Cursor::new(bytes), &io))), &mut mon);
            ModelProto::decode(rd).is_ok()
        });
        if mon.intercepted {
            return None;
        }
    }
    let len = bytes.len();
    let hdr_ptr = hdr.map(|h| h as *const Hdr);
    let mut hang_risk = false;

    if plan.buf {
        // ---- monitored decode from a buffer
        let w = shadow::walk(bytes, Msg::Model);
        let io = IoState::new(len);
        let mut mon = Mon::new(len, true);
        mon.hdr = hdr_ptr;
        mon.intercept_above = dry;
        set_stage(hdr, Entry::MonBuf);
        let mut out = EntryOut { entry: Entry::MonBuf as u32, trace_match: -1, ..Default::default() };
        let (r, max_alloc) = allocmon::measure(|| {
            catch(|| {
                let rd = Counting::new(ValueReader::new(ReadPos::new(IoMon::new(Cursor::new(bytes), &io))), &mut mon);
                ModelProto::decode(rd).map(|m| summarize(&m)).map_err(|e| err_kind(&e))
            })
        });
        out.max_alloc = max_alloc as u64;
        if mon.intercepted {
            return None;
        }
        finish_status(&mut out, r);
        fill_from_monitors(&mut out, &mon, &io);
        if out.mon.is_empty() && out.status != "panic" {
            out.trace_match = shadow::trace_matches(&w.calls, &mon.trace) as i64;
        }
        hang_risk |= hang_class(&out.mon);
        outs.push(out);

        // ---- the public function itself
        let mut out = EntryOut { entry: Entry::ParseBuf as u32, trace_match: -1, ..Default::default() };
        if hang_risk {
            out.status = "skipped".into();
        } else {
            set_stage(hdr, Entry::ParseBuf);
            let (r, max_alloc) = allocmon::measure(|| catch(|| ModelProto::parse_buf(bytes).map(|m| summarize(&m)).map_err(|e| err_kind(&e))));
            out.max_alloc = max_alloc as u64;
            finish_status(&mut out, r);
        }
        outs.push(out);
    }

    if plan.sniff {
        let io = IoState::new(len);
        let mut mon = Mon::new(len, false);
        mon.hdr = hdr_ptr;
        set_stage(hdr, Entry::Sniff);
        let mut out = EntryOut { entry: Entry::Sniff as u32, trace_match: -1, ..Default::default() };
        let (r, max_alloc) = allocmon::measure(|| {
            catch(|| {
                let rd = Counting::new(ValueReader::new(ReadPos::new(IoMon::new(Cursor::new(bytes), &io))), &mut mon);
                if is_onnx_model(rd) { Ok(()) } else { Err("not-onnx".to_string()) }
            })
        });
        out.max_alloc = max_alloc as u64;
        finish_status(&mut out, r);
        fill_from_monitors(&mut out, &mon, &io);
        hang_risk |= hang_class(&out.mon);
        outs.push(out);
    }

    if plan.file && !cfg!(miri) {
        if let Some(tf) = tmp {
            let path = tf.path.as_str();
            if tf.put(bytes) {
                let w = shadow::walk(bytes, Msg::Model);
                let io = IoState::new(len);
                let mut mon = Mon::new(len, true);
                mon.hdr = hdr_ptr;
                set_stage(hdr, Entry::MonFile);
                let mut out = EntryOut { entry: Entry::MonFile as u32, trace_match: -1, ..Default::default() };
                match std::fs::File::open(path) {
                    Ok(file) => {
                        let (r, max_alloc) = allocmon::measure(|| {
                            catch(|| {
                                // Same composition as ValueReader::from_file, with IoMon between
                                // ReadPos and BufReader.
                                let rd = Counting::new(ValueReader::new(ReadPos::new(IoMon::new(BufReader::new(file), &io))), &mut mon);
                                ModelProto::decode(rd).map(|m| summarize(&m)).map_err(|e| err_kind(&e))
                            })
                        });
                        out.max_alloc = max_alloc as u64;
                        finish_status(&mut out, r);
                        fill_from_monitors(&mut out, &mon, &io);
                        if out.mon.is_empty() && out.status != "panic" {
                            out.trace_match = shadow::trace_matches(&w.calls, &mon.trace) as i64;
                        }
                    }
                    Err(_) => out.status = "skipped".into(),
                }
                let file_hang = hang_class(&out.mon);
                outs.push(out);

                let mut out = EntryOut { entry: Entry::ParseFile as u32, trace_match: -1, ..Default::default() };
                if hang_risk || file_hang {
                    out.status = "skipped".into();
                } else {
                    set_stage(hdr, Entry::ParseFile);
                    match std::fs::File::open(path) {
                        Ok(file) => {
                            let (r, max_alloc) =
                                allocmon::measure(|| catch(|| ModelProto::parse_file(file).map(|m| summarize(&m)).map_err(|e| err_kind(&e))));
                            out.max_alloc = max_alloc as u64;
                            finish_status(&mut out, r);
                        }
                        Err(_) => out.status = "skipped".into(),
                    }
                }
                hang_risk |= file_hang;
                outs.push(out);
            }
        }
    }

    if plan.load && allow_load && !cfg!(miri) {
        let mut out = EntryOut { entry: Entry::Load as u32, trace_match: -1, ..Default::default() };
        if hang_risk {
            out.status = "skipped".into();
        } else {
            set_stage(hdr, Entry::Load);
            let data = bytes.to_vec();
            let (r, max_alloc) = allocmon::measure(|| {
                catch(|| rten::ModelOptions::with_all_ops().load(data).map(|_| ()).map_err(|e| format!("{:?}", e.kind())))
            });
            out.max_alloc = max_alloc as u64;
            finish_status(&mut out, r);
        }
        outs.push(out);
    }
    Some(outs)
}

// ---------------------------------------------------------------- running a case

/// In-process decodes run on a 1 GiB stack (main.rs); at <= ~6 KiB of stack
/// per nesting level (ASan) and >= 2 bytes of input per level this is safe.
pub const SAFE_LEN: usize = 128 * 1024;

/// Must the case run in a child regardless of what the dry run says?
/// (`Model::load` can abort outside the decoder; long inputs can nest deeply.)
pub fn needs_child(bytes: &[u8], plan: Plan) -> bool {
    plan.load || plan.child || bytes.len() > SAFE_LEN
}

pub struct CaseOutcome {
    pub outs: Vec<EntryOut>,
    /// Abnormal child end, if any.
    pub crash: Option<ChildRun>,
    pub in_child: bool,
}

pub struct Ctx {
    pub shared: Shared,
    pub tmp: Option<TmpFile>,
    pub tmp_dir: Option<String>,
    pub timeout_s: u32,
}

impl Ctx {
    pub fn new() -> Ctx {
        let shared = Shared::new();
        let (tmp_dir, tmp) = if cfg!(miri) {
            (None, None)
        } else {
            let d = format!("/verif/tmp/{}", std::process::id());
            let _ = std::fs::create_dir_all(&d);
            (Some(d.clone()), TmpFile::create(&format!("{}/case.onnx", d)))
        };
        Ctx { shared, tmp, tmp_dir, timeout_s: 10 }
    }

    pub fn cleanup(&self) {
        if let Some(d) = &self.tmp_dir {
            let _ = std::fs::remove_dir_all(d);
        }
    }

    pub fn run_case(&self, bytes: &[u8], plan: Plan) -> CaseOutcome {
        if cfg!(miri) {
            // No children under Miri: skip what would need one (long inputs,
            // lengths for which the decoder would really allocate megabytes).
            if bytes.len() > 4096 {
                return CaseOutcome { outs: Vec::new(), crash: None, in_child: true };
            }
            return match exec_case(bytes, plan, None, None, false, Some(1 << 20)) {
                Some(outs) => CaseOutcome { outs, crash: None, in_child: false },
                None => CaseOutcome { outs: Vec::new(), crash: None, in_child: true },
            };
        }
        let mut in_proc = None;
        if !needs_child(bytes, plan) {
            in_proc = exec_case(bytes, plan, None, self.tmp.as_ref(), false, Some(allocmon::REFUSE_ABOVE as u64 - 4096));
        }
        if in_proc.is_none() {
            let timeout = self.timeout_s + (bytes.len() >> 16) as u32;
            allocmon::set_shared(self.shared.max_alloc_ptr());
            let run = self.shared.run(timeout, || {
                let outs = exec_case(bytes, plan, Some(self.shared.hdr()), self.tmp.as_ref(), true, None).unwrap_or_default();
                Json::Array(outs.iter().map(|o| o.to_json()).collect()).to_string()
            });
            allocmon::set_shared(std::ptr::null_mut());
            if run.end == ChildEnd::Completed {
                let j: Json = serde_json::from_str(run.result.as_deref().unwrap_or("[]")).unwrap_or(Json::Null);
                let outs = j.as_array().map(|a| a.iter().map(EntryOut::from_json).collect()).unwrap_or_default();
                CaseOutcome { outs, crash: None, in_child: true }
            } else {
                CaseOutcome { outs: Vec::new(), crash: Some(run), in_child: true }
            }
        } else {
            CaseOutcome { outs: in_proc.unwrap(), crash: None, in_child: false }
        }
    }
}

// ---------------------------------------------------------------- judging

#[derive(Clone, Debug)]
pub struct Finding {
    pub entry: Entry,
    pub crash: String,
    pub cause: String,
    pub detail: String,
}

impl Finding {
    pub fn signature(&self) -> String {
        format!("C38|{}|{}|{}", self.entry.group(), self.cause, self.crash)
    }
    fn key(&self) -> (String, String) {
        (self.entry.group().to_string(), self.crash.clone())
    }
}

/// Normalise a panic message for signatures: drop toolchain / registry path
/// prefixes and numbers.
pub fn norm_panic(msg: &str) -> String {
    let mut s = msg.to_string();
    for marker in ["/library/", "/registry/src/"] {
        if let Some(at) = s.find(" @ ") {
            if let Some(p) = s[at..].find(marker) {
                let cut_to = at + p + 1;
                s = format!("{} @ {}", &s[..at], &s[cut_to..]);
            }
        }
    }
    panic_class(&s)
}

fn generic_alloc_bound(len: usize) -> u64 {
    512 * len as u64 + (1 << 20)
}

/// Which kind of hostile input produced the observation (for signatures).
fn cause_of(crash: &str, len: usize, last_req: Option<(u64, u64, u64)>, zero_row: u64) -> String {
    if crash == "io_calls>bound" && zero_row > 8 {
        return "varint_overlong".into();
    }
    if crash == "stack_overflow" {
        return "deep_nesting".into();
    }
    if crash.starts_with("accepted") {
        return "len_gt_remaining".into();
    }
    if let Some((_, pos, l)) = last_req {
        if l > i64::MAX as u64 {
            return "len_wrap".into();
        }
        if pos as u128 + l as u128 > len as u128 {
            return "len_gt_remaining".into();
        }
    }
    "other".into()
}

pub fn judge(bytes: &[u8], oc: &CaseOutcome) -> Vec<Finding> {
    let mut fs: Vec<Finding> = Vec::new();
    let len = bytes.len();
    if let Some(run) = &oc.crash {
        let entry = Entry::from_u32(run.stage);
        let crash = child::crash_class(run);
        let req = if run.req.0 != 0 { Some((run.req.0 as u64, run.req.2, run.req.1)) } else { None };
        if let Some(entry) = entry {
            // `Model::load` crashes cannot be attributed to the decoder from
            // here; the decoder entry points see the same bytes directly.
            // A child killed by the alarm or by SIGKILL is never a finding:
            // non-termination is decided by the logical monitors (which stop
            // the decode themselves), not by a clock on a loaded machine.
            let counts = match entry {
                Entry::Load => false,
                _ => crash != "signal:9" && crash != "timeout",
            };
            if counts {
                let crash2 = if crash == "signal:6" && run.max_alloc > generic_alloc_bound(len) { "abort:alloc".to_string() } else { crash };
                let cause = cause_of(&crash2, len, req, 0);
                fs.push(Finding {
                    entry,
                    cause,
                    detail: format!(
                        "child ended with {:?} while executing {}; largest allocation request {} bytes; last length request {:?}; stderr: {}",
                        run.end,
                        entry.name(),
                        run.max_alloc,
                        req,
                        run.stderr.lines().next().unwrap_or("")
                    ),
                    crash: crash2,
                });
            }
        }
        return fs;
    }
    let walk: Option<Walk> = if oc.outs.iter().any(|o| o.status == "ok" && (o.entry == Entry::MonBuf as u32 || o.entry == Entry::MonFile as u32)) {
        Some(shadow::walk(bytes, Msg::Model))
    } else {
        None
    };
    // last_req of the monitored run in the same group, for unmonitored entries
    let req_of_group = |g: &str| {
        oc.outs.iter().find(|o| Entry::from_u32(o.entry).map(|e| e.group() == g).unwrap_or(false) && o.last_req.is_some()).and_then(|o| o.last_req)
    };
    for o in &oc.outs {
        let Some(entry) = Entry::from_u32(o.entry) else { continue };
        let mut push = |crash: String, detail: String| {
            let req = o.last_req.or_else(|| req_of_group(entry.group()));
            let cause = cause_of(&crash, len, req, o.zero_row);
            let f = Finding { entry, crash, cause, detail };
            if !fs.iter().any(|g| g.key() == f.key()) {
                fs.push(f);
            }
        };
        if o.status == "panic" {
            let attributable = match entry {
                Entry::Load => o.msg.contains("rten-onnx/") || o.msg.contains("model/file_type.rs"),
                _ => true,
            };
            if attributable {
                push(format!("panic:{}", norm_panic(&o.msg)), format!("{} panicked: {}", entry.name(), o.msg));
            }
        }
        if !o.mon.is_empty() {
            push(o.mon.clone(), format!("{}: {}", entry.name(), o.mon_detail));
        }
        if entry != Entry::Load && o.max_alloc > generic_alloc_bound(len) && o.mon != "alloc>bound" {
            push("alloc>bound".to_string(), format!("{}: single allocation request of {} bytes for an input of {} bytes", entry.name(), o.max_alloc, len));
        }
        if o.status == "ok" && (entry == Entry::MonBuf || entry == Entry::MonFile) && o.trace_match == 1 {
            if let Some(Stop::Overrun { len_pos, value, kind, depth, .. }) = walk.as_ref().map(|w| &w.stop) {
                push(
                    format!("accepted:{}", kind.name()),
                    format!(
                        "{} returned Ok although the {} field whose length varint is at offset {} (depth {}) claims {} bytes and only {} bytes of input follow",
                        entry.name(),
                        kind.name(),
                        len_pos,
                        depth,
                        value,
                        len.saturating_sub(*len_pos + shadow::varint_at(bytes, *len_pos).map(|v| v.1).unwrap_or(1))
                    ),
                );
            }
        }
    }
    fs
}

// ---------------------------------------------------------------- generation

#[derive(Clone, Debug)]
pub enum Gen {
    Bytes,
    Deep { kind: NestKind, depth: usize, lie: bool },
}

pub struct Case {
    pub bytes: Vec<u8>,
    pub class: String,
    pub detail: String,
    pub seed_name: &'static str,
    pub gen_: Gen,
    pub structured: bool,
}

struct SeedInfo {
    name: &'static str,
    bytes: Vec<u8>,
    walk: Walk,
}

/// Under ASan every multi-GiB `calloc` costs tens of milliseconds of shadow
/// poisoning, so that flavour draws the 2^31 class less often.
fn big_allocs_are_slow() -> bool {
    std::env::var("VERIF_FLAVOUR").map(|f| f == "asan").unwrap_or(false)
}

fn structured_mutant(rng: &mut Rng, s: &SeedInfo, safe_only: bool, allow_hang_inside_call: bool) -> Option<Mutant> {
    let n_sites = s.walk.sites.len();
    match rng.below(20) {
        0..=11 if n_sites > 0 => {
            let class = match rng.below(12) {
                0..=3 => "len_wrap",
                4 | 5 => "len_2p63",
                6 | 7 if !big_allocs_are_slow() || rng.chance(1, 8) => "len_2p31",
                6 | 7 => "len_gt_remaining",
                8 | 9 => "len_gt_remaining",
                10 => "len_short",
                _ => "len_nested_overrun",
            };
            let site = rng.below(n_sites);
            pbmut::mutate_len_site(rng, class, &s.bytes, &s.walk, site, safe_only)
        }
        12 | 13 => pbmut::mutate_wire_type(rng, &s.bytes, &s.walk),
        14 | 15 => pbmut::mutate_varint_trunc(rng, &s.bytes, &s.walk),
        16 | 17 => pbmut::mutate_varint_overlong(rng, &s.bytes, &s.walk, false),
        18 if allow_hang_inside_call => pbmut::mutate_varint_overlong(rng, &s.bytes, &s.walk, true),
        _ => {
            let donors: Vec<Vec<u8>> = vec![s.bytes.clone()];
            let (bytes, class) = pbmut::noise(rng, &s.bytes, &donors);
            Some(Mutant { bytes, class, detail: String::new() })
        }
    }
}

// ---------------------------------------------------------------- the run

pub struct Runner<'a> {
    pub rep: &'a mut Report,
    pub ctx: &'a Ctx,
    seen: HashSet<(String, String)>,
    pub max_shrink_exec: usize,
    pub shrink_time_box_s: f64,
    pub mismatch_examples: Vec<Json>,
}

impl<'a> Runner<'a> {
    pub fn new(rep: &'a mut Report, ctx: &'a Ctx) -> Self {
        Runner { rep, ctx, seen: HashSet::new(), max_shrink_exec: 250, shrink_time_box_s: 3.0, mismatch_examples: Vec::new() }
    }

    fn evidence(&mut self, case: &Case, oc: &CaseOutcome) {
        let rep = &mut *self.rep;
        rep.eval();
        rep.count(&format!("mut.{}", case.class));
        rep.count(&format!("seed.{}", case.seed_name));
        if oc.in_child {
            rep.count("ran_in_child");
        }
        if let Some(run) = &oc.crash {
            rep.count(&format!("child_end.{}", child::crash_class(run)));
            if let Some(e) = Entry::from_u32(run.stage) {
                rep.count(&format!("child_end_in.{}", e.group()));
            }
        }
        let len = case.bytes.len().max(1) as u64;
        let mut deep_enough = false;
        for o in &oc.outs {
            let Some(e) = Entry::from_u32(o.entry) else { continue };
            rep.count(&format!("inputs.{}", e.name()));
            rep.count(&format!("{}.{}", o.status, e.name()));
            if o.status == "err" && e == Entry::MonBuf {
                rep.count(&format!("err_kind.{}", o.msg));
            }
            if o.status == "panic" {
                rep.count("panics_seen");
                if e == Entry::Load {
                    rep.count("load_panics_any_location");
                }
            }
            if e == Entry::MonBuf || e == Entry::MonFile || e == Entry::Sniff {
                rep.max("max_bytes_read_per_1000_input_bytes", o.bytes_read * 1000 / len);
                rep.max("max_primitive_calls_per_1000_input_bytes", o.calls * 1000 / len);
                rep.max("max_io_calls_per_1000_input_bytes", o.io_calls * 1000 / len);
                rep.add("primitive_calls_total", o.calls);
                if o.calls > 8 {
                    deep_enough = true;
                }
                if o.trace_match == 1 {
                    rep.count("trace_equals_shadow_prediction");
                } else if o.trace_match == 0 {
                    rep.count("trace_differs_from_shadow_prediction");
                    if self.mismatch_examples.len() < 5 && case.bytes.len() < 3000 {
                        self.mismatch_examples.push(json!({"hex": to_hex(&case.bytes), "class": case.class, "detail": case.detail, "status": o.status, "msg": o.msg}));
                    }
                }
                if o.accepted.is_some() {
                    rep.count("reader_level_overrun_accepted");
                }
            }
            if e != Entry::Load {
                rep.max("max_alloc_request_per_1000_input_bytes", o.max_alloc.saturating_mul(1000) / len);
                rep.max("max_alloc_request_bytes", o.max_alloc);
            }
        }
        if deep_enough || case.structured {
            rep.nontrivial(&case.bytes);
        }
        if rep.wants_sample() && case.structured && !oc.outs.is_empty() && case.bytes.len() < 400 {
            rep.sample(|| {
                json!({"class": case.class, "detail": case.detail, "seed": case.seed_name, "hex": to_hex(&case.bytes),
                       "outcomes": oc.outs.iter().map(|o| format!("{}:{}{}", Entry::from_u32(o.entry).map(|e| e.group()).unwrap_or("?"), o.status, if o.mon.is_empty() { String::new() } else { format!("[{}]", o.mon) })).collect::<Vec<_>>()})
            });
        }
    }

    /// Run one case, judge it, shrink and report findings.
    pub fn run(&mut self, case: &Case, plan: Plan) {
        let t0 = std::time::Instant::now();
        let oc = self.ctx.run_case(&case.bytes, plan);
        self.rep.add(if oc.in_child { "time_us.child_cases" } else { "time_us.inprocess_cases" }, t0.elapsed().as_micros() as u64);
        if oc.in_child && oc.outs.is_empty() && oc.crash.is_none() {
            self.rep.count("skipped_needs_child");
            return;
        }
        self.evidence(case, &oc);
        let walk_stop = shadow::walk(&case.bytes, Msg::Model).stop;
        match walk_stop {
            Stop::Clean => self.rep.count("shadow.clean"),
            Stop::Overrun { .. } => self.rep.count("shadow.first_anomaly_len_gt_remaining_input"),
            Stop::NestedOverrun { .. } => self.rep.count("shadow.first_anomaly_len_gt_enclosing_message(not judged)"),
            Stop::Other(_) => self.rep.count("shadow.first_anomaly_other"),
        }
        let findings = judge(&case.bytes, &oc);
        for f in findings {
            self.rep.count(&format!("finding.{}", f.signature()));
            if !self.seen.insert(f.key()) {
                continue;
            }
            self.report(case, &f);
        }
    }

    fn reproduces(&self, bytes: &[u8], f: &Finding) -> Option<Finding> {
        let plan = Plan { child: f.crash == "stack_overflow", ..Plan::for_group(f.entry.group()) };
        let oc = self.ctx.run_case(bytes, plan);
        judge(bytes, &oc).into_iter().find(|g| g.key() == f.key())
    }

    fn report(&mut self, case: &Case, f: &Finding) {
        let max_exec = if case.bytes.len() > 200_000 { 40 } else { self.max_shrink_exec };
        let t0 = std::time::Instant::now();
        // Time-boxed as well: reproducing an abort needs a child per attempt.
        let box_s = self.shrink_time_box_s;
        let (shrunk, execs) = shrink::ddmin(&case.bytes, max_exec, |cand| t0.elapsed().as_secs_f64() < box_s && self.reproduces(cand, f).is_some());
        self.rep.add("time_us.shrinking", t0.elapsed().as_micros() as u64);
        self.rep.add("shrink_executions", execs as u64);
        let fin = self.reproduces(&shrunk, f).unwrap_or_else(|| f.clone());
        if std::env::var_os("LF_DEBUG").is_some() {
            eprintln!("report: f={} fin={} shrunk={}", f.signature(), fin.signature(), to_hex(&shrunk[..shrunk.len().min(40)]));
        }
        // Confirm logical-bound findings against the plain public function,
        // alone in a child with a wall-clock limit.
        let mut confirm = Json::Null;
        if hang_class(&fin.crash) && !cfg!(miri) && shrunk.len() <= SAFE_LEN {
            let file = fin.entry.group() == "parse_file" && self.ctx.tmp.is_some();
            let tmp = self.ctx.tmp.as_ref();
            let run = self.ctx.shared.run(2, || {
                let r = if file {
                    let tf = tmp.unwrap();
                    tf.put(&shrunk);
                    catch(|| ModelProto::parse_file(std::fs::File::open(&tf.path).unwrap()).is_ok())
                } else if fin.entry == Entry::Sniff {
                    catch(|| is_onnx_model(ValueReader::from_buf(&shrunk[..])))
                } else {
                    catch(|| ModelProto::parse_buf(&shrunk).is_ok())
                };
                format!("{:?}", r)
            });
            confirm = json!({"plain_function_alone_2s": format!("{:?}", run.end), "result": run.result});
            self.rep.count(&format!("confirm_plain.{}", child::crash_class(&run)));
        }
        let hex = if shrunk.len() <= 65536 { Some(to_hex(&shrunk)) } else { None };
        let gen_ = match (&case.gen_, hex.is_none()) {
            (Gen::Deep { kind, depth, lie }, true) => json!({"deep_nest": kind.name(), "depth": depth, "lie": lie}),
            _ => Json::Null,
        };
        let witness = json!({
            "entry": fin.entry.group(),
            "entry_detail": fin.entry.name(),
            "hex": hex,
            "gen": gen_,
            "len": shrunk.len(),
            "original_len": case.bytes.len(),
            "generated_as": case.class,
            "generated_detail": case.detail,
            "seed_model": case.seed_name,
            "crash": fin.crash,
            "cause": fin.cause,
            "observed": fin.detail,
            "confirm": confirm,
        });
        self.rep.violation(fin.signature(), format!("{} [{} bytes: {}]", fin.detail, shrunk.len(), hex.as_deref().map(|h| &h[..h.len().min(80)]).unwrap_or("see gen")), witness);
    }
}

fn bytes_of_witness(w: &Json) -> Option<Vec<u8>> {
    if let Some(h) = w["hex"].as_str() {
        return Some(from_hex(h));
    }
    let g = &w["gen"];
    let kind = NestKind::from_name(g["deep_nest"].as_str()?)?;
    Some(pbmut::deep_nest(kind, g["depth"].as_u64()? as usize, g["lie"].as_bool().unwrap_or(false)))
}

pub const RULE: &str = "Inputs: valid ONNX models built by the harness (all message types the decoder knows, typed/raw/external tensors, nested graphs, sequence types, skipped unknown fields) and the repository's mnist.onnx; structure-aware mutants (every length position the decoder looks at x {2^64-k, 2^63+-k, 2^31/2^32+-k, remaining+k, shorter, longer than the enclosing message}, wire types 3/4/6/7, truncated varints, non-canonical and >10-byte varints, deeply nested graph attributes / sequence types) and byte flips / truncations / splices on top. Entry points: ModelProto::parse_buf, ModelProto::parse_file (temp file), is_onnx_model (sniffing), ModelOptions::load; the decoder additionally runs over a counting ReadValue wrapper and a counting BufRead+Seek wrapper. A case is non-trivial when the monitored decoder made more than 8 primitive reads or the input is a structural mutant of a valid model.";

pub fn run(args: &Args) {
    // Allocation-failure and stack-overflow messages of children are captured
    // from their stderr; keep them short.
    unsafe { std::env::set_var("RUST_BACKTRACE", "0") };
    let mut rep = Report::new("C38", "loadfuzz", args, RULE);
    rep.max_violations = 64;
    rep.max_per_group = 32;
    let ctx = Ctx::new();
    let miri = cfg!(miri);
    let full_plan = Plan { buf: true, sniff: true, file: !miri, load: false, child: false };

    if let Some(path) = &args.replay {
        let text = std::fs::read_to_string(path).expect("read replay file");
        let j: Json = serde_json::from_str(&text).expect("parse replay file");
        let w = if j.get("witness").is_some() { j["witness"].clone() } else { j };
        let bytes = bytes_of_witness(&w).expect("witness has neither hex nor gen");
        let case = Case {
            bytes,
            class: w["generated_as"].as_str().unwrap_or("replay").to_string(),
            detail: w["generated_detail"].as_str().unwrap_or("").to_string(),
            seed_name: "replay",
            gen_: Gen::Bytes,
            structured: true,
        };
        let mut r = Runner::new(&mut rep, &ctx);
        r.run(&case, Plan { load: !miri, child: !miri, ..full_plan });
        ctx.cleanup();
        rep.finish();
        return;
    }

    // ---- seeds and the shadow self-test
    let seed_list = seeds::build(!miri);
    let mut infos: Vec<SeedInfo> = Vec::new();
    let mut selftest_failed: Vec<String> = Vec::new();
    for s in &seed_list {
        let walk = shadow::walk(&s.bytes, Msg::Model);
        let oc = ctx.run_case(&s.bytes, Plan { buf: true, sniff: false, file: false, load: false, child: false });
        if miri && oc.in_child {
            continue;
        }
        let ok = walk.stop == Stop::Clean
            && oc.crash.is_none()
            && oc.outs.first().map(|o| o.status == "ok" && o.trace_match == 1 && o.calls as usize == walk.calls.len()).unwrap_or(false);
        if !ok {
            selftest_failed.push(format!("{}: stop={:?} out={:?}", s.name, walk.stop, oc.outs.first().map(|o| (o.status.clone(), o.msg.clone(), o.trace_match, o.calls, walk.calls.len()))));
        }
        rep.add("seed_length_sites", walk.sites.len() as u64);
        rep.max("seed_max_nesting_depth", walk.max_depth as u64);
        infos.push(SeedInfo { name: s.name, bytes: s.bytes.clone(), walk });
    }
    rep.note("seeds", json!(infos.iter().map(|s| json!({"name": s.name, "bytes": s.bytes.len(), "length_sites": s.walk.sites.len(), "varints": s.walk.varints.len()})).collect::<Vec<_>>()));
    if !selftest_failed.is_empty() {
        rep.inconclusive = Some(format!("shadow walker disagrees with the real decoder on unmutated seeds (schema table out of date?): {}", selftest_failed.join("; ")));
        ctx.cleanup();
        rep.finish();
        return;
    }
    {
        let mut kinds: std::collections::BTreeMap<String, u64> = Default::default();
        for s in &infos {
            for site in &s.walk.sites {
                *kinds.entry(format!("{:?}.{}:{}", site.msg, site.field, site.kind.name())).or_insert(0) += 1;
            }
        }
        rep.note("length_sites_by_field", json!(kinds));
    }

    let budget = args.budget(if miri { 60 } else { 8_000 }, if miri { 600 } else { 2_000_000 });
    let mut done: u64 = 0;
    let shard = args.shard as u64;
    let shards = args.shards.max(1) as u64;
    let mut rng = Rng::derive(args.seed, 0x38_0000 + shard);
    let mut runner = Runner::new(&mut rep, &ctx);
    if args.thorough {
        runner.shrink_time_box_s = 20.0;
    }
    let mut idx: u64 = 0;
    let mine = |idx: &mut u64| {
        let m = *idx % shards == shard;
        *idx += 1;
        m
    };

    // ---- 1. unmutated seeds through every entry point
    for s in &infos {
        if mine(&mut idx) {
            let case = Case { bytes: s.bytes.clone(), class: "seed".into(), detail: String::new(), seed_name: s.name, gen_: Gen::Bytes, structured: true };
            runner.run(&case, Plan { load: !miri, child: !miri, ..full_plan });
            done += 1;
        }
    }

    // ---- 2. every length position x every length class (small seeds
    //         exhaustively; big ones sampled), within half the budget
    let classes: [&'static str; 6] = pbmut::LEN_CLASSES;
    'sys: for s in &infos {
        let n_sites = s.walk.sites.len();
        let stride = if s.bytes.len() > 16 * 1024 { (n_sites / 24).max(1) } else { 1 };
        for site in (0..n_sites).step_by(stride.max(1)) {
            for class in classes {
                if !mine(&mut idx) {
                    continue;
                }
                if done >= budget / 2 {
                    break 'sys;
                }
                if class == "len_2p31" && big_allocs_are_slow() && idx % 8 != 0 {
                    continue;
                }
                let mut r = Rng::derive(args.seed, 0x38_1000_0000 + idx);
                if let Some(m) = pbmut::mutate_len_site(&mut r, class, &s.bytes, &s.walk, site, miri) {
                    let case = Case { bytes: m.bytes, class: m.class.into(), detail: m.detail, seed_name: s.name, gen_: Gen::Bytes, structured: true };
                    let plan = Plan { file: !miri && idx % 2 == 0, load: !miri && idx % 64 == 1, ..full_plan };
                    runner.run(&case, plan);
                    runner.rep.count("systematic_site_x_class");
                    done += 1;
                }
            }
        }
    }

    // ---- 3. deep nesting (children only)
    if !miri {
        let depths: &[usize] = if args.thorough { &[64, 300, 1000, 3000, 10_000, 30_000, 100_000, 300_000] } else { &[64, 3000, 30_000] };
        for kind in [NestKind::GraphAttr, NestKind::TypeSeq, NestKind::UnknownOnly] {
            for &depth in depths {
                for lie in [false, true] {
                    if !mine(&mut idx) {
                        continue;
                    }
                    let bytes = pbmut::deep_nest(kind, depth, lie);
                    let case = Case {
                        bytes,
                        class: "deep_nesting".into(),
                        detail: format!("{} depth {} lie {}", kind.name(), depth, lie),
                        seed_name: "deep",
                        gen_: Gen::Deep { kind, depth, lie },
                        structured: true,
                    };
                    runner.run(&case, Plan { load: false, child: true, ..full_plan });
                    done += 1;
                }
            }
        }
    } else {
        for kind in [NestKind::GraphAttr, NestKind::TypeSeq] {
            let bytes = pbmut::deep_nest(kind, 40, false);
            let case = Case { bytes, class: "deep_nesting".into(), detail: format!("{} depth 40", kind.name()), seed_name: "deep", gen_: Gen::Bytes, structured: true };
            runner.run(&case, full_plan);
            done += 1;
        }
    }

    // ---- 4. random structure-aware mutants, with byte noise on top
    let donors: Vec<Vec<u8>> = infos.iter().map(|s| s.bytes.clone()).collect();
    let small: Vec<usize> = (0..infos.len()).filter(|&i| infos[i].bytes.len() <= 8192).collect();
    let mut overlong_left: u32 = if args.thorough { 400 } else { 24 };
    while done < budget {
        let si = if rng.chance(9, 10) && !small.is_empty() { *rng.choose(&small) } else { rng.below(infos.len()) };
        let s = &infos[si];
        if s.bytes.is_empty() && rng.chance(3, 4) {
            continue;
        }
        let allow_overlong = overlong_left > 0;
        let Some(m) = structured_mutant(&mut rng, s, miri, allow_overlong) else { continue };
        if m.class == "varint_overlong" {
            overlong_left = overlong_left.saturating_sub(1);
        }
        let structured = !m.class.starts_with("noise");
        let mut bytes = m.bytes;
        let mut class = m.class.to_string();
        // Under Miri no noise on top of huge lengths: a flipped bit could turn
        // 2^64-k into a length the decoder would really try to allocate.
        if rng.chance(1, 3) && !(miri && class.starts_with("len_")) {
            let (b2, n) = pbmut::noise(&mut rng, &bytes, &donors);
            bytes = b2;
            class = format!("{}+{}", class, n);
        }
        let case = Case { bytes, class, detail: m.detail, seed_name: s.name, gen_: Gen::Bytes, structured };
        let plan = Plan { file: !miri && rng.chance(1, 2), load: !miri && rng.chance(1, 64), ..full_plan };
        runner.run(&case, plan);
        done += 1;
    }

    let examples = std::mem::take(&mut runner.mismatch_examples);
    drop(runner);
    if !examples.is_empty() {
        rep.note("trace_mismatch_examples", Json::Array(examples));
    }
    let n_eval = rep.evaluations;
    let mismatches = rep.counters.get("trace_differs_from_shadow_prediction").copied().unwrap_or(0);
    rep.note(
        "bounds",
        json!({"bytes_read": "2*len+64", "primitive_calls": "4*len+64", "io_calls": "16*len+256", "alloc_in_length_call": "16*len+1MiB", "alloc_any": "512*len+1MiB", "child_alarm_s": ctx.timeout_s}),
    );
    let timeouts = rep.counters.get("child_end.timeout").copied().unwrap_or(0);
    if timeouts * 50 > n_eval.max(50) {
        rep.inconclusive = Some(format!("{} of {} cases were killed by the child alarm (machine overloaded?)", timeouts, n_eval));
    }
    if n_eval > 0 && mismatches * 2 > n_eval {
        // The prediction is only required to match up to the first anomaly, so
        // this never happens unless the schema table is wrong.
        rep.inconclusive = Some(format!("real call traces differ from the shadow prediction on {} of {} cases", mismatches, n_eval));
    }
    ctx.cleanup();
    rep.finish();
}

pub fn bench() {
    let ctx = Ctx::new();
    for kind in [NestKind::GraphAttr, NestKind::TypeSeq, NestKind::UnknownOnly] {
        for depth in [3000usize, 30_000, 100_000] {
            for lie in [false, true] {
                let bytes = pbmut::deep_nest(kind, depth, lie);
                let t = std::time::Instant::now();
                let w = shadow::walk(&bytes, Msg::Model);
                eprintln!("walk {:?} sites {} stop {:?}", t.elapsed(), w.sites.len(), matches!(w.stop, Stop::Clean));
                let t = std::time::Instant::now();
                let oc = ctx.run_case(&bytes, Plan { buf: true, sniff: true, file: true, load: false, child: true });
                eprintln!("deep {} {} lie={} len={} -> {:?} crash={:?} outs={:?}", kind.name(), depth, lie, bytes.len(), t.elapsed(), oc.crash.as_ref().map(|c| (c.end.clone(), c.stage)), oc.outs.iter().map(|o| (o.entry, o.status.clone(), o.mon.clone(), o.calls)).collect::<Vec<_>>());
            }
        }
    }
    let t = std::time::Instant::now();
    for _ in 0..200 {
        let r = ctx.shared.run(5, || "x".to_string());
        assert!(r.end == ChildEnd::Completed);
    }
    eprintln!("trivial child: {:?} per run", t.elapsed() / 200);
    let seeds = seeds::build(true);
    for s in &seeds {
        let plan = Plan { buf: true, sniff: true, file: true, load: false, child: false };
        let t = std::time::Instant::now();
        for _ in 0..50 {
            exec_case(&s.bytes, plan, None, ctx.tmp.as_ref(), false, None);
        }
        let a = t.elapsed() / 50;
        let t = std::time::Instant::now();
        for _ in 0..20 {
            let plan = Plan { load: true, ..plan };
            let oc = ctx.run_case(&s.bytes, plan);
            assert!(oc.crash.is_none());
        }
        eprintln!("{}: {} bytes, in-process {:?}, child+load {:?}", s.name, s.bytes.len(), a, t.elapsed() / 20);
    }
    ctx.cleanup();
}
