//! Counting reader: wraps any `ReadValue` (here the real `ValueReader` over a
//! `Cursor` or a `File`) and records every call the decoder makes. The decoder
//! (`Fields`, `LimitReader`, `DecodeMessage`) is generic over `ReadValue`, so
//! the code that runs is the real decoder; only this shim sits between it and
//! the real primitive reader.
use crate::allocmon;
use crate::child::Hdr;
use rten_onnx::protobuf::{ErrorKind, FieldTypes, OwnedValues, ProtobufError, ReadValue};
use std::sync::atomic::Ordering;

pub const K_VARINT: u8 = 1;
pub const K_I32: u8 = 2;
pub const K_I64: u8 = 3;
pub const K_BYTES: u8 = 4;
pub const K_STRING: u8 = 5;
pub const K_SKIP: u8 = 6;

pub fn kind_name(k: u8) -> &'static str {
    match k {
        K_VARINT => "read_varint",
        K_I32 => "read_i32",
        K_I64 => "read_i64",
        K_BYTES => "read_bytes",
        K_STRING => "read_string",
        K_SKIP => "skip",
        _ => "?",
    }
}

/// One call on the primitive reader.
#[derive(Clone, Copy, Debug, PartialEq)]
pub struct Ev {
    pub kind: u8,
    /// Position before the call.
    pub pos: u64,
    /// Requested length (bytes/string/skip) or returned value (varint).
    pub arg: u64,
    pub ok: bool,
}

#[derive(Clone, Debug, PartialEq)]
pub enum MonViolation {
    /// Position after a call is lower than before it.
    Backwards { call: u64, kind: u8, before: u64, after: u64, arg: u64 },
    /// More than `2*len + 64` bytes read in total.
    BytesRead { bytes: u64 },
    /// More calls than `4*len + 64`.
    Calls { calls: u64 },
    /// A single allocation larger than `16*len + 1 MiB` was requested inside a
    /// `read_bytes/read_string(len)` call whose `len` exceeds the remaining input.
    AllocByLength { request: u64, len: u64, remaining: u64 },
}

/// Monitor state, owned by the caller and borrowed by the reader.
pub struct Mon {
    pub input_len: u64,
    pub calls: u64,
    pub bytes_read: u64,
    pub bytes_skipped: u64,
    pub zero_len_calls: u64,
    pub failed_calls: u64,
    pub last_pos: u64,
    pub violation: Option<MonViolation>,
    pub stopped: bool,
    pub trace: Vec<Ev>,
    pub keep_trace: bool,
    /// First successful length-delimited call whose length exceeded the
    /// remaining input: (kind, pos, len).
    pub accepted_overrun: Option<(u8, u64, u64)>,
    /// Last length-delimited request (including one in flight when a panic
    /// unwinds through the reader): (kind, pos, len).
    pub last_req: Option<(u8, u64, u64)>,
    pub max_call_alloc: u64,
    pub hdr: Option<*const Hdr>,
    /// Dry-run mode: a `read_bytes/read_string(len)` with `len` above this
    /// value (and small enough for `Vec` not to panic) would make the process
    /// abort on allocation failure. It is not forwarded; `intercepted` is set
    /// and the caller repeats the case in a child process.
    pub intercept_above: Option<u64>,
    pub intercepted: bool,
}

impl Mon {
    pub fn new(input_len: usize, keep_trace: bool) -> Mon {
        Mon {
            input_len: input_len as u64,
            calls: 0,
            bytes_read: 0,
            bytes_skipped: 0,
            zero_len_calls: 0,
            failed_calls: 0,
            last_pos: 0,
            violation: None,
            stopped: false,
            trace: Vec::new(),
            keep_trace,
            accepted_overrun: None,
            last_req: None,
            max_call_alloc: 0,
            hdr: None,
            intercept_above: None,
            intercepted: false,
        }
    }

    /// Linear bounds (see c38.rs for the derivation).
    pub fn max_bytes(&self) -> u64 {
        2 * self.input_len + 64
    }
    pub fn max_calls(&self) -> u64 {
        4 * self.input_len + 64
    }
    pub fn alloc_bound(&self) -> u64 {
        16 * self.input_len + (1 << 20)
    }

    fn stop_err() -> ProtobufError {
        ProtobufError::new(ErrorKind::IoError(std::io::Error::other("verif monitor stop")))
    }
}

pub struct Counting<'m, R> {
    inner: R,
    mon: &'m mut Mon,
}

impl<'m, R: ReadValue<Types = OwnedValues>> Counting<'m, R> {
    pub fn new(inner: R, mon: &'m mut Mon) -> Self {
        Counting { inner, mon }
    }

    /// Common bookkeeping around one inner call.
    fn around<T>(
        &mut self,
        kind: u8,
        req_len: Option<u64>,
        f: impl FnOnce(&mut R) -> Result<T, ProtobufError>,
        arg_of: impl FnOnce(&T) -> u64,
    ) -> Result<T, ProtobufError> {
        if self.mon.stopped {
            return Err(Mon::stop_err());
        }
        let before = self.inner.position();
        let m = &mut *self.mon;
        m.calls += 1;
        if before < m.last_pos {
            // Cannot happen (only this shim drives `inner`), but keep the
            // monitor honest.
            m.violation.get_or_insert(MonViolation::Backwards { call: m.calls, kind, before: m.last_pos, after: before, arg: 0 });
            m.stopped = true;
            return Err(Mon::stop_err());
        }
        if let Some(len) = req_len {
            m.last_req = Some((kind, before, len));
            if len == 0 {
                m.zero_len_calls += 1;
            }
            if let Some(h) = m.hdr {
                // Safety: points into the live shared mapping.
                let h = unsafe { &*h };
                h.req_kind.store(kind as u32, Ordering::Relaxed);
                h.req_len.store(len, Ordering::Relaxed);
                h.req_pos.store(before, Ordering::Relaxed);
            }
        }
        if let Some(h) = m.hdr {
            unsafe { &*h }.calls.store(m.calls, Ordering::Relaxed);
        }
        if let (Some(limit), Some(len)) = (m.intercept_above, req_len) {
            if kind != K_SKIP && len > limit && len <= isize::MAX as u64 {
                m.intercepted = true;
                m.stopped = true;
                return Err(Mon::stop_err());
            }
        }
        allocmon::call_reset();
        let r = f(&mut self.inner);
        let call_alloc = allocmon::call_max() as u64;
        let after = self.inner.position();
        let m = &mut *self.mon;
        m.max_call_alloc = m.max_call_alloc.max(call_alloc);
        let arg = match (&r, req_len) {
            (_, Some(len)) => len,
            (Ok(v), None) => arg_of(v),
            (Err(_), None) => 0,
        };
        if m.keep_trace && (m.trace.len() as u64) <= m.max_calls() {
            m.trace.push(Ev { kind, pos: before, arg, ok: r.is_ok() });
        }
        if r.is_err() {
            m.failed_calls += 1;
        }
        if after < before {
            m.violation.get_or_insert(MonViolation::Backwards { call: m.calls, kind, before, after, arg });
            m.stopped = true;
            m.last_pos = after;
            return Err(Mon::stop_err());
        }
        m.last_pos = after;
        let delta = after - before;
        if kind == K_SKIP {
            m.bytes_skipped = m.bytes_skipped.saturating_add(delta);
        } else {
            m.bytes_read = m.bytes_read.saturating_add(delta.min(m.input_len.saturating_sub(before.min(m.input_len))));
        }
        if let Some(len) = req_len {
            let remaining = m.input_len.saturating_sub(before.min(m.input_len));
            if len > remaining {
                if r.is_ok() && m.accepted_overrun.is_none() {
                    m.accepted_overrun = Some((kind, before, len));
                }
                if kind != K_SKIP && call_alloc >= len.min(u64::MAX / 2) && call_alloc > m.alloc_bound() {
                    m.violation.get_or_insert(MonViolation::AllocByLength { request: call_alloc, len, remaining });
                }
            }
        }
        if m.bytes_read > m.max_bytes() {
            m.violation.get_or_insert(MonViolation::BytesRead { bytes: m.bytes_read });
            m.stopped = true;
            return Err(Mon::stop_err());
        }
        if m.calls > m.max_calls() {
            m.violation.get_or_insert(MonViolation::Calls { calls: m.calls });
            m.stopped = true;
            return Err(Mon::stop_err());
        }
        r
    }
}

impl<'m, R: ReadValue<Types = OwnedValues>> ReadValue for Counting<'m, R> {
    type Types = OwnedValues;

    fn read_i32(&mut self) -> Result<i32, ProtobufError> {
        self.around(K_I32, None, |r| r.read_i32(), |v| *v as u32 as u64)
    }

    fn read_i64(&mut self) -> Result<i64, ProtobufError> {
        self.around(K_I64, None, |r| r.read_i64(), |v| *v as u64)
    }

    fn read_varint(&mut self) -> Result<u64, ProtobufError> {
        self.around(K_VARINT, None, |r| r.read_varint(), |v| *v)
    }

    fn read_bytes(&mut self, len: usize) -> Result<<Self::Types as FieldTypes>::Bytes, ProtobufError> {
        self.around(K_BYTES, Some(len as u64), |r| r.read_bytes(len), |_| 0)
    }

    fn read_string(&mut self, len: usize) -> Result<<Self::Types as FieldTypes>::String, ProtobufError> {
        self.around(K_STRING, Some(len as u64), |r| r.read_string(len), |_| 0)
    }

    fn skip(&mut self, len: usize) -> Result<(), ProtobufError> {
        self.around(K_SKIP, Some(len as u64), |r| r.skip(len), |_| 0)
    }

    fn position(&self) -> u64 {
        self.inner.position()
    }
}

// ---------------------------------------------------------------- io level

use std::cell::Cell;
use std::io::{BufRead, Read, Seek, SeekFrom};

/// Counters for the byte-level reader underneath the real `ValueReader`.
/// This is what bounds a loop *inside* one primitive call (e.g. a
/// `read_varint` that keeps calling `fill_buf` without consuming).
#[derive(Default)]
pub struct IoState {
    pub input_len: Cell<u64>,
    pub fill_calls: Cell<u64>,
    pub consumed: Cell<u64>,
    pub read_calls: Cell<u64>,
    pub read_bytes: Cell<u64>,
    pub seeks: Cell<u64>,
    pub neg_seeks: Cell<u64>,
    /// Current / longest run of `fill_buf` + `consume(0)` pairs.
    pub zero_row: Cell<u64>,
    pub max_zero_row: Cell<u64>,
    pub stopped: Cell<bool>,
}

impl IoState {
    pub fn new(input_len: usize) -> IoState {
        let s = IoState::default();
        s.input_len.set(input_len as u64);
        s
    }
    pub fn calls(&self) -> u64 {
        self.fill_calls.get() + self.read_calls.get() + self.seeks.get()
    }
    /// Bound on byte-level calls (see c38.rs).
    pub fn max_calls(&self) -> u64 {
        16 * self.input_len.get() + 256
    }
    fn check(&self) -> std::io::Result<()> {
        if self.stopped.get() || self.calls() > self.max_calls() {
            self.stopped.set(true);
            return Err(std::io::Error::other("verif io monitor stop"));
        }
        Ok(())
    }
}

pub struct IoMon<'s, B> {
    inner: B,
    st: &'s IoState,
}

impl<'s, B> IoMon<'s, B> {
    pub fn new(inner: B, st: &'s IoState) -> Self {
        IoMon { inner, st }
    }
}

impl<B: Read> Read for IoMon<'_, B> {
    fn read(&mut self, buf: &mut [u8]) -> std::io::Result<usize> {
        self.st.read_calls.set(self.st.read_calls.get() + 1);
        self.st.check()?;
        let n = self.inner.read(buf)?;
        self.st.read_bytes.set(self.st.read_bytes.get() + n as u64);
        Ok(n)
    }
}

impl<B: BufRead> BufRead for IoMon<'_, B> {
    fn fill_buf(&mut self) -> std::io::Result<&[u8]> {
        self.st.fill_calls.set(self.st.fill_calls.get() + 1);
        self.st.check()?;
        self.inner.fill_buf()
    }
    fn consume(&mut self, amount: usize) {
        if amount == 0 {
            let z = self.st.zero_row.get() + 1;
            self.st.zero_row.set(z);
            self.st.max_zero_row.set(self.st.max_zero_row.get().max(z));
        } else {
            self.st.zero_row.set(0);
        }
        self.st.consumed.set(self.st.consumed.get() + amount as u64);
        self.inner.consume(amount)
    }
}

impl<B: Seek> Seek for IoMon<'_, B> {
    fn seek(&mut self, pos: SeekFrom) -> std::io::Result<u64> {
        self.st.seeks.set(self.st.seeks.get() + 1);
        if let SeekFrom::Current(o) = pos {
            if o < 0 {
                self.st.neg_seeks.set(self.st.neg_seeks.get() + 1);
            }
        }
        self.st.check()?;
        self.inner.seek(pos)
    }
    fn seek_relative(&mut self, offset: i64) -> std::io::Result<()> {
        self.st.seeks.set(self.st.seeks.get() + 1);
        if offset < 0 {
            self.st.neg_seeks.set(self.st.neg_seeks.get() + 1);
        }
        self.st.check()?;
        self.inner.seek_relative(offset)
    }
}
