//! loadfuzz: hostile-input monitors for the loaders.
//!
//!   loadfuzz c38   ONNX protobuf decoder: panics, aborts, linear-time bounds
//!                  (counting reader), allocation sizes, over-long fields
//!   loadfuzz c34   .npy / .npz / .safetensors: round trips from any layout,
//!                  and malformed files
//!
//! Reusable pieces for C05/C21: `seeds` (valid ONNX models), `shadow`
//! (schema-aware walker -> length sites), `pbmut` (structure-aware mutators),
//! `child` (forked runner with alarm, stderr capture, shared result page),
//! `allocmon` (global allocator monitor), `shrink` (byte-level ddmin).
use vcommon::*;

mod allocmon;
mod c34;
mod c38;
mod child;
mod pbmut;
mod reader;
mod seeds;
mod shadow;
mod shrink;

#[global_allocator]
static GLOBAL: allocmon::MonAlloc = allocmon::MonAlloc;

fn main() {
    run_main(real_main)
}

fn real_main() {
    let args = Args::parse();
    match args.cmd.as_str() {
        "c38" => c38::run(&args),
        "c34" => c34::run(&args),
        "noop" => {}
        other => {
            eprintln!("unknown sub-command {:?}", other);
            std::process::exit(3);
        }
    }
}
