//! loadfuzz: hostile-input monitors for the loaders.
//!
//!   loadfuzz c38   ONNX protobuf decoder: panics, aborts, linear-time bounds
//!                  (counting reader), allocation sizes, over-long fields
//!   loadfuzz c34   .npy / .npz / .safetensors: round trips from any layout,
//!                  and malformed files
//!   loadfuzz c05   Model::load / load_file / load_mmap on hostile ONNX and .rten
//!                  bytes: panics, aborts, sanitizer reports, termination, and
//!                  well-formedness of every constant of every loaded model
//!
//! Reusable pieces for C05/C21: `seeds` (valid ONNX models), `shadow`
//! (schema-aware walker -> length sites), `pbmut` (structure-aware mutators),
//! `child` (forked runner with alarm, stderr capture, shared result page),
//! `allocmon` (global allocator monitor), `shrink` (byte-level ddmin).
use vcommon::*;

mod allocmon;
mod c05;
mod c05exec;
mod c05onnx;
mod c05rten;
mod c05run;
mod c34;
mod c34mal;
mod c38;
mod child;
mod pbmut;
mod reader;
mod seeds;
mod shadow;
mod shrink;

#[global_allocator]
static GLOBAL: allocmon::MonAlloc = allocmon::MonAlloc;

fn main() {
    if cfg!(miri) {
        return run_main(real_main);
    }
    // The engine runs on a thread with a 1 GiB (lazily committed) stack so
    // that recursive decoders cannot overflow the harness's own stack on
    // the inputs it executes in-process (<= 16 KiB). Cases that are *meant* to
    // probe recursion depth run in children on a fresh 8 MiB stack, the size
    // of a normal main thread (see child::Shared::run).
    let h = std::thread::Builder::new().stack_size(1 << 30).spawn(|| run_main(real_main)).expect("spawn engine thread");
    let _ = h.join();
}

fn real_main() {
    let args = Args::parse();
    match args.cmd.as_str() {
        "c38" => c38::run(&args),
        "c34" => c34::run(&args),
        "c05" => c05::run(&args),
        "c05bench" => c05::bench(),
        "noop" => {}
        "bench" => c38::bench(),
        other => {
            eprintln!("unknown sub-command {:?}", other);
            std::process::exit(3);
        }
    }
}
