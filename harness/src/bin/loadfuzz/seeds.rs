//! Valid ONNX seed models built with `vcommon::onnxpb`, covering every
//! message type and field the rten-onnx decoder knows, plus fields it skips
//! (doc strings, sparse tensors, functions, training info, fixed-width and
//! group-typed unknown fields). Reusable for C05/C21.
use vcommon::onnxpb::*;

pub struct Seed {
    pub name: &'static str,
    pub bytes: Vec<u8>,
}

fn vi(name: &str, dtype: i64, dims: &[Dim]) -> Pb {
    value_info(name, dtype, Some(dims))
}

/// ValueInfo whose type is sequence(sequence(tensor)).
fn seq_value_info(name: &str) -> Pb {
    let mut tt = Pb::new();
    tt.int(1, FLOAT);
    let mut ty_inner = Pb::new();
    ty_inner.msg(1, &tt);
    let mut seq_inner = Pb::new();
    seq_inner.msg(1, &ty_inner);
    let mut ty_mid = Pb::new();
    ty_mid.msg(4, &seq_inner).str(6, "denotation");
    let mut seq = Pb::new();
    seq.msg(1, &ty_mid);
    let mut ty = Pb::new();
    ty.msg(4, &seq);
    // unknown TypeProto fields: map_type(5), optional_type(9)
    let mut map = Pb::new();
    map.int(1, INT64).msg(2, &ty_inner);
    ty.msg(5, &map);
    let mut v = Pb::new();
    v.str(1, name).msg(2, &ty).str(3, "doc string of a value");
    v
}

fn metadata(m: &mut Pb, key: &str, value: &str) {
    let mut e = Pb::new();
    e.str(1, key).str(2, value);
    m.msg(14, &e);
}

/// Wrap a graph in a ModelProto with the optional extras.
fn model_with(graph: &Pb, extras: bool) -> Vec<u8> {
    let mut m = Pb::new();
    m.int(1, 9).str(2, "verif-loadfuzz").str(3, "1.2.3");
    if extras {
        m.str(4, "ai.verif").int(5, 7).str(6, "model doc string, skipped by the decoder");
    }
    m.msg(7, graph);
    let mut op = Pb::new();
    op.str(1, "").int(2, 21);
    m.msg(8, &op);
    let mut op2 = Pb::new();
    op2.str(1, "com.microsoft").int(2, 1);
    m.msg(8, &op2);
    if extras {
        metadata(&mut m, "author", "verif");
        metadata(&mut m, "empty", "");
        // training_info(20), functions(25): unknown, skipped
        let mut ti = Pb::new();
        ti.msg(1, graph);
        m.msg(20, &ti);
        let mut f = Pb::new();
        f.str(1, "fn").str(4, "in").str(5, "out").int(13, 1);
        m.msg(25, &f);
        // unknown fixed-width and group fields
        m.fixed64(30, 0x0123_4567_89ab_cdef).f32(31, 1.5);
        m.key(40, 3).key(40, 4);
    }
    m.buf
}

fn seed_mlp() -> Vec<u8> {
    let w: Vec<f32> = (0..12).map(|i| i as f32 * 0.25 - 1.0).collect();
    let b = [0.5f32, -0.5, 0.0];
    let nodes = [
        node("MatMul", "mm", &["x", "w"], &["t0"], &[]),
        node("Add", "add", &["t0", "b"], &["t1"], &[]),
        node("Relu", "relu", &["t1"], &["y"], &[]),
    ];
    let mut g = graph(
        "mlp",
        &nodes,
        &[tensor_f32("w", &[4, 3], &w), tensor_f32("b", &[3], &b)],
        &[vi("x", FLOAT, &[Dim::Sym("batch".into()), Dim::Fixed(4)])],
        &[vi("y", FLOAT, &[Dim::Sym("batch".into()), Dim::Fixed(3)])],
    );
    g.msg(13, &vi("t0", FLOAT, &[Dim::Sym("batch".into()), Dim::Fixed(3)]));
    g.msg(13, &value_info("t1", FLOAT, None));
    g.str(10, "graph doc string");
    model_with(&g, true)
}

/// Tensors using every storage field the decoder reads.
fn seed_typed_tensors() -> Vec<u8> {
    let mut inits = Vec::new();
    // float_data packed and unpacked
    let mut t = Pb::new();
    t.int(1, 2).int(1, 2).int(2, FLOAT).packed_f32(4, &[1.0, -2.0, f32::NAN, f32::INFINITY]).str(8, "f_packed");
    inits.push(t);
    let mut t = Pb::new();
    t.int(1, 2).int(2, FLOAT).f32(4, 1.0).f32(4, 2.0).str(8, "f_unpacked");
    inits.push(t);
    // int32_data packed / unpacked, incl. negative (10-byte varints)
    let mut t = Pb::new();
    t.int(1, 3).int(2, INT32).packed_ints(5, &[1, -1, i32::MAX as i64]).str(8, "i32_packed");
    inits.push(t);
    let mut t = Pb::new();
    t.int(1, 2).int(2, INT8).int(5, 7).int(5, -7).str(8, "i8_unpacked");
    inits.push(t);
    // int64_data
    let mut t = Pb::new();
    t.int(1, 3).int(2, INT64).packed_ints(7, &[i64::MIN, 0, i64::MAX]).str(8, "i64_packed");
    inits.push(t);
    let mut t = Pb::new();
    t.int(1, 1).int(2, INT64).int(7, 42).str(8, "i64_unpacked");
    inits.push(t);
    // double_data packed / unpacked
    let mut t = Pb::new();
    t.int(1, 2).int(2, DOUBLE).key(10, 2);
    let dd: Vec<u8> = [1.5f64, -0.0].iter().flat_map(|v| v.to_le_bytes()).collect();
    varint(dd.len() as u64, &mut t.buf);
    t.raw(&dd).str(8, "f64_packed");
    inits.push(t);
    let mut t = Pb::new();
    t.int(1, 1).int(2, DOUBLE).fixed64(10, 2.5f64.to_bits()).str(8, "f64_unpacked");
    inits.push(t);
    // raw data of several types, scalar and empty
    inits.push(tensor_raw("u8_raw", UINT8, &[5], &[1, 2, 3, 4, 255]));
    inits.push(tensor_raw("bool_raw", BOOL, &[2, 2], &[1, 0, 0, 1]));
    inits.push(tensor_raw("scalar_raw", FLOAT, &[], &1.0f32.to_le_bytes()));
    inits.push(tensor_raw("empty_raw", FLOAT, &[0, 3], &[]));
    inits.push(tensor_i64("i64_raw", &[2], &[-1, 1]));
    inits.push(tensor_i32("i32_raw", &[1], &[9]));
    // external data
    let mut t = Pb::new();
    t.int(1, 4).int(2, FLOAT).str(8, "ext");
    for (k, v) in [("location", "weights.data"), ("offset", "16"), ("length", "16")] {
        let mut e = Pb::new();
        e.str(1, k).str(2, v);
        t.msg(13, &e);
    }
    t.int(14, 1);
    inits.push(t);
    // fields the decoder skips: segment(3), string_data(6), doc_string(12), uint64_data(11)
    let mut t = Pb::new();
    t.int(1, 2).int(2, 8).bytes(6, b"hello").bytes(6, b"").str(12, "tensor doc").str(8, "strings");
    let mut seg = Pb::new();
    seg.int(1, 0).int(2, 2);
    t.msg(3, &seg).packed_ints(11, &[1, 2, 3]);
    inits.push(t);
    let nodes = [node("Identity", "id", &["f_packed"], &["y"], &[])];
    let mut g = graph("typed", &nodes, &inits, &[], &[vi("y", FLOAT, &[Dim::Fixed(2), Dim::Fixed(2)])]);
    // sparse_initializer(15), quantization_annotation(14): skipped
    let mut sp = Pb::new();
    sp.msg(1, &tensor_f32("sp_values", &[1], &[3.0])).msg(2, &tensor_i64("sp_idx", &[1], &[0])).int(3, 4);
    g.msg(15, &sp);
    let mut qa = Pb::new();
    qa.str(1, "y");
    g.msg(14, &qa);
    model_with(&g, false)
}

/// Attributes of every kind and nested graphs (If / Loop).
fn seed_control_flow() -> Vec<u8> {
    let then_g = graph(
        "then",
        &[node("Relu", "r", &["x"], &["then_out"], &[])],
        &[],
        &[],
        &[value_info("then_out", FLOAT, None)],
    );
    let inner_if = graph(
        "inner",
        &[node(
            "If",
            "if_inner",
            &["cond"],
            &["io"],
            &[("then_branch", Attr::Graph(then_g.clone())), ("else_branch", Attr::Graph(then_g.clone()))],
        )],
        &[tensor_f32("c", &[1], &[2.0])],
        &[],
        &[value_info("io", FLOAT, None)],
    );
    let loop_body = graph(
        "body",
        &[node("Add", "a", &["acc", "one"], &["acc_out"], &[]), node("Identity", "i", &["cond_in"], &["cond_out"], &[])],
        &[tensor_f32("one", &[], &[1.0])],
        &[value_info("iter", INT64, Some(&[])), value_info("cond_in", BOOL, Some(&[])), value_info("acc", FLOAT, None)],
        &[value_info("cond_out", BOOL, Some(&[])), value_info("acc_out", FLOAT, None)],
    );
    let mut strings_attr = Pb::new();
    strings_attr.str(1, "names").str(9, "a").str(9, "").str(9, "\u{e9}\u{4e16}").int(20, 8);
    let mut odd_attr = Pb::new();
    // ref_attr_name(21), doc_string(13), tp(14), sparse_tensor(22): skipped
    odd_attr.str(1, "odd").str(21, "ref").str(13, "attr doc").msg(22, &tensor_f32("st", &[1], &[1.0])).int(20, 11);
    let mut n = node(
        "Conv",
        "conv",
        &["x", "", "c"],
        &["conv_out"],
        &[
            ("alpha", Attr::Float(0.25)),
            ("group", Attr::Int(-1)),
            ("auto_pad", Attr::Str("SAME_UPPER".into())),
            ("pads", Attr::Ints(vec![0, 1, -1, i64::MAX])),
            ("scales", Attr::Floats(vec![1.0, 0.5])),
            ("value", Attr::Tensor(tensor_f32("v", &[2], &[1.0, 2.0]))),
        ],
    );
    n.msg(5, &strings_attr).msg(5, &odd_attr).str(6, "node doc string").str(8, "overload");
    let nodes = [
        n,
        node_domain("FusedMatMul", "com.microsoft", "fmm", &["x", "x"], &["f"], &[("alpha", Attr::Float(2.0))]),
        node("If", "if_outer", &["cond"], &["o"], &[("then_branch", Attr::Graph(inner_if.clone())), ("else_branch", Attr::Graph(then_g))]),
        node("Loop", "loop", &["n", "cond", "x"], &["l"], &[("body", Attr::Graph(loop_body))]),
    ];
    let g = graph(
        "cf",
        &nodes,
        &[tensor_f32("c", &[1], &[1.0])],
        &[vi("x", FLOAT, &[Dim::Fixed(1)]), value_info("cond", BOOL, Some(&[])), value_info("n", INT64, Some(&[]))],
        &[value_info("o", FLOAT, None), value_info("l", FLOAT, None)],
    );
    model_with(&g, true)
}

/// Value infos with sequence types, shapes with every dimension form.
fn seed_types() -> Vec<u8> {
    let mut dim_odd = Pb::new();
    dim_odd.int(1, 3).str(3, "DATA_BATCH");
    let mut sh = Pb::new();
    sh.msg(1, &dim_odd);
    let mut empty_dim = Pb::new();
    empty_dim.raw(&[]);
    sh.msg(1, &empty_dim);
    let mut tt = Pb::new();
    tt.int(1, FLOAT).msg(2, &sh);
    let mut ty = Pb::new();
    ty.msg(1, &tt);
    let mut v = Pb::new();
    v.str(1, "odd").msg(2, &ty);
    let nodes = [node("Identity", "id", &["s"], &["s_out"], &[])];
    let mut g = graph(
        "types",
        &nodes,
        &[],
        &[seq_value_info("s"), v, vi("neg", INT64, &[Dim::Fixed(-1), Dim::Fixed(i64::MAX), Dim::Sym("".into())])],
        &[seq_value_info("s_out")],
    );
    g.msg(13, &value_info("no_type", FLOAT, None));
    let mut bare = Pb::new();
    bare.str(1, "bare");
    g.msg(13, &bare);
    model_with(&g, false)
}

fn seed_minimal() -> Vec<u8> {
    let mut m = Pb::new();
    m.int(1, 8);
    let g = Pb::new();
    m.msg(7, &g);
    m.buf
}

/// A larger raw tensor so that length fields need 2-3 byte varints.
fn seed_big_raw() -> Vec<u8> {
    let w: Vec<f32> = (0..5000).map(|i| (i % 97) as f32).collect();
    let g = graph(
        "big",
        &[node("Relu", "r", &["w"], &["y"], &[])],
        &[tensor_f32("w", &[50, 100], &w)],
        &[],
        &[value_info("y", FLOAT, None)],
    );
    model_with(&g, false)
}

pub fn build(include_files: bool) -> Vec<Seed> {
    let mut v = vec![
        Seed { name: "mlp", bytes: seed_mlp() },
        Seed { name: "typed_tensors", bytes: seed_typed_tensors() },
        Seed { name: "control_flow", bytes: seed_control_flow() },
        Seed { name: "types", bytes: seed_types() },
        Seed { name: "minimal", bytes: seed_minimal() },
        Seed { name: "empty", bytes: Vec::new() },
    ];
    if include_files {
        v.push(Seed { name: "big_raw", bytes: seed_big_raw() });
        if let Ok(b) = std::fs::read("/repo/rten-onnx/test-data/mnist.onnx") {
            v.push(Seed { name: "mnist", bytes: b });
        }
    }
    v
}
