//! Shadow walker for the ONNX subset that rten-onnx decodes.
//!
//! Walks a byte string with the same schema table as `rten-onnx/src/onnx.rs`
//! and produces (a) every length position the decoder will look at ("sites",
//! used by the structure-aware mutators), (b) the exact sequence of primitive
//! reader calls the real decoder must make up to the first anomaly (compared
//! with the counting reader's trace, which makes the table self-checking) and
//! (c) a classification of the first anomaly. The only anomaly the C38 oracle
//! draws a conclusion from is `Stop::Overrun`: a length-delimited field, at a
//! level the decoder walks, whose length exceeds the bytes remaining in the
//! whole input.
//!
//! Iterative (explicit stack) so that deeply nested inputs cannot overflow
//! the harness's own stack.
use crate::reader::{Ev, K_BYTES, K_I32, K_I64, K_SKIP, K_STRING, K_VARINT};

#[derive(Clone, Copy, Debug, PartialEq, Eq, Hash)]
pub enum Msg {
    Model,
    SlimModel,
    Graph,
    Node,
    Attribute,
    Tensor,
    ValueInfo,
    Type,
    TypeTensor,
    TypeSequence,
    Shape,
    Dim,
    Opset,
    StrStr,
}

#[derive(Clone, Copy, Debug, PartialEq, Eq, Hash)]
pub enum FK {
    Varint,
    F32,
    Str,
    Bytes,
    Message(Msg),
    /// repeated varint: packed (wire 2) or single (wire 0)
    RepVarint,
    /// repeated fixed32: packed or single (wire 5)
    RepF32,
    /// repeated fixed64: packed or single (wire 1)
    RepF64,
    Unknown,
}

/// Schema table; mirrors the `match field.number()` arms in onnx.rs.
pub fn field_kind(m: Msg, num: u64) -> FK {
    use FK::*;
    match (m, num) {
        (Msg::Model, 1) => Varint,
        (Msg::Model, 2) | (Msg::Model, 3) => Str,
        (Msg::Model, 7) => Message(Msg::Graph),
        (Msg::Model, 8) => Message(Msg::Opset),
        (Msg::Model, 14) => Message(Msg::StrStr),
        (Msg::SlimModel, 1) => Varint,
        (Msg::Graph, 1) => Message(Msg::Node),
        (Msg::Graph, 5) => Message(Msg::Tensor),
        (Msg::Graph, 11) | (Msg::Graph, 12) | (Msg::Graph, 13) => Message(Msg::ValueInfo),
        (Msg::Node, 1) | (Msg::Node, 2) | (Msg::Node, 3) | (Msg::Node, 4) | (Msg::Node, 7) => Str,
        (Msg::Node, 5) => Message(Msg::Attribute),
        (Msg::Attribute, 1) => Str,
        (Msg::Attribute, 2) => F32,
        (Msg::Attribute, 3) => Varint,
        (Msg::Attribute, 4) => Str,
        (Msg::Attribute, 5) => Message(Msg::Tensor),
        (Msg::Attribute, 6) => Message(Msg::Graph),
        (Msg::Attribute, 7) => F32,
        (Msg::Attribute, 8) => Varint,
        (Msg::Attribute, 9) => Str,
        (Msg::Attribute, 20) => Varint,
        (Msg::Tensor, 1) | (Msg::Tensor, 2) | (Msg::Tensor, 14) => Varint,
        (Msg::Tensor, 4) => RepF32,
        (Msg::Tensor, 5) | (Msg::Tensor, 7) => RepVarint,
        (Msg::Tensor, 8) => Str,
        (Msg::Tensor, 9) => Bytes,
        (Msg::Tensor, 10) => RepF64,
        (Msg::Tensor, 13) => Message(Msg::StrStr),
        (Msg::ValueInfo, 1) => Str,
        (Msg::ValueInfo, 2) => Message(Msg::Type),
        (Msg::Type, 1) => Message(Msg::TypeTensor),
        (Msg::Type, 4) => Message(Msg::TypeSequence),
        (Msg::TypeTensor, 1) => Varint,
        (Msg::TypeTensor, 2) => Message(Msg::Shape),
        (Msg::TypeSequence, 1) => Message(Msg::Type),
        (Msg::Shape, 1) => Message(Msg::Dim),
        (Msg::Dim, 1) => Varint,
        (Msg::Dim, 2) => Str,
        (Msg::Opset, 1) => Str,
        (Msg::Opset, 2) => Varint,
        (Msg::StrStr, 1) | (Msg::StrStr, 2) => Str,
        _ => Unknown,
    }
}

#[derive(Clone, Copy, Debug, PartialEq, Eq, Hash)]
pub enum SiteKind {
    Str,
    Bytes,
    Message,
    Packed,
    Skip,
    /// wire type 2 on a field the decoder expects as a scalar (it errors)
    Mismatch,
}

impl SiteKind {
    pub fn name(self) -> &'static str {
        match self {
            SiteKind::Str => "string",
            SiteKind::Bytes => "bytes",
            SiteKind::Message => "message",
            SiteKind::Packed => "packed",
            SiteKind::Skip => "skip",
            SiteKind::Mismatch => "mismatch",
        }
    }
}

/// A length position the decoder looks at.
#[derive(Clone, Debug)]
pub struct Site {
    pub tag_pos: usize,
    pub len_pos: usize,
    pub len_size: usize,
    pub value: u64,
    /// First byte after the length varint.
    pub body: usize,
    pub kind: SiteKind,
    pub msg: Msg,
    pub field: u64,
    pub depth: u32,
}

/// A varint that is not a length: a tag or a scalar/packed value.
#[derive(Clone, Debug)]
pub struct VarSite {
    pub pos: usize,
    pub size: usize,
    pub value: u64,
    pub is_tag: bool,
}

#[derive(Clone, Debug, PartialEq)]
pub enum Stop {
    /// Whole input walked without anomaly.
    Clean,
    /// A length-delimited field longer than the rest of the whole input.
    Overrun { tag_pos: usize, len_pos: usize, value: u64, kind: SiteKind, depth: u32 },
    /// A field longer than its enclosing message but within the input.
    NestedOverrun { len_pos: usize },
    /// Anything else the walker does not model (the decoder errors or its
    /// behaviour is not specified by the property).
    Other(&'static str),
}

pub struct Walk {
    pub sites: Vec<Site>,
    pub varints: Vec<VarSite>,
    /// Predicted primitive calls (kind, pos, arg) up to the anomaly.
    pub calls: Vec<Ev>,
    pub stop: Stop,
    pub max_depth: u32,
    /// Number of wire-type-2 fields of each kind visited.
    pub n_fields: usize,
}

/// Decode a varint at `pos` with the decoder's rules (<= 10 bytes, the tenth
/// byte at most 1). Returns (value, size).
pub fn varint_at(b: &[u8], pos: usize) -> Option<(u64, usize)> {
    let mut v: u64 = 0;
    for i in 0..10 {
        let byte = *b.get(pos + i)?;
        v |= ((byte & 0x7f) as u64) << (7 * i);
        if byte < 0x80 {
            if i == 9 && byte > 1 {
                return None;
            }
            return Some((v, i + 1));
        }
    }
    None
}

const UNBOUNDED: usize = usize::MAX;
/// The walk gives up (no conclusion) on inputs with more length fields.
pub const MAX_SITES: usize = 60_000;

pub fn walk(b: &[u8], root: Msg) -> Walk {
    let n = b.len();
    let mut w = Walk { sites: Vec::new(), varints: Vec::new(), calls: Vec::new(), stop: Stop::Clean, max_depth: 0, n_fields: 0 };
    let mut stack: Vec<(Msg, usize)> = vec![(root, UNBOUNDED)];
    let mut pos = 0usize;
    let call = |w: &mut Walk, kind: u8, pos: usize, arg: u64, ok: bool| {
        if w.calls.len() < 4 * n + 80 {
            w.calls.push(Ev { kind, pos: pos as u64, arg, ok });
        }
    };
    macro_rules! stop {
        ($s:expr) => {{
            w.stop = $s;
            return w;
        }};
    }
    loop {
        let (msg, end) = *stack.last().unwrap();
        let depth = stack.len() as u32 - 1;
        w.max_depth = w.max_depth.max(depth);
        if end == UNBOUNDED {
            if pos >= n {
                // Top level: the decoder asks for a tag and gets Eof.
                call(&mut w, K_VARINT, pos, 0, false);
                w.stop = Stop::Clean;
                return w;
            }
        } else if pos == end {
            // LimitReader::check_has_bytes(1) fails without a primitive call.
            stack.pop();
            continue;
        } else if pos > end {
            stop!(Stop::Other("position_past_limit"));
        }
        let lim = end.min(n);
        // ---- tag
        let Some((tag, tsz)) = varint_at(b, pos) else { stop!(Stop::Other("bad_tag_varint")) };
        if pos + tsz > lim {
            stop!(Stop::Other("tag_crosses_limit"));
        }
        let tag_pos = pos;
        call(&mut w, K_VARINT, pos, tag, true);
        w.varints.push(VarSite { pos, size: tsz, value: tag, is_tag: true });
        pos += tsz;
        let num = tag >> 3;
        let wire = tag & 7;
        let fk = field_kind(msg, num);
        match wire {
            0 => {
                if pos + 1 > lim {
                    stop!(Stop::Other("truncated_value"));
                }
                let Some((v, sz)) = varint_at(b, pos) else { stop!(Stop::Other("bad_value_varint")) };
                if pos + sz > lim {
                    stop!(Stop::Other("value_crosses_limit"));
                }
                call(&mut w, K_VARINT, pos, v, true);
                w.varints.push(VarSite { pos, size: sz, value: v, is_tag: false });
                pos += sz;
                match fk {
                    FK::Varint | FK::RepVarint | FK::Unknown => {}
                    _ => stop!(Stop::Other("type_mismatch")),
                }
            }
            1 => {
                if pos + 8 > lim {
                    stop!(Stop::Other("truncated_value"));
                }
                let v = u64::from_le_bytes(b[pos..pos + 8].try_into().unwrap());
                call(&mut w, K_I64, pos, v, true);
                pos += 8;
                match fk {
                    FK::RepF64 | FK::Unknown => {}
                    _ => stop!(Stop::Other("type_mismatch")),
                }
            }
            5 => {
                if pos + 4 > lim {
                    stop!(Stop::Other("truncated_value"));
                }
                let v = u32::from_le_bytes(b[pos..pos + 4].try_into().unwrap());
                call(&mut w, K_I32, pos, v as u64, true);
                pos += 4;
                match fk {
                    FK::F32 | FK::RepF32 | FK::Unknown => {}
                    _ => stop!(Stop::Other("type_mismatch")),
                }
            }
            3 | 4 => match fk {
                FK::Unknown => {}
                _ => stop!(Stop::Other("group_on_known_field")),
            },
            2 => {
                if pos + 1 > lim {
                    stop!(Stop::Other("truncated_value"));
                }
                let Some((len, sz)) = varint_at(b, pos) else { stop!(Stop::Other("bad_len_varint")) };
                if pos + sz > lim {
                    stop!(Stop::Other("len_crosses_limit"));
                }
                call(&mut w, K_VARINT, pos, len, true);
                let len_pos = pos;
                pos += sz;
                let body = pos;
                let kind = match fk {
                    FK::Str => SiteKind::Str,
                    FK::Bytes => SiteKind::Bytes,
                    FK::Message(_) => SiteKind::Message,
                    FK::RepVarint | FK::RepF32 | FK::RepF64 => SiteKind::Packed,
                    FK::Unknown => SiteKind::Skip,
                    FK::Varint | FK::F32 => SiteKind::Mismatch,
                };
                w.n_fields += 1;
                if w.sites.len() >= MAX_SITES {
                    stop!(Stop::Other("too_many_sites"));
                }
                w.sites.push(Site { tag_pos, len_pos, len_size: sz, value: len, body, kind, msg, field: num, depth });
                if kind == SiteKind::Mismatch {
                    stop!(Stop::Other("type_mismatch"));
                }
                if (body as u128) + (len as u128) > n as u128 {
                    stop!(Stop::Overrun { tag_pos, len_pos, value: len, kind, depth });
                }
                let len = len as usize;
                let fend = body + len;
                if fend > end {
                    stop!(Stop::NestedOverrun { len_pos });
                }
                match fk {
                    FK::Str => {
                        let valid = std::str::from_utf8(&b[body..fend]).is_ok();
                        call(&mut w, K_STRING, pos, len as u64, valid);
                        if !valid {
                            stop!(Stop::Other("bad_utf8"));
                        }
                        pos = fend;
                    }
                    FK::Bytes => {
                        call(&mut w, K_BYTES, pos, len as u64, true);
                        pos = fend;
                    }
                    FK::Unknown => {
                        call(&mut w, K_SKIP, pos, len as u64, true);
                        pos = fend;
                    }
                    FK::Message(m) => {
                        stack.push((m, fend));
                    }
                    FK::RepVarint => {
                        while pos < fend {
                            let Some((v, vsz)) = varint_at(b, pos) else { stop!(Stop::Other("bad_packed_varint")) };
                            if pos + vsz > fend {
                                stop!(Stop::Other("packed_crosses_limit"));
                            }
                            call(&mut w, K_VARINT, pos, v, true);
                            w.varints.push(VarSite { pos, size: vsz, value: v, is_tag: false });
                            pos += vsz;
                        }
                    }
                    FK::RepF32 => {
                        if len % 4 != 0 {
                            stop!(Stop::Other("packed_len_not_multiple"));
                        }
                        while pos < fend {
                            let v = u32::from_le_bytes(b[pos..pos + 4].try_into().unwrap());
                            call(&mut w, K_I32, pos, v as u64, true);
                            pos += 4;
                        }
                    }
                    FK::RepF64 => {
                        if len % 8 != 0 {
                            stop!(Stop::Other("packed_len_not_multiple"));
                        }
                        while pos < fend {
                            let v = u64::from_le_bytes(b[pos..pos + 8].try_into().unwrap());
                            call(&mut w, K_I64, pos, v, true);
                            pos += 8;
                        }
                    }
                    FK::Varint | FK::F32 => unreachable!(),
                }
            }
            _ => stop!(Stop::Other("invalid_wire_type")),
        }
    }
}

/// Does the recorded trace of the real decoder start with the predicted
/// calls? Compares kind and position of every call, and the argument of
/// length-delimited calls and varint results.
pub fn trace_matches(pred: &[Ev], actual: &[Ev]) -> bool {
    if actual.len() < pred.len() {
        return false;
    }
    pred.iter().zip(actual).all(|(p, a)| {
        p.kind == a.kind
            && p.pos == a.pos
            && p.ok == a.ok
            && (!p.ok || p.kind == K_I32 || p.kind == K_I64 || p.arg == a.arg)
    })
}
