//! Shared pieces of simdcheck: ISA selection/execution, element-type trait,
//! aligned scratch buffers.
use rten_simd::verif::{IsaKind, isa_available};
use rten_simd::{SimdOp, f16};

pub const ALL_ISAS: [IsaKind; 3] = [IsaKind::Generic, IsaKind::Avx2, IsaKind::Avx512];

pub fn isa_name(k: IsaKind) -> &'static str {
    match k {
        IsaKind::Generic => "generic",
        IsaKind::Avx2 => "avx2",
        IsaKind::Avx512 => "avx512",
    }
}

pub fn isa_from_name(s: &str) -> Option<IsaKind> {
    match s {
        "generic" => Some(IsaKind::Generic),
        "avx2" => Some(IsaKind::Avx2),
        "avx512" => Some(IsaKind::Avx512),
        _ => None,
    }
}

/// Vector width in bytes of each ISA (documented in rten-simd: generic uses
/// 128-bit arrays, AVX2 256-bit and AVX-512 512-bit registers).
pub fn isa_bytes(k: IsaKind) -> usize {
    match k {
        IsaKind::Generic => 16,
        IsaKind::Avx2 => 32,
        IsaKind::Avx512 => 64,
    }
}

pub fn available_isas() -> Vec<IsaKind> {
    ALL_ISAS.iter().copied().filter(|k| isa_available(*k)).collect()
}

/// Evaluate `op` under `kind` without touching the process-wide hook, by
/// instantiating the public ISA type inside a `#[target_feature]` wrapper that
/// mirrors `rten_simd::dispatch` exactly. This allows different ISAs to run
/// concurrently on different threads. `kind` must be available.
#[inline]
pub fn run_on<Op: SimdOp>(kind: IsaKind, op: Op) -> Op::Output {
    #[cfg(target_arch = "x86_64")]
    {
        use rten_simd::isa::{Avx2Isa, Avx512Isa};

        #[target_feature(enable = "avx512f")]
        #[target_feature(enable = "avx512vl")]
        #[target_feature(enable = "avx512bw")]
        #[target_feature(enable = "avx512dq")]
        #[target_feature(enable = "f16c")]
        unsafe fn go_avx512<Op: SimdOp>(isa: Avx512Isa, op: Op) -> Op::Output {
            op.eval(isa)
        }

        #[target_feature(enable = "avx2")]
        #[target_feature(enable = "avx")]
        #[target_feature(enable = "fma")]
        #[target_feature(enable = "f16c")]
        unsafe fn go_avx2<Op: SimdOp>(isa: Avx2Isa, op: Op) -> Op::Output {
            op.eval(isa)
        }

        match kind {
            IsaKind::Avx512 => {
                let isa = Avx512Isa::new().expect("avx512 unavailable");
                // Safety: `Avx512Isa::new` checked the features.
                return unsafe { go_avx512(isa, op) };
            }
            IsaKind::Avx2 => {
                let isa = Avx2Isa::new().expect("avx2 unavailable");
                // Safety: `Avx2Isa::new` checked the features.
                return unsafe { go_avx2(isa, op) };
            }
            IsaKind::Generic => {}
        }
    }
    #[cfg(not(target_arch = "x86_64"))]
    assert!(kind == IsaKind::Generic);
    op.eval(rten_simd::isa::GenericIsa::new())
}

/// Element types of SIMD vectors.
pub trait El: rten_simd::Elem + Copy + Default + Send + Sync + 'static {
    const NAME: &'static str;
    const BYTES: usize;
    const IS_FLOAT: bool;
    fn raw(self) -> u64;
    fn from_raw(x: u64) -> Self;
}

macro_rules! impl_el_int {
    ($t:ty, $u:ty, $name:expr) => {
        impl El for $t {
            const NAME: &'static str = $name;
            const BYTES: usize = std::mem::size_of::<$t>();
            const IS_FLOAT: bool = false;
            fn raw(self) -> u64 {
                self as $u as u64
            }
            fn from_raw(x: u64) -> Self {
                x as $u as $t
            }
        }
    };
}
impl_el_int!(i8, u8, "i8");
impl_el_int!(u8, u8, "u8");
impl_el_int!(i16, u16, "i16");
impl_el_int!(u16, u16, "u16");
impl_el_int!(i32, u32, "i32");

impl El for f32 {
    const NAME: &'static str = "f32";
    const BYTES: usize = 4;
    const IS_FLOAT: bool = true;
    fn raw(self) -> u64 {
        self.to_bits() as u64
    }
    fn from_raw(x: u64) -> Self {
        f32::from_bits(x as u32)
    }
}

impl El for f16 {
    const NAME: &'static str = "f16";
    const BYTES: usize = 2;
    const IS_FLOAT: bool = true;
    fn raw(self) -> u64 {
        self.to_bits() as u64
    }
    fn from_raw(x: u64) -> Self {
        f16::from_bits(x as u16)
    }
}

/// Reinterpret a slice of plain-old-data as another POD type of the same total
/// size. Panics if sizes/alignment do not fit.
pub fn cast_slice<A: Copy, B: Copy>(xs: &[A]) -> &[B] {
    let bytes = std::mem::size_of_val(xs);
    assert_eq!(bytes % std::mem::size_of::<B>(), 0);
    assert_eq!(xs.as_ptr() as usize % std::mem::align_of::<B>(), 0);
    // Safety: POD types, size and alignment checked.
    unsafe { std::slice::from_raw_parts(xs.as_ptr() as *const B, bytes / std::mem::size_of::<B>()) }
}

pub fn cast_slice_mut<A: Copy, B: Copy>(xs: &mut [A]) -> &mut [B] {
    let bytes = std::mem::size_of_val(xs);
    assert_eq!(bytes % std::mem::size_of::<B>(), 0);
    assert_eq!(xs.as_ptr() as usize % std::mem::align_of::<B>(), 0);
    // Safety: POD types, size and alignment checked.
    unsafe { std::slice::from_raw_parts_mut(xs.as_mut_ptr() as *mut B, bytes / std::mem::size_of::<B>()) }
}

/// 8-byte aligned scratch buffer viewable as any element type.
pub struct Buf {
    v: Vec<u64>,
}

impl Buf {
    pub fn bytes(n: usize) -> Buf {
        Buf { v: vec![0u64; n.div_ceil(8)] }
    }
    pub fn as_slice<T: Copy>(&self, n: usize) -> &[T] {
        &cast_slice::<u64, T>(&self.v)[..n]
    }
    pub fn as_mut<T: Copy>(&mut self, n: usize) -> &mut [T] {
        &mut cast_slice_mut::<u64, T>(&mut self.v)[..n]
    }
    pub fn fill(&mut self, byte: u8) {
        let w = u64::from_ne_bytes([byte; 8]);
        self.v.iter_mut().for_each(|x| *x = w);
    }
}

pub fn hex(x: u64, bytes: usize) -> String {
    format!("0x{:0w$x}", x, w = bytes * 2)
}
