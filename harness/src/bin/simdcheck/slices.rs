//! Slice helpers of rten-simd (simd_map, simd_apply, SimdUnaryOp::map/map_mut,
//! load_pad, load/store(_many), masked pointer load/store, SimdIterable,
//! SliceWriter) on slices placed flush against PROT_NONE pages (after, and
//! separately before, the data) and at every element alignment offset between
//! canaries. Everything runs in a forked child; results come back through a
//! shared mapping; a fault is observed as the child's terminating signal and
//! attributed to the case whose index the child published last.
use std::collections::BTreeMap;
use std::mem::MaybeUninit;

use rten_simd::functional::{simd_apply, simd_map};
use rten_simd::ops::{BitOps, GetBitOps, GetNumOps, GetSimd, NumOps};
use rten_simd::verif::{IsaKind, set_forced_isa};
use rten_simd::{Isa, Mask, Simd, SimdIterable, SimdOp, SimdUnaryOp, SliceWriter, f16};
use vcommon::guard::{GuardPos, Guarded, in_child};
use vcommon::*;

use crate::common::*;

const CAP: usize = 1024;
const MID: usize = 256;

pub const HELPERS: [&str; 19] = [
    "functional.simd_map(src,dst)",
    "functional.simd_map(in_place)",
    "functional.simd_apply<1>",
    "functional.simd_apply<2>",
    "functional.simd_apply<4>",
    "SimdUnaryOp.map",
    "SimdUnaryOp.map_mut",
    "BitOps.load_pad",
    "BitOps.load_ptr_mask+store_ptr_mask",
    "BitOps.load+store+store_uninit",
    "BitOps.load_many+store_many_uninit",
    "SimdIterable.simd_iter(next,tail,len)",
    "Iter.fold",
    "Iter.fold_unroll<4>",
    "Iter.fold_n<2>",
    "Iter.fold_n_unroll<2,2>",
    "SimdIterable.simd_iter_pad",
    "SliceWriter.write_vec+write_scalar",
    "SliceWriter.write_vecs<2>",
];

fn helper_needs_num(h: u8) -> bool {
    !matches!(h, 7 | 8 | 9 | 10 | 17 | 18)
}

#[derive(Clone, Copy, Debug, PartialEq)]
pub struct Case {
    pub isa: u8,
    pub elem: u8,
    pub helper: u8,
    /// 0 = guard page after, 1 = guard page before, 2 = canaries at offset
    pub place: u8,
    pub off: u8,
    pub len: u16,
}

const ELEMS: [&str; 7] = ["i8", "u8", "i16", "u16", "i32", "f32", "f16"];
const ELEM_BYTES: [usize; 7] = [1, 1, 2, 2, 4, 4, 2];

fn place_name(p: u8) -> &'static str {
    match p {
        0 => "guard_after",
        1 => "guard_before",
        _ => "canary",
    }
}

impl Case {
    fn lanes(&self) -> usize {
        isa_bytes(ALL_ISAS[self.isa as usize]) / ELEM_BYTES[self.elem as usize]
    }
    fn to_json(&self) -> Json {
        json!({"isa": isa_name(ALL_ISAS[self.isa as usize]), "elem": ELEMS[self.elem as usize], "helper": HELPERS[self.helper as usize],
               "helper_id": self.helper, "place": place_name(self.place), "off": self.off, "len": self.len, "lanes": self.lanes()})
    }
    fn from_json(w: &Json) -> Case {
        Case {
            isa: ALL_ISAS.iter().position(|k| isa_name(*k) == w["isa"].as_str().unwrap()).unwrap() as u8,
            elem: ELEMS.iter().position(|e| *e == w["elem"].as_str().unwrap()).unwrap() as u8,
            helper: w["helper_id"].as_u64().unwrap() as u8,
            place: match w["place"].as_str().unwrap() {
                "guard_after" => 0,
                "guard_before" => 1,
                _ => 2,
            },
            off: w["off"].as_u64().unwrap() as u8,
            len: w["len"].as_u64().unwrap() as u16,
        }
    }
}

pub fn enumerate(isas: &[IsaKind], thorough: bool) -> Vec<Case> {
    let mut v = Vec::new();
    for (ii, k) in ALL_ISAS.iter().enumerate() {
        if !isas.contains(k) {
            continue;
        }
        for e in 0..7u8 {
            let l = isa_bytes(*k) / ELEM_BYTES[e as usize];
            let offs: Vec<usize> = if thorough {
                (0..l).collect()
            } else {
                let mut o = vec![0, 1, 2, 3, l / 2, l - 1];
                o.retain(|x| *x < l);
                o.sort_unstable();
                o.dedup();
                o
            };
            for h in 0..HELPERS.len() as u8 {
                if ELEMS[e as usize] == "f16" && helper_needs_num(h) {
                    continue;
                }
                let max_len = if h == 8 { l } else { 4 * l + 3 };
                for len in 0..=max_len {
                    v.push(Case { isa: ii as u8, elem: e, helper: h, place: 0, off: 0, len: len as u16 });
                    v.push(Case { isa: ii as u8, elem: e, helper: h, place: 1, off: 0, len: len as u16 });
                    for &off in &offs {
                        v.push(Case { isa: ii as u8, elem: e, helper: h, place: 2, off: off as u8, len: len as u16 });
                    }
                }
            }
        }
    }
    v
}

// ---------------------------------------------------------------- shared memory

struct Shm {
    base: *mut u8,
    len: usize,
}

const SHM_LEN: usize = 4 << 20;
const REC_OFF: usize = 4096;

impl Shm {
    fn new() -> Shm {
        // Safety: plain anonymous shared mapping.
        let p = unsafe {
            libc::mmap(std::ptr::null_mut(), SHM_LEN, libc::PROT_READ | libc::PROT_WRITE, libc::MAP_SHARED | libc::MAP_ANONYMOUS, -1, 0)
        };
        assert!(p != libc::MAP_FAILED);
        Shm { base: p as *mut u8, len: SHM_LEN }
    }
    fn word(&self, i: usize) -> *mut u64 {
        assert!(i < REC_OFF / 8);
        unsafe { (self.base as *mut u64).add(i) }
    }
    fn get(&self, i: usize) -> u64 {
        unsafe { std::ptr::read_volatile(self.word(i)) }
    }
    fn set(&self, i: usize, v: u64) {
        unsafe { std::ptr::write_volatile(self.word(i), v) }
    }
    /// Append one text record (child side).
    fn push(&self, s: &str) {
        let used = self.get(2) as usize;
        let bytes = s.as_bytes();
        if REC_OFF + used + bytes.len() + 1 > self.len {
            self.set(5, self.get(5) + 1);
            return;
        }
        unsafe {
            std::ptr::copy_nonoverlapping(bytes.as_ptr(), self.base.add(REC_OFF + used), bytes.len());
            *self.base.add(REC_OFF + used + bytes.len()) = b'\n';
        }
        self.set(2, (used + bytes.len() + 1) as u64);
    }
    fn records(&self) -> Vec<String> {
        let used = self.get(2) as usize;
        let bytes = unsafe { std::slice::from_raw_parts(self.base.add(REC_OFF), used) };
        String::from_utf8_lossy(bytes).lines().map(|l| l.to_string()).collect()
    }
}

impl Drop for Shm {
    fn drop(&mut self) {
        unsafe {
            libc::munmap(self.base as *mut _, self.len);
        }
    }
}

// word indices
const W_CUR: usize = 0;
const W_DONE: usize = 1;
// 2 = record bytes, 5 = dropped records
const W_DOC_PANICS: usize = 3;
const W_CHECKS: usize = 4;

// ---------------------------------------------------------------- element helpers

pub trait SEl: El + GetBitOps + PartialEq + std::fmt::Debug {
    /// Input pattern value number `k` (small, exactly representable).
    fn pat(k: u64) -> Self;
    fn canary() -> Self {
        Self::from_raw(0xC3C3_C3C3 & ((1u64 << (8 * Self::BYTES)) - 1))
    }
    fn not(self) -> Self {
        Self::from_raw(!self.raw() & ((1u64 << (8 * Self::BYTES)) - 1))
    }
    fn same(self, o: Self) -> bool {
        self.raw() == o.raw()
    }
}

pub trait NEl: SEl + GetNumOps {
    fn add(self, o: Self) -> Self;
    fn zero() -> Self {
        Self::from_raw(0)
    }
}

macro_rules! impl_sel_int {
    ($t:ty) => {
        impl SEl for $t {
            fn pat(k: u64) -> Self {
                ((k * 7 + 3) % 97) as $t
            }
        }
        impl NEl for $t {
            fn add(self, o: Self) -> Self {
                self.wrapping_add(o)
            }
        }
    };
}
impl_sel_int!(i8);
impl_sel_int!(u8);
impl_sel_int!(i16);
impl_sel_int!(u16);
impl_sel_int!(i32);

impl SEl for f32 {
    fn pat(k: u64) -> Self {
        ((k * 7 + 3) % 97) as f32
    }
}
impl NEl for f32 {
    fn add(self, o: Self) -> Self {
        self + o
    }
}
impl SEl for f16 {
    fn pat(k: u64) -> Self {
        f16::from_bits(0x3c00 + ((k * 7 + 3) % 97) as u16)
    }
}

fn uninit<T>(xs: &mut [T]) -> &mut [MaybeUninit<T>] {
    // Safety: same layout; only written through.
    unsafe { std::mem::transmute::<&mut [T], &mut [MaybeUninit<T>]>(xs) }
}

/// What a helper produced besides the destination slice contents.
struct Obs<T> {
    vlen: usize,
    seen: Vec<T>,
    lanes: Vec<T>,
    lanes2: Vec<T>,
    mask: Vec<bool>,
    has_tail: bool,
    ret_ptr: usize,
    ret_len: usize,
    hint: usize,
    panics: u32,
    no_panic: Vec<&'static str>,
}

impl<T> Obs<T> {
    fn new() -> Obs<T> {
        Obs {
            vlen: 0,
            seen: Vec::new(),
            lanes: Vec::new(),
            lanes2: Vec::new(),
            mask: Vec::new(),
            has_tail: false,
            ret_ptr: 0,
            ret_len: usize::MAX,
            hint: usize::MAX,
            panics: 0,
            no_panic: Vec::new(),
        }
    }
}

struct AddOne;

impl<T: NEl> SimdUnaryOp<T> for AddOne {
    #[inline(always)]
    fn eval<I: Isa>(&self, isa: I, x: <T as GetSimd>::Simd<I>) -> <T as GetSimd>::Simd<I> {
        let ops = T::num_ops(isa);
        ops.add(x, ops.one())
    }
}

struct NumCase<'a, T: NEl> {
    helper: u8,
    src: &'a [T],
    dst: &'a mut [T],
    o: &'a mut Obs<T>,
}

impl<T: NEl> SimdOp for NumCase<'_, T> {
    type Output = ();

    #[inline(always)]
    fn eval<I: Isa>(self, isa: I) {
        let ops = T::num_ops(isa);
        let one = ops.one();
        let o = self.o;
        o.vlen = ops.len();
        match self.helper {
            0 => {
                let seen = &mut o.seen;
                let r = simd_map(
                    ops,
                    (self.src, uninit(self.dst)),
                    #[inline(always)]
                    |x| {
                        seen.extend_from_slice(x.to_array().as_ref());
                        ops.add(x, one)
                    },
                );
                o.ret_ptr = r.as_ptr() as usize;
                o.ret_len = r.len();
            }
            1 => {
                let seen = &mut o.seen;
                let r = simd_map(
                    ops,
                    self.dst,
                    #[inline(always)]
                    |x| {
                        seen.extend_from_slice(x.to_array().as_ref());
                        ops.add(x, one)
                    },
                );
                o.ret_ptr = r.as_ptr() as usize;
                o.ret_len = r.len();
            }
            2 | 3 | 4 => {
                let seen = &mut o.seen;
                macro_rules! apply {
                    ($u:expr) => {
                        simd_apply::<_, _, _, $u>(
                            ops,
                            self.dst,
                            #[inline(always)]
                            |x| {
                                seen.extend_from_slice(x.to_array().as_ref());
                                ops.add(x, one)
                            },
                        )
                    };
                }
                let r = match self.helper {
                    2 => apply!(1),
                    3 => apply!(2),
                    _ => apply!(4),
                };
                o.ret_ptr = r.as_ptr() as usize;
                o.ret_len = r.len();
            }
            11 => {
                let mut it = self.src.simd_iter(ops);
                o.hint = it.len();
                for v in it.by_ref() {
                    o.seen.extend_from_slice(v.to_array().as_ref());
                }
                if let Some((v, m)) = it.tail() {
                    o.has_tail = true;
                    o.lanes.extend_from_slice(v.to_array().as_ref());
                    o.mask.extend_from_slice(&m.to_array().as_ref()[..ops.len()]);
                }
            }
            12 => {
                let r = self.src.simd_iter(ops).fold(
                    ops.zero(),
                    #[inline(always)]
                    |acc, x| ops.add(ops.add(acc, x), one),
                );
                o.lanes.extend_from_slice(r.to_array().as_ref());
            }
            13 => {
                let r = self.src.simd_iter(ops).fold_unroll::<4>(
                    ops.zero(),
                    #[inline(always)]
                    |acc, x| ops.add(ops.add(acc, x), one),
                    #[inline(always)]
                    |p, q| ops.add(p, q),
                );
                o.lanes.extend_from_slice(r.to_array().as_ref());
            }
            14 => {
                let r = self.src.simd_iter(ops).fold_n::<2>(
                    [ops.zero(), ops.zero()],
                    #[inline(always)]
                    |[p, q], x| [ops.add(ops.add(p, x), one), ops.add(ops.add(q, x), x)],
                );
                o.lanes.extend_from_slice(r[0].to_array().as_ref());
                o.lanes2.extend_from_slice(r[1].to_array().as_ref());
            }
            15 => {
                let r = self.src.simd_iter(ops).fold_n_unroll::<2, 2>(
                    [ops.zero(), ops.zero()],
                    #[inline(always)]
                    |[p, q], x| [ops.add(ops.add(p, x), one), ops.add(ops.add(q, x), x)],
                    #[inline(always)]
                    |[p0, q0], [p1, q1]| [ops.add(p0, p1), ops.add(q0, q1)],
                );
                o.lanes.extend_from_slice(r[0].to_array().as_ref());
                o.lanes2.extend_from_slice(r[1].to_array().as_ref());
            }
            16 => {
                let it = self.src.simd_iter_pad(ops);
                o.hint = it.len();
                for v in it {
                    o.seen.extend_from_slice(v.to_array().as_ref());
                }
            }
            h => panic!("harness: helper {} is not a NumOps helper", h),
        }
    }
}

struct BitCase<'a, T: SEl> {
    helper: u8,
    src: &'a [T],
    dst: &'a mut [T],
    o: &'a mut Obs<T>,
}

impl<T: SEl> SimdOp for BitCase<'_, T> {
    type Output = ();

    #[inline(always)]
    fn eval<I: Isa>(self, isa: I) {
        let ops = T::bit_ops(isa);
        let l = ops.len();
        let o = self.o;
        o.vlen = l;
        let n = self.src.len();
        let (src, dst) = (self.src, self.dst);
        match self.helper {
            7 => {
                let (v, m) = ops.load_pad(src);
                o.lanes.extend_from_slice(v.to_array().as_ref());
                o.mask.extend_from_slice(&m.to_array().as_ref()[..l]);
            }
            8 => {
                let k = n.min(l);
                let m = ops.first_n_mask(k);
                // Safety: the first `k` lanes are inside `src` / `dst`.
                unsafe {
                    let v = ops.load_ptr_mask(src.as_ptr(), m);
                    o.lanes.extend_from_slice(v.to_array().as_ref());
                    ops.store_ptr_mask(ops.not(v), dst.as_mut_ptr(), m);
                }
            }
            9 => {
                // load / store / store_uninit: documented to panic when the
                // slice is shorter than a vector.
                let short = n < l;
                match catch(|| ops.load(src)) {
                    Ok(v) => {
                        if short {
                            o.no_panic.push("load on a slice shorter than a vector did not panic");
                        }
                        o.lanes.extend_from_slice(v.to_array().as_ref());
                        let nv = ops.not(v);
                        if catch(|| ops.store(nv, dst)).is_ok() && short {
                            o.no_panic.push("store to a slice shorter than a vector did not panic");
                        }
                        if n >= 2 * l {
                            let r = ops.store_uninit(nv, uninit(&mut dst[l..]));
                            o.ret_len = r.len();
                        }
                    }
                    Err(_) => {
                        o.panics += 1;
                        if !short {
                            o.no_panic.push("load panicked although the slice holds a full vector");
                        } else {
                            let z = ops.zero();
                            match catch(|| ops.store(z, dst)) {
                                Ok(()) => o.no_panic.push("store to a slice shorter than a vector did not panic"),
                                Err(_) => o.panics += 1,
                            }
                            match catch(|| ops.store_uninit(z, uninit(dst)).len()) {
                                Ok(_) => o.no_panic.push("store_uninit to a slice shorter than a vector did not panic"),
                                Err(_) => o.panics += 1,
                            }
                        }
                    }
                }
            }
            10 => {
                let short = n < 2 * l;
                match catch(|| ops.load_many::<2>(src)) {
                    Ok(vs) => {
                        if short {
                            o.no_panic.push("load_many<2> on a slice shorter than two vectors did not panic");
                        }
                        o.lanes.extend_from_slice(vs[0].to_array().as_ref());
                        o.lanes.extend_from_slice(vs[1].to_array().as_ref());
                        let nvs = [ops.not(vs[0]), ops.not(vs[1])];
                        match catch(|| ops.store_many_uninit(nvs, uninit(dst)).len()) {
                            Ok(k) => {
                                o.ret_len = k;
                                if short {
                                    o.no_panic.push("store_many_uninit<2> to a slice shorter than two vectors did not panic");
                                }
                            }
                            Err(_) => {
                                o.panics += 1;
                                if !short {
                                    o.no_panic.push("store_many_uninit<2> panicked although the slice holds two vectors");
                                }
                            }
                        }
                    }
                    Err(_) => {
                        o.panics += 1;
                        if !short {
                            o.no_panic.push("load_many<2> panicked although the slice holds two vectors");
                        } else {
                            let z = [ops.zero(), ops.zero()];
                            match catch(|| ops.store_many_uninit(z, uninit(dst)).len()) {
                                Ok(_) => o.no_panic.push("store_many_uninit<2> to a slice shorter than two vectors did not panic"),
                                Err(_) => o.panics += 1,
                            }
                        }
                    }
                }
            }
            17 | 18 => {
                let mut w = SliceWriter::new(uninit(dst));
                let mut rest = src;
                if self.helper == 18 {
                    while rest.len() >= 2 * l {
                        let vs = ops.load_many::<2>(rest);
                        w.write_vecs(ops, [ops.not(vs[0]), ops.not(vs[1])]);
                        rest = &rest[2 * l..];
                    }
                }
                while rest.len() >= l {
                    w.write_vec(ops, ops.not(ops.load(rest)));
                    rest = &rest[l..];
                }
                // The remaining space is < l elements: a further vector
                // write is documented to panic.
                let z = ops.zero();
                let over = if self.helper == 18 { catch(|| w.write_vecs(ops, [z, z])) } else { catch(|| w.write_vec(ops, z)) };
                match over {
                    Ok(()) => o.no_panic.push("vector write without space did not panic"),
                    Err(_) => o.panics += 1,
                }
                for x in rest {
                    w.write_scalar(x.not());
                }
                match catch(|| w.write_scalar(T::pat(0))) {
                    Ok(()) => o.no_panic.push("write_scalar without space did not panic"),
                    Err(_) => o.panics += 1,
                }
                let r = w.into_mut_slice();
                o.ret_ptr = r.as_ptr() as usize;
                o.ret_len = r.len();
            }
            h => panic!("harness: helper {} is not a BitOps helper", h),
        }
    }
}

// ---------------------------------------------------------------- running one case

struct Bufs<T: Copy> {
    src_after: Guarded<T>,
    src_before: Guarded<T>,
    dst_after: Guarded<T>,
    dst_before: Guarded<T>,
}

impl<T: SEl> Bufs<T> {
    fn new() -> Bufs<T> {
        Bufs {
            src_after: Guarded::new(CAP, T::canary(), GuardPos::After),
            src_before: Guarded::new(CAP, T::canary(), GuardPos::Before),
            dst_after: Guarded::new(CAP, T::canary(), GuardPos::After),
            dst_before: Guarded::new(CAP, T::canary(), GuardPos::Before),
        }
    }
}

fn region(place: u8, off: usize, len: usize) -> std::ops::Range<usize> {
    match place {
        0 => CAP - len..CAP,
        1 => 0..len,
        _ => MID + off..MID + off + len,
    }
}

/// Sum of pattern values at positions congruent to `j` mod `l` below `n`,
/// with `extra(x)` applied per element.
fn lane_fold<T: NEl>(s: &[T], l: usize, f: impl Fn(T, T) -> T) -> Vec<T> {
    let mut acc = vec![T::zero(); l];
    for (i, x) in s.iter().enumerate() {
        acc[i % l] = f(acc[i % l], *x);
    }
    acc
}

fn check_eq<T: SEl>(what: &str, got: &[T], want: &[T], errs: &mut Vec<String>) {
    if got.len() != want.len() {
        errs.push(format!("{}: {} elements, expected {}", what, got.len(), want.len()));
        return;
    }
    for i in 0..got.len() {
        if !got[i].same(want[i]) {
            errs.push(format!("{}[{}] = {} expected {}", what, i, hex(got[i].raw(), T::BYTES), hex(want[i].raw(), T::BYTES)));
            return;
        }
    }
}

type Fails = Vec<(&'static str, String)>;
type NumFn<'f, T> = &'f dyn Fn(u8, &[T], &mut [T], &mut Obs<T>);

/// Raw results kept for checks that need arithmetic on `T`.
struct Last<T> {
    lanes: Vec<T>,
    lanes2: Vec<T>,
    dst: Vec<T>,
}

/// Run one case (in the child). Returns (kind, message) failures and the raw
/// results.
fn run_case<T: SEl>(cd: &Case, bufs: &mut Bufs<T>, num: Option<NumFn<T>>, shm: &Shm) -> (Fails, Option<Last<T>>) {
    let n = cd.len as usize;
    let l = cd.lanes();
    let h = cd.helper;
    let mut fails: Fails = Vec::new();
    let s: Vec<T> = (0..n as u64).map(T::pat).collect();
    let in_place = matches!(h, 1 | 2 | 3 | 4 | 6);
    let src_off = if in_place { cd.off as usize } else { (cd.off as usize * 5 + 3) % l };
    let rs = region(cd.place, src_off, n);
    let rd = region(cd.place, cd.off as usize, n);
    let (gs, gd) = if cd.place == 1 { (&mut bufs.src_before, &mut bufs.dst_before) } else { (&mut bufs.src_after, &mut bufs.dst_after) };
    gs.as_mut_slice().fill(T::canary());
    gd.as_mut_slice().fill(T::canary());
    gs.as_mut_slice()[rs.clone()].copy_from_slice(&s);
    if in_place {
        gd.as_mut_slice()[rd.clone()].copy_from_slice(&s);
    }
    let mut o = Obs::<T>::new();
    let dst_ptr = gd.as_slice()[rd.clone()].as_ptr() as usize;
    {
        let src: &[T] = &gs.as_slice()[rs.clone()];
        let dst: &mut [T] = &mut gd.as_mut_slice()[rd.clone()];
        let r = catch(|| {
            if helper_needs_num(h) {
                (num.expect("numeric helper on a bit-only type"))(h, src, dst, &mut o);
            } else {
                BitCase { helper: h, src, dst, o: &mut o }.dispatch();
            }
        });
        if let Err(msg) = r {
            fails.push(("panic", format!("unexpected panic: {}", msg)));
            return (fails, None);
        }
    }
    shm.set(W_DOC_PANICS, shm.get(W_DOC_PANICS) + o.panics as u64);
    for m in &o.no_panic {
        fails.push(("scalar_mismatch", m.to_string()));
    }
    if o.vlen != 0 && o.vlen != l {
        fails.push(("scalar_mismatch", format!("vector length {} expected {}", o.vlen, l)));
        return (fails, None);
    }
    let mut errs: Vec<String> = Vec::new();
    let not_s: Vec<T> = s.iter().map(|x| x.not()).collect();
    let zero = T::from_raw(0);
    // First `k` elements of `from`, zero-padded to one vector.
    let padded_vec = |from: &[T], k: usize| -> Vec<T> {
        let mut v = from[..k].to_vec();
        v.resize(l, zero);
        v
    };
    let padded_to = |k: usize| -> Vec<T> {
        let mut v = s.clone();
        v.resize(k, zero);
        v
    };
    // Expected destination contents for helpers which do not do arithmetic
    // (None: checked by the caller).
    let mut want_dst: Option<Vec<T>> = Some(vec![T::canary(); n]);
    match h {
        0..=6 => {
            want_dst = None;
            if h <= 4 {
                check_eq("vectors passed to the map closure", &o.seen, &padded_to(n.div_ceil(l) * l), &mut errs);
            }
            if h != 6 && (o.ret_len != n || (n > 0 && o.ret_ptr != dst_ptr)) {
                errs.push(format!("returned slice has {} elements at offset {}", o.ret_len, o.ret_ptr as isize - dst_ptr as isize));
            }
        }
        7 => {
            let k = n.min(l);
            check_eq("load_pad lanes", &o.lanes, &padded_vec(&s, k), &mut errs);
            let wm: Vec<bool> = (0..l).map(|j| j < k).collect();
            if o.mask != wm {
                errs.push(format!("load_pad mask {:?} expected first {} lanes", o.mask, k));
            }
        }
        8 => {
            let k = n.min(l);
            let mut w = vec![T::canary(); n];
            w[..k].copy_from_slice(&not_s[..k]);
            want_dst = Some(w);
            check_eq("load_ptr_mask lanes", &o.lanes, &padded_vec(&s, k), &mut errs);
        }
        9 => {
            if n >= l {
                let mut w = vec![T::canary(); n];
                w[..l].copy_from_slice(&not_s[..l]);
                check_eq("load lanes", &o.lanes, &s[..l], &mut errs);
                if n >= 2 * l {
                    w[l..2 * l].copy_from_slice(&not_s[..l]);
                    if o.ret_len != l {
                        errs.push(format!("store_uninit returned {} elements", o.ret_len));
                    }
                }
                want_dst = Some(w);
            }
        }
        10 => {
            if n >= 2 * l {
                let mut w = vec![T::canary(); n];
                w[..2 * l].copy_from_slice(&not_s[..2 * l]);
                want_dst = Some(w);
                check_eq("load_many lanes", &o.lanes, &s[..2 * l], &mut errs);
                if o.ret_len != 2 * l {
                    errs.push(format!("store_many_uninit returned {} elements", o.ret_len));
                }
            }
        }
        11 => {
            let full = n / l * l;
            if o.hint != n / l {
                errs.push(format!("simd_iter().len() = {} expected {}", o.hint, n / l));
            }
            check_eq("simd_iter chunks", &o.seen, &s[..full], &mut errs);
            if (n % l != 0) != o.has_tail {
                errs.push(format!("tail() is_some = {} with {} left-over elements", o.has_tail, n % l));
            } else if o.has_tail {
                check_eq("tail lanes", &o.lanes, &padded_vec(&s[full..], n % l), &mut errs);
                let wm: Vec<bool> = (0..l).map(|j| j < n % l).collect();
                if o.mask != wm {
                    errs.push(format!("tail mask {:?} expected first {} lanes", o.mask, n % l));
                }
            }
        }
        16 => {
            let k = n.div_ceil(l);
            if o.hint != k {
                errs.push(format!("simd_iter_pad().len() = {} expected {}", o.hint, k));
            }
            check_eq("simd_iter_pad chunks", &o.seen, &padded_to(k * l), &mut errs);
        }
        17 | 18 => {
            want_dst = Some(not_s.clone());
            if o.ret_len != n || (n > 0 && o.ret_ptr != dst_ptr) {
                errs.push(format!("into_mut_slice returned {} elements at offset {}", o.ret_len, o.ret_ptr as isize - dst_ptr as isize));
            }
        }
        _ => {}
    }
    let dst_now: Vec<T> = gd.as_slice()[rd.clone()].to_vec();
    if let Some(w) = &want_dst {
        check_eq("destination", &dst_now, w, &mut errs);
    }
    for e in errs {
        fails.push(("scalar_mismatch", e));
    }
    // Canaries: everything outside the destination region, and the whole
    // source buffer, must be unchanged.
    let d = gd.as_slice();
    for i in 0..CAP {
        if !rd.contains(&i) && !d[i].same(T::canary()) {
            fails.push((
                "canary",
                format!("element {} relative to the start of the {}-element destination slice was overwritten with {}", i as isize - rd.start as isize, n, hex(d[i].raw(), T::BYTES)),
            ));
            break;
        }
    }
    let sb = gs.as_slice();
    for i in 0..CAP {
        let want = if rs.contains(&i) { s[i - rs.start] } else { T::canary() };
        if !sb[i].same(want) {
            fails.push(("canary", format!("source buffer element {} relative to the start of the source slice was modified", i as isize - rs.start as isize)));
            break;
        }
    }
    shm.set(W_CHECKS, shm.get(W_CHECKS) + 1);
    (fails, Some(Last { lanes: o.lanes, lanes2: o.lanes2, dst: dst_now }))
}

/// Numeric helpers: run through `run_case` with the NumOps dispatcher, then
/// verify the results that need arithmetic on `T`.
fn run_case_num<T: NEl>(cd: &Case, bufs: &mut Bufs<T>, shm: &Shm) -> Fails {
    let num = |h: u8, src: &[T], dst: &mut [T], o: &mut Obs<T>| match h {
        5 => {
            let r = AddOne.map(src, uninit(dst));
            o.ret_ptr = r.as_ptr() as usize;
            o.ret_len = r.len();
        }
        6 => AddOne.map_mut(dst),
        _ => NumCase { helper: h, src, dst, o }.dispatch(),
    };
    let (mut fails, last) = run_case::<T>(cd, bufs, Some(&num), shm);
    let Some(last) = last else { return fails };
    let n = cd.len as usize;
    let l = cd.lanes();
    let s: Vec<T> = (0..n as u64).map(T::pat).collect();
    let unit: T = if T::NAME == "f32" { T::from_raw(1.0f32.to_bits() as u64) } else { T::from_raw(1) };
    let mut errs: Vec<String> = Vec::new();
    match cd.helper {
        0..=6 => {
            let want: Vec<T> = s.iter().map(|x| x.add(unit)).collect();
            check_eq("destination", &last.dst, &want, &mut errs);
        }
        12 | 13 => {
            let want = lane_fold(&s, l, |acc, x| acc.add(x).add(unit));
            check_eq("fold result lanes", &last.lanes, &want, &mut errs);
        }
        14 | 15 => {
            let want = lane_fold(&s, l, |acc, x| acc.add(x).add(unit));
            check_eq("fold_n accumulator 0 lanes", &last.lanes, &want, &mut errs);
            let want2 = lane_fold(&s, l, |acc, x| acc.add(x).add(x));
            check_eq("fold_n accumulator 1 lanes", &last.lanes2, &want2, &mut errs);
        }
        _ => {}
    }
    for e in errs {
        fails.push(("scalar_mismatch", e));
    }
    fails
}

fn run_case_any(cd: &Case, shm: &Shm, cache: &mut BufCache) -> Fails {
    macro_rules! num {
        ($t:ty, $f:ident) => {{
            if cache.$f.is_none() {
                cache.$f = Some(Bufs::<$t>::new());
            }
            run_case_num::<$t>(cd, cache.$f.as_mut().unwrap(), shm)
        }};
    }
    match cd.elem {
        0 => num!(i8, i8),
        1 => num!(u8, u8),
        2 => num!(i16, i16),
        3 => num!(u16, u16),
        4 => num!(i32, i32),
        5 => num!(f32, f32),
        _ => {
            if cache.f16.is_none() {
                cache.f16 = Some(Bufs::<f16>::new());
            }
            run_case::<f16>(cd, cache.f16.as_mut().unwrap(), None, shm).0
        }
    }
}

#[derive(Default)]
struct BufCache {
    i8: Option<Bufs<i8>>,
    u8: Option<Bufs<u8>>,
    i16: Option<Bufs<i16>>,
    u16: Option<Bufs<u16>>,
    i32: Option<Bufs<i32>>,
    f32: Option<Bufs<f32>>,
    f16: Option<Bufs<f16>>,
}

/// Child body: run cases[start..], publishing the index of the running case.
fn child_body(cases: &[Case], start: usize, shm: &Shm) -> i32 {
    let mut cache = BufCache::default();
    let mut cur_isa = u8::MAX;
    for (i, cd) in cases.iter().enumerate().skip(start) {
        shm.set(W_CUR, i as u64);
        if cd.isa != cur_isa {
            assert!(set_forced_isa(Some(ALL_ISAS[cd.isa as usize])));
            cur_isa = cd.isa;
        }
        for (kind, msg) in run_case_any(cd, shm, &mut cache) {
            shm.push(&serde_json::to_string(&json!({"case": i, "kind": kind, "msg": msg})).unwrap());
        }
        shm.set(W_DONE, i as u64 + 1);
    }
    0
}

fn signal_name(s: i32) -> String {
    match s {
        libc::SIGSEGV => "SIGSEGV".into(),
        libc::SIGBUS => "SIGBUS".into(),
        libc::SIGILL => "SIGILL".into(),
        libc::SIGABRT => "SIGABRT".into(),
        libc::SIGFPE => "SIGFPE".into(),
        other => format!("signal {}", other),
    }
}

fn report(rep: &mut Report, cd: &Case, kind: &str, msg: &str) {
    let sig = format!(
        "C18|{}|{}|{}|{}|place={},len={},off={}",
        HELPERS[cd.helper as usize],
        ELEMS[cd.elem as usize],
        isa_name(ALL_ISAS[cd.isa as usize]),
        kind,
        place_name(cd.place),
        cd.len,
        cd.off
    );
    rep.violation(
        sig,
        format!(
            "{} on a {}-element {} slice ({} lanes per vector, {} ISA, placement {} offset {}): {}",
            HELPERS[cd.helper as usize],
            cd.len,
            ELEMS[cd.elem as usize],
            cd.lanes(),
            isa_name(ALL_ISAS[cd.isa as usize]),
            place_name(cd.place),
            cd.off,
            msg
        ),
        json!({"mode": "slice", "case": cd.to_json(), "kind": kind, "msg": msg}),
    );
}

/// Run `cases` in forked children; restart after a fault.
fn run_cases(rep: &mut Report, cases: &[Case]) -> (usize, u64) {
    let mut start = 0usize;
    let mut faults = 0u64;
    let mut executed = 0usize;
    // Keep only the first (smallest-length) failure per (helper, elem, isa, kind).
    let mut first: BTreeMap<(u8, u8, u8, String), (Case, String)> = BTreeMap::new();
    while start < cases.len() {
        let shm = Shm::new();
        shm.set(W_CUR, start as u64);
        shm.set(W_DONE, start as u64);
        let res = in_child(|| child_body(cases, start, &shm));
        rep.add("slice_documented_panics_observed", shm.get(W_DOC_PANICS));
        rep.add("slice_cases_verified", shm.get(W_CHECKS));
        if shm.get(5) > 0 {
            rep.add("slice_records_dropped", shm.get(5));
        }
        for line in shm.records() {
            if let Ok(r) = serde_json::from_str::<Json>(&line) {
                let cd = cases[r["case"].as_u64().unwrap() as usize];
                let kind = r["kind"].as_str().unwrap().to_string();
                first.entry((cd.helper, cd.elem, cd.isa, kind)).or_insert((cd, r["msg"].as_str().unwrap().to_string()));
            }
        }
        let done = shm.get(W_DONE) as usize;
        executed += done - start;
        match res {
            Ok(0) => break,
            Ok(code) => {
                rep.inconclusive = Some(format!("slice child exited with status {} at case {}", code, shm.get(W_CUR)));
                break;
            }
            Err(sig) => {
                let cur = shm.get(W_CUR) as usize;
                let cd = cases[cur.min(cases.len() - 1)];
                faults += 1;
                first
                    .entry((cd.helper, cd.elem, cd.isa, "fault".to_string()))
                    .or_insert((cd, format!("the process was killed by {} while this helper ran", signal_name(sig))));
                start = cur + 1;
                executed += 1;
                if faults >= 64 {
                    rep.note("slice_fault_limit", json!("stopped after 64 faults; remaining cases not executed"));
                    break;
                }
            }
        }
    }
    for ((_, _, _, kind), (cd, msg)) in first {
        report(rep, &cd, &kind, &msg);
    }
    (executed, faults)
}

/// The monitor must be able to see what it claims to see: a one-element read
/// just past (before) a guarded slice has to kill the child with a signal,
/// and an in-bounds access must not.
fn guard_selftest(rep: &mut Report) -> bool {
    let mut seen = 0u64;
    for pos in [GuardPos::After, GuardPos::Before] {
        let g: Guarded<u8> = Guarded::new(100, 7, pos);
        let p = g.as_slice().as_ptr();
        let inside = in_child(|| unsafe { (std::ptr::read_volatile(p) + std::ptr::read_volatile(p.add(99))) as i32 });
        let outside = in_child(|| unsafe {
            let q = if pos == GuardPos::After { p.add(100) } else { p.sub(1) };
            std::ptr::read_volatile(q) as i32
        });
        if inside == Ok(14) && matches!(outside, Err(s) if s == libc::SIGSEGV || s == libc::SIGBUS) {
            seen += 1;
        }
    }
    rep.add("guard_selftest_faults_observed", seen);
    seen == 2
}

pub fn run(rep: &mut Report, args: &Args, isas: &[IsaKind]) {
    let t0 = std::time::Instant::now();
    if !guard_selftest(rep) {
        rep.inconclusive = Some("guard-page self-test failed: an out-of-slice read was not observed as a fault".into());
        return;
    }
    let mut cases = enumerate(isas, args.thorough);
    if args.shards > 1 {
        cases = cases.into_iter().enumerate().filter(|(i, _)| i % args.shards == args.shard).map(|(_, c)| c).collect();
    }
    let (executed, faults) = run_cases(rep, &cases);
    rep.evaluations += executed as u64;
    rep.add("slice_cases_executed", executed as u64);
    rep.add("slice_faults", faults);
    let mut max_len = 0u64;
    let mut offs: BTreeMap<u8, u64> = BTreeMap::new();
    for cd in &cases[..executed.min(cases.len())] {
        rep.nontrivial(&("slice", cd.helper, cd.elem, cd.isa, cd.place));
        match cd.place {
            0 => rep.count("slice_cases_guard_page_after"),
            1 => rep.count("slice_cases_guard_page_before"),
            _ => {
                rep.count("slice_cases_canary_offset");
                *offs.entry(cd.off).or_insert(0) += 1;
            }
        }
        max_len = max_len.max(cd.len as u64);
    }
    rep.max("slice_max_length", max_len);
    rep.add("slice_distinct_alignment_offsets", offs.len() as u64);
    rep.note("slice_helpers", json!(HELPERS));
    rep.note("wall_s_slices", json!(t0.elapsed().as_secs_f64()));
    rep.sample(|| json!({"slice_case_example": cases.get(cases.len() / 2).map(|c| c.to_json())}));
}

pub fn replay(rep: &mut Report, isas: &[IsaKind], w: &Json) {
    let cd = Case::from_json(&w["case"]);
    if !isas.contains(&ALL_ISAS[cd.isa as usize]) {
        rep.inconclusive = Some(format!("ISA {} unavailable on this machine", isa_name(ALL_ISAS[cd.isa as usize])));
        return;
    }
    let (executed, _) = run_cases(rep, &[cd]);
    rep.evaluations += executed as u64;
    rep.nontrivial(&("slice", cd.helper, cd.elem, cd.isa, cd.place));
}
